(* Correctness of the evaluators of Paths/Model.v against the specification
   relation, operator by operator, stated over evaluator functions so that the
   final induction on the path only has to compose them. *)
From RV Require Import Paths.Model Paths.Basics.

Section E.
Variable g : graph.
(* the store's enumeration of the matches of a pattern: any order, any multiplicity -
   only the set matters for what follows (Paths/Order.v treats the multiset) *)
Variable En : enum.
Hypothesis HE : forall pt t, In t (En pt) <-> In t g /\ matches pt t = true.

Definition ev_spec (f : ev) (R : rel) : Prop :=
  forall s o,
    exists l, f s o = Ok l /\ forall x y, In (x, y) l <-> R x y /\ ends_ok g s o x y.

Definition end_okP (e : option term) (x : term) : Prop :=
  match e with Some b => x = b | None => True end.

Lemma end_ok_P e x : end_ok e x = true <-> end_okP e x.
Proof. destruct e; simpl; [apply N.eqb_eq|tauto]. Qed.

Lemma ends_ok_bound a o x y : ends_ok g (Some a) o x y <-> x = a /\ end_okP o y.
Proof. destruct o; simpl; tauto. Qed.

Lemma ends_ok_swap s o x y : ends_ok g o s y x <-> ends_ok g s o x y.
Proof. destruct s, o; simpl; tauto. Qed.

(* ---------------------------------------------------------------- Iri *)
Lemma ev_iri_spec q : ev_spec (ev_iri En q) (fun x y => In (x, q, y) g).
Proof.
  intros s o. eexists; split; [reflexivity|]. intros x y.
  rewrite in_map_iff. split.
  - intros ([[a b] c] & Heq & Hin). rewrite HE in Hin. destruct Hin as [Hin Hm].
    simpl in Heq. injection Heq as -> ->. simpl in Hm.
    rewrite !andb_true_iff in Hm. destruct Hm as [[H1 H2] H3].
    apply N.eqb_eq in H2. subst b. split; auto.
    pose proof (in_graph_nodes _ _ _ _ Hin) as [Hx Hy].
    destruct s, o; simpl in *; rewrite ?N.eqb_eq in *; auto.
  - intros [Hin He]. exists (x, q, y). split; [reflexivity|].
    rewrite HE. split; auto. simpl.
    destruct s, o; simpl in *; repeat match goal with H : _ /\ _ |- _ => destruct H end; subst;
      rewrite ?N.eqb_refl; auto.
Qed.

(* ---------------------------------------------------------------- Inv *)
Lemma ev_inv_spec f R : ev_spec f R -> ev_spec (ev_inv f) (fun x y => R y x).
Proof.
  intros H s o. destruct (H o s) as (l & Hl & Hin).
  exists (map swap l). split; [unfold ev_inv; rewrite Hl; reflexivity|].
  intros x y. rewrite in_map_iff. split.
  - intros ([a b] & Heq & Hab). unfold swap in Heq; simpl in Heq. injection Heq as <- <-.
    apply Hin in Hab. now rewrite ends_ok_swap in Hab.
  - intros [Hr He]. exists (y, x). split; [reflexivity|]. apply Hin. now rewrite ends_ok_swap.
Qed.

(* ---------------------------------------------------------------- Alt *)
Section Lists.
Variable F : path -> ev.
Variable Rf : path -> rel.
Hypothesis Rf_RN : forall a, RN g (Rf a).

Definition good (a : path) : Prop := ev_spec (F a) (Rf a).

Lemma ev_alt_spec l : Forall good l -> ev_spec (ev_alt (map F l)) (alt_rel (map Rf l)).
Proof.
  intros H s o. rewrite Forall_forall in H. unfold ev_alt. rewrite map_map.
  destruct (rconcat_spec (fun a => F a s o) l) as (r & Hr & Hin).
  { intros a Ha. destruct (H a Ha s o) as (l0 & ? & _). eauto. }
  exists r. split; auto. intros x y. rewrite Hin. split.
  - intros (a & l0 & Ha & Hl0 & Hy). destruct (H a Ha s o) as (l1 & Hl1 & Hspec).
    rewrite Hl0 in Hl1. injection Hl1 as <-. apply Hspec in Hy. destruct Hy. split; auto.
    exists (Rf a). split; [apply in_map; auto|auto].
  - intros [(R & HR & Hxy) He]. rewrite in_map_iff in HR. destruct HR as (a & <- & Ha).
    destruct (H a Ha s o) as (l1 & Hl1 & Hspec).
    exists a, l1. repeat split; auto. apply Hspec; auto.
Qed.

(* ---------------------------------------------------------------- Seq *)
Lemma seq_fw_one f s o : seq_fw [f] s o = f s o.
Proof. reflexivity. Qed.

Lemma seq_fw_cons f rest s o : rest <> [] ->
  seq_fw (f :: rest) s o =
  bind (f s None) (fun xs =>
    rconcat (map (fun xz : pr =>
      rmap (map (fun r : pr => (fst xz, snd r))) (seq_fw rest (Some (snd xz)) o)) xs)).
Proof. destruct rest; [congruence|reflexivity]. Qed.

Lemma seq_rel_one R x y : seq_rel [R] x y <-> R x y.
Proof. simpl. split; [intros (z & H & <-); auto|intros H; eauto]. Qed.

Lemma seq_rel_app l1 l2 x y :
  seq_rel (l1 ++ l2) x y <-> exists z, seq_rel l1 x z /\ seq_rel l2 z y.
Proof.
  revert x. induction l1 as [|R l1 IH]; intros x; simpl.
  - split; [intros H; eauto|intros (z & -> & H); auto].
  - split.
    + intros (w & H1 & H2). apply IH in H2. destruct H2 as (z & H2 & H3). exists z. split; eauto.
    + intros (z & (w & H1 & H2) & H3). exists w. split; auto. apply IH. eauto.
Qed.

Lemma seq_rel_RN' l : RN g (seq_rel (map Rf l)).
Proof. apply seq_rel_RN. rewrite Forall_map. apply Forall_forall. intros; apply Rf_RN. Qed.

(* start bound: exact *)
Lemma seq_fw_bound l : l <> [] -> Forall good l ->
  forall a o,
  exists r, seq_fw (map F l) (Some a) o = Ok r
            /\ forall x y, In (x, y) r <-> seq_rel (map Rf l) x y /\ x = a /\ end_okP o y.
Proof.
  induction l as [|p l IH]; [congruence|]. intros _ Hg a o.
  inversion Hg as [|? ? Hp Hl]; subst.
  destruct l as [|p2 l'].
  - simpl map. rewrite seq_fw_one.
    destruct (Hp (Some a) o) as (r & Hr & Hin).
    exists r. split; auto. intros x y. rewrite Hin, seq_rel_one, ends_ok_bound. tauto.
  - set (rest := p2 :: l') in *. assert (Hne : rest <> []) by (unfold rest; congruence).
    simpl map. rewrite seq_fw_cons by (unfold rest; simpl; congruence).
    destruct (Hp (Some a) None) as (xs & Hxs & Hxin).
    rewrite Hxs. simpl bind.
    assert (Hz : forall xz, In xz xs -> Rf p a (snd xz) /\ fst xz = a).
    { intros [x z] Hxz. apply Hxin in Hxz. simpl in *. destruct Hxz as [? ->]. auto. }
    destruct (rconcat_spec (fun xz : pr =>
       rmap (map (fun r : pr => (fst xz, snd r))) (seq_fw (map F rest) (Some (snd xz)) o)) xs)
      as (r & Hr & Hrin).
    { intros xz Hxz. destruct (IH Hne Hl (snd xz) o) as (r0 & Hr0 & _).
      rewrite Hr0. cbn [rmap bind]. eauto. }
    exists r. split; auto. intros x y. rewrite Hrin. split.
    + intros (xz & l0 & Hxz & Hl0 & Hy).
      destruct (IH Hne Hl (snd xz) o) as (r0 & Hr0 & Hr0in).
      rewrite Hr0 in Hl0. cbn [rmap bind] in Hl0. injection Hl0 as <-.
      rewrite in_map_iff in Hy. destruct Hy as ([z' y'] & Heq & Hzy). simpl in Heq.
      injection Heq as <- <-. apply Hr0in in Hzy. destruct Hzy as (Hs & -> & He).
      destruct (Hz xz Hxz) as [HR Hf]. split; [|split; auto].
      simpl. exists (snd xz). rewrite Hf. split; auto.
    + intros ((z & HR & Hs) & -> & He).
      exists (a, z). destruct (IH Hne Hl z o) as (r0 & Hr0 & Hr0in).
      exists (map (fun r1 : pr => (a, snd r1)) r0). split; [apply Hxin; simpl; auto|].
      split; [cbn [fst snd]; rewrite Hr0; reflexivity|].
      rewrite in_map_iff. exists (z, y). split; [reflexivity|]. apply Hr0in. auto.
Qed.

(* start unbound, two or more steps: the first step is evaluated with both ends unbound *)
Lemma seq_fw_unbound p rest o : rest <> [] -> Forall good (p :: rest) ->
  exists r, seq_fw (map F (p :: rest)) None o = Ok r
            /\ forall x y, In (x, y) r <->
                 exists z, Rf p x z /\ In x (nodes g) /\ In z (nodes g)
                           /\ seq_rel (map Rf rest) z y /\ end_okP o y.
Proof.
  intros Hne Hg. inversion Hg as [|? ? Hp Hl]; subst.
  simpl map. rewrite seq_fw_cons by (destruct rest; simpl; congruence).
  destruct (Hp None None) as (xs & Hxs & Hxin).
  rewrite Hxs. simpl bind.
  destruct (rconcat_spec (fun xz : pr =>
     rmap (map (fun r : pr => (fst xz, snd r))) (seq_fw (map F rest) (Some (snd xz)) o)) xs)
    as (r & Hr & Hrin).
  { intros xz Hxz. destruct (seq_fw_bound rest Hne Hl (snd xz) o) as (r0 & Hr0 & _).
    rewrite Hr0. cbn [rmap bind]. eauto. }
  exists r. split; auto. intros x y. rewrite Hrin. split.
  - intros ([x' z] & l0 & Hxz & Hl0 & Hy).
    destruct (seq_fw_bound rest Hne Hl z o) as (r0 & Hr0 & Hr0in).
    cbn [fst snd] in Hl0. rewrite Hr0 in Hl0. cbn [rmap bind] in Hl0. injection Hl0 as <-.
    rewrite in_map_iff in Hy. destruct Hy as ([z' y'] & Heq & Hzy). simpl in Heq.
    injection Heq as <- <-. apply Hr0in in Hzy. destruct Hzy as (Hs & -> & He).
    apply Hxin in Hxz. destruct Hxz as [HR [Hx Hz]]. exists z. auto.
  - intros (z & HR & Hx & Hz & Hs & He).
    assert (Hxz : In (x, z) xs) by (apply Hxin; simpl; auto).
    destruct (seq_fw_bound rest Hne Hl z o) as (r0 & Hr0 & Hr0in).
    exists (x, z), (map (fun r1 : pr => (x, snd r1)) r0). split; auto.
    split; [cbn [fst snd]; rewrite Hr0; reflexivity|].
    rewrite in_map_iff. exists (z, y). split; [reflexivity|]. apply Hr0in. auto.
Qed.

(* both ends unbound *)
Lemma seq_fw_free l : l <> [] -> Forall good l ->
  exists r, seq_fw (map F l) None None = Ok r
            /\ forall x y, In (x, y) r <-> seq_rel (map Rf l) x y /\ ends_ok g None None x y.
Proof.
  intros Hne Hg. destruct l as [|p rest]; [congruence|]. destruct rest as [|p2 l'].
  - inversion Hg as [|? ? Hp _]; subst. simpl map. rewrite seq_fw_one.
    destruct (Hp None None) as (r & Hr & Hin).
    exists r. split; auto. intros x y. rewrite Hin, seq_rel_one. tauto.
  - destruct (@seq_fw_unbound p (p2 :: l') None) as (r & Hr & Hin); auto; [congruence|].
    exists r. split; auto. intros x y. rewrite Hin. simpl ends_ok. split.
    + intros (z & HR & Hx & Hz & Hs & _). split; [simpl; eauto|]. split; auto.
      destruct (seq_rel_RN' _ _ _ Hs) as [<-|[_ ?]]; auto.
    + intros [(z & HR & Hs) [Hx Hy]]. exists z. repeat split; auto.
      destruct (Rf_RN _ _ _ HR) as [<-|[_ ?]]; auto.
Qed.

Lemma seq_bwr_one f s o : seq_bwr [f] s o = f s o.
Proof. reflexivity. Qed.

Lemma seq_bwr_cons f rest s o : rest <> [] ->
  seq_bwr (f :: rest) s o =
  bind (f None o) (fun xs =>
    rconcat (map (fun sz : pr =>
      rmap (map (fun r : pr => (fst r, snd sz))) (seq_bwr rest s (Some (fst sz)))) xs)).
Proof. destruct rest; [congruence|reflexivity]. Qed.

Lemma seq_rel_snoc l R x y : seq_rel (l ++ [R]) x y <-> exists z, seq_rel l x z /\ R z y.
Proof.
  rewrite seq_rel_app. split; intros (z & H1 & H2); exists z; split; auto; apply seq_rel_one; auto.
Qed.

(* end bound, evaluated backwards (rl is the reversed list of steps): exact *)
Lemma seq_bwr_bound rl : rl <> [] -> Forall good rl ->
  forall s b,
  exists r, seq_bwr (map F rl) s (Some b) = Ok r
            /\ forall x y, In (x, y) r <-> seq_rel (map Rf (rev rl)) x y /\ y = b /\ end_okP s x.
Proof.
  induction rl as [|p l IH]; [congruence|]. intros _ Hg s b.
  inversion Hg as [|? ? Hp Hl]; subst.
  destruct l as [|p2 l'].
  - simpl map. rewrite seq_bwr_one.
    destruct (Hp s (Some b)) as (r & Hr & Hin).
    exists r. split; auto. intros x y. rewrite Hin, seq_rel_one.
    destruct s; simpl; intuition (subst; auto).
  - remember (p2 :: l') as rest eqn:Hrest. assert (Hne : rest <> []) by (subst; congruence).
    simpl map. rewrite seq_bwr_cons by (destruct rest; simpl; congruence).
    destruct (Hp None (Some b)) as (xs & Hxs & Hxin).
    rewrite Hxs. cbn [bind].
    assert (Hz : forall sz, In sz xs -> Rf p (fst sz) b /\ snd sz = b).
    { intros [z y] Hzy. apply Hxin in Hzy. simpl in *. destruct Hzy as [? ->]. auto. }
    destruct (rconcat_spec (fun sz : pr =>
       rmap (map (fun r : pr => (fst r, snd sz))) (seq_bwr (map F rest) s (Some (fst sz)))) xs)
      as (r & Hr & Hrin).
    { intros sz Hsz. destruct (IH Hne Hl s (fst sz)) as (r0 & Hr0 & _).
      rewrite Hr0. cbn [rmap bind]. eauto. }
    exists r. split; auto. intros x y. rewrite Hrin. simpl rev. rewrite map_app. simpl map.
    rewrite seq_rel_snoc. split.
    + intros (sz & l0 & Hsz & Hl0 & Hy).
      destruct (IH Hne Hl s (fst sz)) as (r0 & Hr0 & Hr0in).
      rewrite Hr0 in Hl0. cbn [rmap bind] in Hl0. injection Hl0 as <-.
      rewrite in_map_iff in Hy. destruct Hy as ([x' z'] & Heq & Hxz). simpl in Heq.
      injection Heq as E1 E2. subst x' y. apply Hr0in in Hxz. destruct Hxz as (Hs & E3 & He). subst z'.
      destruct (Hz sz Hsz) as [HR Hf]. split; [|split; auto]. exists (fst sz). rewrite Hf. auto.
    + intros ((z & Hs & HR) & Hy & He). subst y.
      assert (Hzb : In (z, b) xs) by (apply Hxin; simpl; auto).
      destruct (IH Hne Hl s z) as (r0 & Hr0 & Hr0in).
      exists (z, b), (map (fun r1 : pr => (fst r1, b)) r0). split; auto.
      split; [cbn [fst snd]; rewrite Hr0; reflexivity|].
      rewrite in_map_iff. exists (x, z). split; [reflexivity|]. apply Hr0in. auto.
Qed.

Lemma ev_seq_spec l : l <> [] -> Forall good l ->
  ev_spec (ev_seq (map F l)) (seq_rel (map Rf l)).
Proof.
  intros Hne Hg s o. unfold ev_seq. destruct s as [a|]; [|destruct o as [b|]].
  - destruct (seq_fw_bound l Hne Hg a o) as (r & Hr & Hin).
    exists r. split; auto. intros x y. rewrite Hin, ends_ok_bound. tauto.
  - unfold seq_bw. rewrite <- map_rev.
    destruct (seq_bwr_bound (rev l)) with (s := @None term) (b := b) as (r & Hr & Hin).
    + intros H. apply Hne. rewrite <- (rev_involutive l), H. reflexivity.
    + apply Forall_rev. auto.
    + exists r. split; auto. intros x y. rewrite Hin, rev_involutive. simpl. tauto.
  - apply seq_fw_free; auto.
Qed.

End Lists.

(* ---------------------------------------------------------------- Neg *)
Definition neg_nobad (l : list negarg) : Prop := forall a, In a l -> a <> NBad.

Definition neg_keepb (l : list negarg) (s p o : term) : bool :=
  negb (memb N.eqb p (neg_fw l)) && negb (existsb (fun q => memb triple_eqb (o, q, s) g) (neg_iv l)).

Lemma neg_keep_val l : neg_nobad l ->
  forall s p o, neg_keep g (s, p, o) l = Ok (neg_keepb l s p o).
Proof.
  unfold neg_keepb. induction l as [|a l IH]; intros Hc s p o; [reflexivity|].
  assert (Hc' : neg_nobad l) by (intros b Hb; apply Hc; now right).
  destruct a as [q|q|]; [| |exfalso; apply (Hc NBad); simpl; auto]; cbn [neg_keep neg_fw neg_iv flat_map app memb existsb].
  - destruct (N.eqb p q) eqn:Eq; [reflexivity|]. cbn [orb]. apply IH; auto.
  - destruct (memb triple_eqb (o, q, s) g) eqn:Em; [cbn [orb negb]; rewrite andb_false_r; reflexivity|].
    cbn [orb]. apply IH; auto.
Qed.

Lemma neg_keepb_true l s p o :
  neg_keepb l s p o = true <-> ~ In p (neg_fw l) /\ forall q, In q (neg_iv l) -> ~ In (o, q, s) g.
Proof.
  unfold neg_keepb. rewrite andb_true_iff, !negb_true_iff, membN_false. split; intros [H1 H2]; split; auto.
  - intros q Hq Hin. assert (existsb (fun q => memb triple_eqb (o, q, s) g) (neg_iv l) = true).
    { apply existsb_exists. exists q. split; auto. apply (memb_In triple_eqb triple_eqb_spec). auto. }
    congruence.
  - destruct (existsb _ (neg_iv l)) eqn:Ex; auto. apply existsb_exists in Ex.
    destruct Ex as (q & Hq & Hm). apply (memb_In triple_eqb triple_eqb_spec) in Hm. exfalso. eapply H2; eauto.
Qed.

Lemma matches_ends s o x p y : In (x, p, y) g ->
  (matches (s, None, o) (x, p, y) = true <-> ends_ok g s o x y).
Proof.
  intros Hin. pose proof (in_graph_nodes _ _ _ _ Hin) as [Hx Hy]. simpl.
  destruct s, o; simpl; rewrite ?andb_true_iff, ?N.eqb_eq; intuition (subst; auto).
Qed.

(* for any members (forward and inverse): the relation the code computes *)
Lemma ev_neg_spec l : neg_nobad l -> ev_spec (ev_neg g En l) (neg_rel_impl g l).
Proof.
  intros Hc s o. unfold ev_neg.
  destruct (rconcat_spec (fun t => rmap (fun b : bool => if b then [so_of t] else []) (neg_keep g t l))
              (En (s, None, o))) as (r & Hr & Hin).
  { intros [[a p] b] _. rewrite neg_keep_val by auto. simpl. eauto. }
  exists r. split; auto. intros x y. rewrite Hin. unfold neg_rel_impl. split.
  - intros ([[a p] b] & l0 & Ht & Hl0 & Hy). rewrite neg_keep_val in Hl0 by auto.
    simpl in Hl0. injection Hl0 as <-.
    destruct (neg_keepb l a p b) eqn:Ek; simpl in Hy; [|destruct Hy].
    destruct Hy as [Heq|[]]. injection Heq as -> ->.
    rewrite HE in Ht. destruct Ht as [Hin0 Hm]. apply neg_keepb_true in Ek. destruct Ek.
    split; [|apply (matches_ends s o _ _ _ Hin0); auto]. exists p. auto.
  - intros [(p & Hp & Hnp & Hiv) He].
    exists (x, p, y). eexists. split; [|split; [rewrite neg_keep_val by auto; reflexivity|]].
    + rewrite HE. split; auto. apply matches_ends; auto.
    + assert (Hk : neg_keepb l x p y = true) by (apply neg_keepb_true; auto). rewrite Hk. simpl. auto.
Qed.

(* ---------------------------------------------------------------- Mul *)
Lemma filter_length_le {A} (p q : A -> bool) l :
  (forall x, In x l -> p x = true -> q x = true) -> length (filter p l) <= length (filter q l).
Proof.
  induction l as [|x l IH]; intros H; simpl; [lia|].
  assert (IH' : length (filter p l) <= length (filter q l)) by (apply IH; intros; apply H; simpl; auto).
  destruct (p x) eqn:Ep; [rewrite (H x (or_introl eq_refl) Ep); simpl; lia|].
  destruct (q x); simpl; lia.
Qed.

Lemma filter_length_lt {A} (p q : A -> bool) l v :
  (forall x, In x l -> p x = true -> q x = true) -> In v l -> p v = false -> q v = true ->
  length (filter p l) < length (filter q l).
Proof.
  induction l as [|x l IH]; intros H Hv Hp Hq; simpl; [destruct Hv|].
  assert (Hle : length (filter p l) <= length (filter q l))
    by (apply filter_length_le; intros; apply H; simpl; auto).
  destruct Hv as [->|Hv].
  - rewrite Hp, Hq. simpl. lia.
  - assert (IH' : length (filter p l) < length (filter q l)) by (apply IH; auto; intros; apply H; simpl; auto).
    destruct (p x) eqn:Ep; [rewrite (H x (or_introl eq_refl) Ep); simpl; lia|].
    destruct (q x); simpl; lia.
Qed.

(* number of node occurrences not yet seen: the termination measure of the searches *)
Definition meas (seen : list term) : nat :=
  length (filter (fun v => negb (memb N.eqb v seen)) (nodes g)).

Lemma meas_incl s1 s2 : incl s1 s2 -> meas s2 <= meas s1.
Proof.
  intros H. apply filter_length_le. intros x _. rewrite !negb_true_iff.
  rewrite !membN_false. intros Hn Hx. apply Hn, H, Hx.
Qed.

Lemma meas_lt v seen : In v (nodes g) -> ~ In v seen -> meas (v :: seen) < meas seen.
Proof.
  intros Hv Hn. apply filter_length_lt with (v := v); auto.
  - intros x _. rewrite !negb_true_iff, !membN_false. simpl. tauto.
  - rewrite negb_false_iff. apply membN_In. simpl; auto.
  - rewrite negb_true_iff. apply membN_false. auto.
Qed.

Lemma meas_le_nodes seen : meas seen <= length (nodes g).
Proof.
  unfold meas. induction (nodes g) as [|x l IH]; simpl; [lia|].
  destruct (negb (memb N.eqb x seen)); simpl; lia.
Qed.

Section MulS.
Variable f : ev.
Variable R : rel.
Hypothesis Hf : ev_spec f R.
Hypothesis HRN : RN g R.

Definition dfs_post (root : term) (obj : option term) (seen : list term)
           (ys : list pr) (sn : list term) : Prop :=
  incl (root :: seen) sn
  /\ (forall v, In v sn -> In v seen \/ v = root \/ tc R root v)
  /\ (forall x y, In (x, y) ys -> x = root /\ tc R root y /\ end_okP obj y)
  /\ (forall v, In v sn -> ~ In v seen -> forall w, R v w ->
        In w sn /\ (end_okP obj w -> In (root, w) ys)).

Definition rec_ok (rec : term -> list term -> dfs_t) (obj : option term) (n' : nat) : Prop :=
  forall v seen, In v (nodes g) -> meas (v :: seen) < n' ->
    exists ys sn, rec v seen = Ok (ys, sn) /\ dfs_post v obj seen ys sn.

Lemma fwd_loop_spec rec obj n' root : rec_ok rec obj n' ->
  forall xs seenc,
    (forall so, In so xs -> fst so = root /\ R root (snd so)) -> In root seenc -> meas seenc <= n' ->
    exists ys sn, fwd_loop rec true obj xs seenc = Ok (ys, sn)
      /\ incl seenc sn
      /\ (forall v, In v sn -> In v seenc \/ tc R root v)
      /\ (forall x y, In (x, y) ys -> x = root /\ tc R root y /\ end_okP obj y)
      /\ (forall v, In v sn -> ~ In v seenc -> forall w, R v w ->
            In w sn /\ (end_okP obj w -> In (root, w) ys))
      /\ (forall so, In so xs -> In (snd so) sn /\ (end_okP obj (snd so) -> In (root, snd so) ys)).
Proof.
  intros Hrec. induction xs as [|[s1 o1] r IH]; intros seenc Hxs Hroot Hm.
  - exists [], seenc. simpl. repeat split; auto using incl_refl; try tauto.
  - destruct (Hxs (s1, o1) (or_introl eq_refl)) as [Hs1 HR1]. simpl in Hs1, HR1. subst s1.
    assert (Hxs' : forall so, In so r -> fst so = root /\ R root (snd so)) by (intros; apply Hxs; simpl; auto).
    cbn [fwd_loop fst snd andb].
    set (y0 := if end_ok obj o1 then [(root, o1)] else []).
    assert (Hy0 : forall x y, In (x, y) y0 -> x = root /\ tc R root y /\ end_okP obj y).
    { unfold y0. intros x y. destruct (end_ok obj o1) eqn:E; [|intros []].
      intros [Heq|[]]. injection Heq as <- <-. repeat split; [constructor; auto|apply end_ok_P; auto]. }
    assert (Hy0' : end_okP obj o1 -> In (root, o1) y0).
    { intros He. apply end_ok_P in He. unfold y0. rewrite He. simpl; auto. }
    destruct (memb N.eqb o1 seenc) eqn:E; cbn [negb].
    + (* already seen *)
      apply membN_In in E.
      destruct (IH seenc Hxs' Hroot Hm) as (ys & sn & Hl & L1 & L2 & L3 & L4 & L5).
      rewrite Hl. cbn [bind fst snd]. exists (y0 ++ ys), sn. split; [reflexivity|].
      split; [auto|]. split; [auto|]. split; [|split].
      * intros x y Hin. apply in_app_or in Hin. destruct Hin; auto.
      * intros v Hv Hn w Hw. destruct (L4 v Hv Hn w Hw) as [? Hy]. split; auto.
        intros He. apply in_or_app. right. auto.
      * intros so [<-|Hso]; cbn [snd].
        -- split; [apply L1; auto|]. intros He. apply in_or_app. left. auto.
        -- destruct (L5 so Hso) as [? Hy]. split; auto. intros He. apply in_or_app. right. auto.
    + (* a new node: recursive search, then the rest of the loop with the enlarged [seen] *)
      apply membN_false in E.
      assert (Ho1 : In o1 (nodes g)).
      { destruct (HRN _ _ HR1) as [Heq|[_ ?]]; auto. subst o1. tauto. }
      destruct (Hrec o1 seenc Ho1) as (zs & sn1 & Hz & P1 & P2 & P3 & P4).
      { pose proof (meas_lt o1 seenc Ho1 E). lia. }
      rewrite Hz. cbn [bind fst snd].
      assert (Hinc1 : incl seenc sn1) by (intros v Hv; apply P1; simpl; auto).
      destruct (IH sn1 Hxs') as (ys & sn & Hl & L1 & L2 & L3 & L4 & L5).
      { apply Hinc1; auto. }
      { pose proof (meas_incl _ _ Hinc1). lia. }
      rewrite Hl. cbn [bind fst snd].
      exists (y0 ++ map (fun z : pr => (root, snd z)) zs ++ ys), sn. split; [reflexivity|].
      split; [eapply incl_tran; eauto|]. split; [|split; [|split]].
      * intros v Hv. destruct (L2 v Hv) as [Hv1|]; auto.
        destruct (P2 v Hv1) as [?|[->|Ht]]; auto.
        -- right. constructor; auto.
        -- right. eapply tc_step; eauto.
      * intros x y Hin. apply in_app_or in Hin. destruct Hin as [Hin|Hin]; auto.
        apply in_app_or in Hin. destruct Hin as [Hin|Hin]; auto.
        rewrite in_map_iff in Hin. destruct Hin as ([a b] & Heq & Hab). simpl in Heq.
        injection Heq as <- <-. destruct (P3 _ _ Hab) as (_ & Ht & He).
        repeat split; auto. eapply tc_step; eauto.
      * intros v Hv Hn w Hw.
        destruct (in_dec N.eq_dec v sn1) as [Hv1|Hv1].
        -- destruct (P4 v Hv1 Hn w Hw) as [Hw1 Hy]. split; [apply L1; auto|].
           intros He. apply in_or_app. right. apply in_or_app. left.
           rewrite in_map_iff. exists (o1, w). split; auto.
        -- destruct (L4 v Hv Hv1 w Hw) as [? Hy]. split; auto.
           intros He. apply in_or_app. right. apply in_or_app. right. auto.
      * intros so [<-|Hso]; cbn [snd].
        -- split; [apply L1, P1; simpl; auto|]. intros He. apply in_or_app. left. auto.
        -- destruct (L5 so Hso) as [? Hy]. split; auto. intros He.
           apply in_or_app. right. apply in_or_app. right. auto.
Qed.

Lemma fwd_spec n : forall root obj seen,
  meas (root :: seen) < n ->
  exists ys sn, fwd f true n root obj seen = Ok (ys, sn) /\ dfs_post root obj seen ys sn.
Proof.
  induction n as [|n' IH]; intros root obj seen Hm; [lia|].
  cbn [fwd].
  destruct (Hf (Some root) None) as (xs & Hxs & Hxin).
  rewrite Hxs. cbn [bind].
  destruct (@fwd_loop_spec (fun v sn => fwd f true n' v obj sn) obj n' root) with (xs := xs) (seenc := root :: seen)
    as (ys & sn & Hl & L1 & L2 & L3 & L4 & L5).
  - intros v sn0 Hv Hm0. apply IH; auto.
  - intros [x y] Hso. apply Hxin in Hso. simpl in *. destruct Hso as [? ->]. auto.
  - simpl; auto.
  - lia.
  - exists ys, sn. split; auto. split; [auto|]. split; [|split; auto].
    + intros v Hv. destruct (L2 v Hv) as [[->|?]|?]; auto.
    + intros v Hv Hn w Hw. destruct (N.eq_dec v root) as [->|Hne].
      * apply (L5 (root, w)). apply Hxin. simpl. auto.
      * apply (L4 v Hv); auto. simpl. intros [?|?]; [congruence|tauto].
Qed.

Lemma dfs_complete root obj ys sn : dfs_post root obj [] ys sn ->
  forall y, tc R root y -> end_okP obj y -> In (root, y) ys.
Proof.
  intros (P1 & _ & _ & P4).
  assert (H : forall v y, tc R v y -> In v sn -> In y sn /\ (end_okP obj y -> In (root, y) ys)).
  { induction 1 as [v y Hvy|v z y Hvz _ IH]; intros Hv.
    - apply (P4 v Hv); auto.
    - destruct (P4 v Hv (fun x => x) z Hvz) as [Hz _]. auto. }
  intros y Ht He. apply (H root y Ht); auto. apply P1. simpl; auto.
Qed.

Lemma fwd_loop_once rec obj xs seen :
  fwd_loop rec false obj xs seen = Ok (filter (fun so : pr => end_ok obj (snd so)) xs, seen).
Proof.
  induction xs as [|so r IH]; [reflexivity|]. cbn [fwd_loop andb]. rewrite IH. cbn [bind fst snd filter].
  destruct (end_ok obj (snd so)); reflexivity.
Qed.

Variable n : nat.
Hypothesis Hn : fuel g <= n.

Lemma meas_fuel seen : meas seen < n.
Proof. pose proof (meas_le_nodes seen). unfold fuel in Hn. lia. Qed.

(* the search from a bound start *)
Lemma raw_fwd more a o :
  exists r, rmap fst (fwd f more n a o []) = Ok r
    /\ forall x y, In (x, y) r <->
         x = a /\ end_okP o y /\ (if more then tc R a y else R a y).
Proof.
  destruct more.
  - destruct (fwd_spec n a o [] (meas_fuel _)) as (ys & sn & Hy & Hpost).
    exists ys. split; [rewrite Hy; reflexivity|]. intros x y. split.
    + intros Hin. destruct Hpost as (_ & _ & P3 & _). destruct (P3 _ _ Hin) as (-> & ? & ?). auto.
    + intros (-> & He & Ht). eapply dfs_complete; eauto.
  - destruct n as [|n']; [unfold fuel in Hn; lia|]. cbn [fwd].
    destruct (Hf (Some a) None) as (xs & Hxs & Hxin).
    rewrite Hxs. cbn [bind]. rewrite fwd_loop_once. cbn [rmap bind fst].
    eexists; split; [reflexivity|]. intros x y. rewrite filter_In, Hxin. cbn [snd].
    rewrite end_ok_P. simpl. intuition (subst; auto).
Qed.

Lemma starts_spec xs : (forall so, In so xs -> In (fst so) (nodes g)) ->
  forall seen, exists r, starts f n xs seen = Ok r
    /\ forall x y, In (x, y) r <->
         (exists so, In so xs /\ fst so = x) /\ ~ In x seen /\ tc R x y.
Proof.
  induction xs as [|so r IH]; intros Hnd seen.
  - exists []. split; [reflexivity|]. intros x y. split; [intros []|intros [(so & [] & _) _]].
  - assert (Hnd' : forall so0, In so0 r -> In (fst so0) (nodes g)) by (intros; apply Hnd; simpl; auto).
    cbn [starts]. destruct (memb N.eqb (fst so) seen) eqn:E.
    + apply membN_In in E.
      destruct (IH Hnd' seen) as (r0 & Hr0 & Hin). exists r0. split; auto.
      intros x y. rewrite Hin. split.
      * intros [(so0 & Hso & Hx) H2]. split; auto. exists so0. simpl; auto.
      * intros [(so0 & [<-|Hso] & Hx) [Hns Ht]]; [subst x; tauto|]. split; eauto.
    + apply membN_false in E.
      destruct (fwd_spec n (fst so) None []) as (ys & sn & Hy & Hpost).
      { apply meas_fuel. }
      rewrite Hy. cbn [bind fst].
      assert (Hall : forallb (fun y : pr => N.eqb (fst y) (fst so)) ys = true).
      { apply forallb_forall. intros [a b] Hab. destruct Hpost as (_ & _ & P3 & _).
        destruct (P3 _ _ Hab) as (-> & _). apply N.eqb_refl. }
      rewrite Hall. destruct (IH Hnd' (fst so :: seen)) as (r0 & Hr0 & Hin).
      rewrite Hr0. cbn [bind]. exists (ys ++ r0). split; auto.
      intros x y. rewrite in_app_iff, Hin. split.
      * intros [Hxy|[(so0 & Hso & Hx) [Hns Ht]]].
        -- destruct Hpost as (_ & _ & P3 & _). destruct (P3 _ _ Hxy) as (-> & Ht & _).
           split; [exists so; simpl; auto|]. auto.
        -- split; [exists so0; simpl; auto|]. split; auto. intros H; apply Hns; simpl; auto.
      * intros [(so0 & Hso & Hx) [Hns Ht]].
        destruct (N.eq_dec x (fst so)) as [->|Hne].
        -- left. eapply dfs_complete; eauto. exact I.
        -- right. destruct Hso as [<-|Hso]; [congruence|].
           split; [eauto|]. split; auto. simpl. intros [?|?]; [congruence|tauto].
Qed.

Lemma all_fwd_spec gl zero more : (forall v, In v (nodes gl) <-> In v (nodes g)) ->
  exists r, all_fwd gl f zero more n = Ok r
    /\ forall x y, In (x, y) r <->
         (zero = true /\ x = y /\ In x (nodes g))
         \/ (In x (nodes g) /\ In y (nodes g) /\ (if more then tc R x y else R x y)).
Proof.
  intros Hgl. unfold all_fwd. destruct (Hf None None) as (xs & Hxs & Hxin).
  rewrite Hxs. cbn [bind].
  set (z := if zero then map (fun v => (v, v)) (dedup N.eqb (nodes gl)) else []).
  assert (Hz : forall x y, In (x, y) z <-> zero = true /\ x = y /\ In x (nodes g)).
  { intros x y. unfold z. destruct zero.
    - rewrite in_map_iff. split.
      + intros (v & Heq & Hv). injection Heq as <- <-. rewrite dedupN_In, Hgl in Hv. auto.
      + intros (_ & <- & Hx). exists x. split; auto. apply dedupN_In. apply Hgl. auto.
    - split; [intros []|intros [? _]; discriminate]. }
  destruct more.
  - destruct (starts_spec xs) with (seen := @nil term) as (r0 & Hr0 & Hin).
    { intros [a b] Hab. apply Hxin in Hab. simpl in *. tauto. }
    rewrite Hr0. cbn [rmap bind]. exists (z ++ r0). split; auto.
    intros x y. rewrite in_app_iff, Hz, Hin. split.
    + intros [?|[([a b] & Hab & Hx) [_ Ht]]]; auto. right.
      apply Hxin in Hab. simpl in *. subst a. destruct Hab as [_ [Hx _]].
      repeat split; auto. destruct (tc_RN _ _ HRN _ _ Ht) as [<-|[_ ?]]; auto.
    + intros [?|(Hx & Hy & Ht)]; auto. right. split; [|split; auto].
      assert (exists y0, R x y0) as [y0 Hy0] by (inversion Ht; eauto).
      exists (x, y0). split; auto. apply Hxin. split; auto. split; auto.
      destruct (HRN _ _ Hy0) as [<-|[_ ?]]; auto.
  - exists (z ++ xs). split; auto. intros x y. rewrite in_app_iff, Hz, Hxin. simpl. tauto.
Qed.

End MulS.

Lemma RN_conv R : RN g R -> RN g (fun x y => R y x).
Proof. intros H x y Hxy. destruct (H _ _ Hxy) as [->|[? ?]]; auto. Qed.

(* _bwd is _fwd over the inverted evaluator, with the pairs swapped *)
Definition sw (p : list pr * list term) : list pr * list term := (map swap (fst p), snd p).

Lemma bwd_loop_fwd (rec_b rec_f : term -> list term -> dfs_t) more xs :
  (forall v sn, rec_b v sn = rmap sw (rec_f v sn)) ->
  forall seen, bwd_loop rec_b more None xs seen = rmap sw (fwd_loop rec_f more None (map swap xs) seen).
Proof.
  intros Hrec. induction xs as [|[s1 o1] r IH]; intros seen; [reflexivity|].
  cbn [bwd_loop fwd_loop map swap fst snd end_ok].
  destruct (more && negb (memb N.eqb s1 seen)).
  - rewrite Hrec. destruct (rec_f s1 seen) as [[zs sn1]| |]; cbn [rmap bind fst snd sw]; auto.
    rewrite IH. destruct (fwd_loop rec_f more None (map swap r) sn1) as [[ys sn2]| |]; cbn [rmap bind fst snd sw]; auto.
    unfold sw. cbn [fst snd]. f_equal. f_equal. cbn [app map swap fst snd]. f_equal.
    rewrite map_app, !map_map. reflexivity.
  - rewrite IH. destruct (fwd_loop rec_f more None (map swap r) seen) as [[ys sn2]| |]; cbn [rmap bind fst snd sw]; auto.
Qed.

Lemma bwd_fwd f more n : forall obj seen,
  bwd f more n None obj seen = rmap sw (fwd (ev_inv f) more n obj None seen).
Proof.
  induction n as [|n' IH]; intros obj seen; [reflexivity|].
  cbn [bwd fwd]. unfold ev_inv at 1. destruct (f None (Some obj)) as [xs| |]; cbn [rmap bind]; auto.
  apply bwd_loop_fwd. intros v sn. apply IH.
Qed.

Lemma mul_rel_split m R x y :
  mul_rel m R x y <-> (mod_zero m = true /\ x = y) \/ (if mod_more m then tc R x y else R x y).
Proof. destruct m; simpl; intuition congruence. Qed.

Lemma mul_pre_In z s o x y :
  In (x, y) (mul_pre z s o) <->
  z = true /\ x = y /\ end_okP s x /\ end_okP o y /\ (s <> None \/ o <> None).
Proof.
  unfold mul_pre. destruct z; [|split; [intros []|intros [? _]; discriminate]].
  destruct s as [a|], o as [b|]; simpl.
  - destruct (N.eqb_spec a b).
    + subst. simpl. split.
      * intros [Heq|[]]. injection Heq as <- <-. repeat split; auto. left; discriminate.
      * intros (_ & <- & -> & _). auto.
    + simpl. split; [intros []|]. intros (_ & <- & -> & ? & _). congruence.
  - split.
    + intros [Heq|[]]. injection Heq as <- <-. repeat split; auto. left; discriminate.
    + intros (_ & <- & -> & _). auto.
  - split.
    + intros [Heq|[]]. injection Heq as <- <-. repeat split; auto. right; discriminate.
    + intros (_ & -> & _ & -> & _). auto.
  - split; [intros []|]. intros (_ & _ & _ & _ & [H|H]); congruence.
Qed.

Lemma mul_raw_spec gl f R n m : (forall v, In v (nodes gl) <-> In v (nodes g)) ->
  ev_spec f R -> RN g R -> fuel g <= n ->
  forall s o,
  exists r, mul_raw gl n f m s o = Ok r
    /\ forall x y, In (x, y) r <->
         match s, o with
         | None, None =>
             (mod_zero m = true /\ x = y /\ In x (nodes g))
             \/ (In x (nodes g) /\ In y (nodes g) /\ (if mod_more m then tc R x y else R x y))
         | _, _ => end_okP s x /\ end_okP o y /\ (if mod_more m then tc R x y else R x y)
         end.
Proof.
  intros Hgl Hf HRN Hn s o. destruct s as [a|]; [|destruct o as [b|]]; cbn [mul_raw].
  - destruct (@raw_fwd f R Hf HRN n Hn (mod_more m) a o) as (r & Hr & Hin).
    exists r. split; auto. intros x y. rewrite Hin. simpl end_okP.
    split; [intros (-> & ? & ?)|intros (-> & ? & ?)]; auto.
  - rewrite bwd_fwd.
    destruct (@raw_fwd (ev_inv f) (fun x y => R y x) (ev_inv_spec f R Hf) (RN_conv R HRN) n Hn (mod_more m) b None)
      as (r & Hr & Hin).
    destruct (fwd (ev_inv f) (mod_more m) n b None []) as [[ys sn]| |]; try discriminate.
    cbn [rmap bind fst sw] in *. injection Hr as <-.
    eexists; split; [reflexivity|]. intros x y. rewrite in_map_iff. simpl end_okP. split.
    + intros ([y' x'] & Heq & Hyx). unfold swap in Heq. simpl in Heq. injection Heq as <- <-.
      apply Hin in Hyx. destruct Hyx as (-> & _ & Ht). split; auto. split; auto.
      destruct (mod_more m); auto. apply tc_conv in Ht. auto.
    + intros (_ & -> & Ht). exists (b, x). split; [reflexivity|]. apply Hin.
      split; auto. split; [exact I|]. destruct (mod_more m); auto. apply tc_conv. auto.
  - apply (all_fwd_spec f R Hf HRN n Hn); auto.
Qed.

Lemma ev_mul_spec gl f R n m : (forall v, In v (nodes gl) <-> In v (nodes g)) ->
  ev_spec f R -> RN g R -> fuel g <= n ->
  ev_spec (ev_mul gl n f m) (mul_rel m R).
Proof.
  intros Hgl Hf HRN Hn s o. unfold ev_mul.
  destruct (mul_raw_spec gl f R n m Hgl Hf HRN Hn s o) as (r & Hr & Hin). rewrite Hr. cbn [rmap bind].
  eexists; split; [reflexivity|]. intros x y.
  rewrite (dedup_acc_In pr_eqb pr_eqb_spec), mul_pre_In, Hin, mul_rel_split.
  destruct s as [a|], o as [b|]; simpl.
  - intuition (subst; auto; try congruence); left; repeat split; auto; try (left; discriminate); try (right; discriminate).
  - intuition (subst; auto; try congruence); left; repeat split; auto; try (left; discriminate); try (right; discriminate).
  - intuition (subst; auto; try congruence); left; repeat split; auto; try (left; discriminate); try (right; discriminate).
  - split.
    + intros [(_ & _ & _ & _ & [H|H])|[(Hz & <- & Hx)|(Hx & Hy & Ht)]]; try congruence; auto.
    + intros [[[Hz <-]|Ht] [Hx Hy]]; auto.
Qed.

Lemma enum_all_nodes : forall v, In v (nodes (En (None, None, None))) <-> In v (nodes g).
Proof.
  assert (H : forall t, In t (En (None, None, None)) <-> In t g).
  { intros [[a b] c]. rewrite HE. simpl. tauto. }
  intros v. unfold nodes. rewrite !in_flat_map. split; intros (t & Ht & Hv); exists t; split; auto; apply H; auto.
Qed.

End E.
