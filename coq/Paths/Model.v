(* Model of rdflib/paths.py: property-path evaluation over a graph.

   A graph is a list of triples; Python generators become lists whose order is
   the order of the yields (the correspondence check compares observations as
   multisets, because the iteration order of the Memory store's indices is not
   modelled).  The evaluators mirror InvPath.eval, SequencePath.eval
   (_eval_seq, _eval_seq_bw and the choice of direction), AlternativePath.eval,
   MulPath.eval (_fwd, _bwd, _all_fwd_paths, the [seen] set shared by the whole
   recursion, the zero-length
   pair that is entered into [done] before it is yielded, the [done] filter) and
   NegatedPath.eval, as they are after the "fix:" commits for findings F4a
   (bound ends tested with [is not None]), F4d (_eval_seq_bw recurses into
   itself) and F4b (the zero-length pair is recorded in [done]).

   Sub-paths are evaluated through [graph.triples((s, path, o))], i.e. through
   the same evaluator again; the model is therefore written over *evaluator
   functions* ([ev]) and [eval] ties the knot by structural recursion on the
   path.  The depth-first searches of MulPath take a fuel argument.

   No proofs in this file. *)
From RV Require Export Base.Quads.

Definition graph := list triple.
Definition pr := (term * term)%type.
Definition pr_eqb : pr -> pr -> bool := pair_eqb N.eqb N.eqb.

Inductive mulmod := ZeroOrMore | OneOrMore | ZeroOrOne.
(* member of a negated property set: iri, ^iri, or the untranslated parser
   node that translatePath leaves behind for ^iri (SPARQL route only) *)
Inductive negarg := NIri (p : term) | NInv (p : term) | NBad.

Inductive path :=
| Iri (p : term)
| Inv (a : path)
| Seq (l : list path)
| Alt (l : list path)
| Mul (a : path) (m : mulmod)
| Neg (l : list negarg).

(* outcome of an evaluation: the list of yields, fuel exhausted (would not
   terminate), or a Python exception *)
Inductive res (A : Type) := Ok (a : A) | OutOfFuel | Raised.
Arguments Ok {A} a.
Arguments OutOfFuel {A}.
Arguments Raised {A}.

Definition bind {A B} (r : res A) (k : A -> res B) : res B :=
  match r with Ok a => k a | OutOfFuel => OutOfFuel | Raised => Raised end.
Definition rmap {A B} (f : A -> B) (r : res A) : res B := bind r (fun a => Ok (f a)).

Fixpoint rconcat {A} (l : list (res (list A))) : res (list A) :=
  match l with
  | [] => Ok []
  | r :: t => bind r (fun a => bind (rconcat t) (fun b => Ok (a ++ b)))
  end.

(* an evaluator: bound-or-unbound start, bound-or-unbound end |-> yields *)
Definition ev := option term -> option term -> res (list pr).

Definition so_of (t : triple) : pr := let '(s, _, o) := t in (s, o).
Definition swap (x : pr) : pr := (snd x, fst x).
Definition nodes (g : graph) : list term := flat_map (fun t => [fst (so_of t); snd (so_of t)]) g.

(* Graph.triples with a URIRef predicate: the store's answer *)
Definition triples_of (g : graph) (pt : pat) : list triple := filter (matches pt) g.

(* The store's answer to a triple pattern is an *enumeration* of the matching
   triples in an order that the model does not fix (the Memory store walks one of
   its three nested-dict indices).  The evaluators take the enumeration function
   as a parameter; [std_enum] lists the matches in graph-list order, and
   Paths/Order.v proves that the multiset of yields is the same for every
   enumeration that is a permutation of the matches. *)
Definition enum := pat -> list triple.
Definition std_enum (g : graph) : enum := triples_of g.
Definition ev_iri (E : enum) (q : term) : ev :=
  fun s o => Ok (map so_of (E (s, Some q, o))).

(* InvPath.eval *)
Definition ev_inv (f : ev) : ev := fun s o => rmap (map swap) (f o s).

(* SequencePath.eval *)
Fixpoint seq_fw (l : list ev) (s o : option term) : res (list pr) :=
  match l with
  | [] => Raised                                   (* paths[0]: IndexError *)
  | f :: rest =>
      match rest with
      | [] => f s o
      | _ => bind (f s None) (fun xs =>
               rconcat (map (fun xz : pr =>
                  rmap (map (fun r : pr => (fst xz, snd r))) (seq_fw rest (Some (snd xz)) o)) xs))
      end
  end.

Definition ev_dummy : ev := fun _ _ => Raised.

(* _eval_seq_bw, on the reversed list of steps (paths[-1] first); since the
   F4d fix it recurses into itself on paths[:-1] *)
Fixpoint seq_bwr (rl : list ev) (s o : option term) : res (list pr) :=
  match rl with
  | [] => Raised                                   (* paths[0]: IndexError *)
  | f :: rest =>
      match rest with
      | [] => f s o
      | _ => bind (f None o) (fun xs =>
               rconcat (map (fun sz : pr =>
                  rmap (map (fun r : pr => (fst r, snd sz))) (seq_bwr rest s (Some (fst sz)))) xs))
      end
  end.

Definition seq_bw (l : list ev) (s o : option term) : res (list pr) := seq_bwr (rev l) s o.

(* the code before the F4d fix: the remaining steps were evaluated forwards *)
Definition hist_seq_bw (l : list ev) (s o : option term) : res (list pr) :=
  match removelast l with
  | [] => match l with f :: _ => f s o | [] => Raised end
  | init => bind (last l ev_dummy None o) (fun xs =>
              rconcat (map (fun sz : pr =>
                 rmap (map (fun r : pr => (fst r, snd sz))) (seq_fw init s (Some (fst sz)))) xs))
  end.

Definition ev_seq (l : list ev) : ev :=
  fun s o =>
    match s, o with
    | Some _, _ => seq_fw l s o
    | None, Some _ => seq_bw l s o
    | None, None => seq_fw l s o
    end.

(* AlternativePath.eval *)
Definition ev_alt (l : list ev) : ev := fun s o => rconcat (map (fun f : ev => f s o) l).

(* NegatedPath.eval: scan the triples matching (subj, None, obj); a triple is
   dropped at the first member that "matches" it *)
Fixpoint neg_keep (g : graph) (t : triple) (l : list negarg) : res bool :=
  match l with
  | [] => Ok true
  | a :: r =>
      let '(s, p, o) := t in
      match a with
      | NIri q => if N.eqb p q then Ok false else neg_keep g t r
      | NInv q => if memb triple_eqb (o, q, s) g then Ok false else neg_keep g t r
      | NBad => Raised                              (* "Invalid path in NegatedPath" *)
      end
  end.

Definition ev_neg (g : graph) (E : enum) (l : list negarg) : ev :=
  fun s o =>
    rconcat (map (fun t => rmap (fun b : bool => if b then [so_of t] else []) (neg_keep g t l))
                 (E (s, None, o))).

(* MulPath.eval *)
Definition mod_zero (m : mulmod) : bool := match m with OneOrMore => false | _ => true end.
Definition mod_more (m : mulmod) : bool := match m with ZeroOrOne => false | _ => true end.

Definition end_ok (e : option term) (x : term) : bool :=
  match e with None => true | Some b => N.eqb x b end.

(* the body of the [for s, o in eval_path(...)] loop of _fwd; [rec] is the
   search below the node o (_fwd(o, obj, seen) in the recursive formulation); the
   state is the shared [seen] set.
   Since the "fix:" commit for finding F4f the code runs this search with an explicit
   stack of (iterator, label) entries instead of one generator frame per step.  That
   is the same function: an entry of the stack is exactly a pending [fwd_loop] (the
   rest [r] of the list being iterated, and the label [fst so] under which the yields
   below are reported), pushing an entry is the call of [rec], popping it is its
   return, [seen] is threaded identically and the yields come in the same order.
   The model is a mathematical recursion (fuel = bound on the depth of the search),
   it has no interpreter stack; suite deep_chain runs chains beyond the recursion limit. *)
Definition dfs_t := res (list pr * list term).

Fixpoint fwd_loop (rec : term -> list term -> dfs_t) (more : bool) (obj : option term)
         (xs : list pr) (seen : list term) : dfs_t :=
  match xs with
  | [] => Ok ([], seen)
  | so :: r =>
      let y := if end_ok obj (snd so) then [so] else [] in
      if more && negb (memb N.eqb (snd so) seen) then
        bind (rec (snd so) seen) (fun zs =>
          bind (fwd_loop rec more obj r (snd zs)) (fun ys =>
            Ok (y ++ map (fun z : pr => (fst so, snd z)) (fst zs) ++ fst ys, snd ys)))
      else
        bind (fwd_loop rec more obj r seen) (fun ys => Ok (y ++ fst ys, snd ys))
  end.

Fixpoint bwd_loop (rec : term -> list term -> dfs_t) (more : bool) (subj : option term)
         (xs : list pr) (seen : list term) : dfs_t :=
  match xs with
  | [] => Ok ([], seen)
  | so :: r =>
      let y := if end_ok subj (fst so) then [so] else [] in
      if more && negb (memb N.eqb (fst so) seen) then
        bind (rec (fst so) seen) (fun zs =>
          bind (bwd_loop rec more subj r (snd zs)) (fun ys =>
            Ok (y ++ map (fun z : pr => (fst z, snd so)) (fst zs) ++ fst ys, snd ys)))
      else
        bind (bwd_loop rec more subj r seen) (fun ys => Ok (y ++ fst ys, snd ys))
  end.

Section Mul.
  Variable f : ev.         (* evaluator of self.path *)
  Variable more : bool.

  (* _fwd(subj, obj, seen): returns the yields and the final [seen] *)
  Fixpoint fwd (n : nat) (subj : term) (obj : option term) (seen : list term) : dfs_t :=
    match n with
    | O => OutOfFuel
    | S n' =>
        bind (f (Some subj) None) (fun xs =>
          fwd_loop (fun v sn => fwd n' v obj sn) more obj xs (subj :: seen))
    end.

  (* _bwd(subj, obj, seen); the recursive call passes subj = None *)
  Fixpoint bwd (n : nat) (subj : option term) (obj : term) (seen : list term) : dfs_t :=
    match n with
    | O => OutOfFuel
    | S n' =>
        bind (f None (Some obj)) (fun xs =>
          bwd_loop (fun v sn => bwd n' None v sn) more subj xs (obj :: seen))
    end.
End Mul.

(* the [more] loop of _all_fwd_paths: one fresh search per distinct start *)
Fixpoint starts (f : ev) (n : nat) (xs : list pr) (seen : list term) : res (list pr) :=
  match xs with
  | [] => Ok []
  | so :: r =>
      if memb N.eqb (fst so) seen then starts f n r seen
      else bind (fwd f true n (fst so) None []) (fun ys =>
             if forallb (fun y : pr => N.eqb (fst y) (fst so)) (fst ys)     (* assert s1 == s *)
             then bind (starts f n r (fst so :: seen)) (fun zs => Ok (fst ys ++ zs))
             else Raised)
  end.

Definition all_fwd (g : graph) (f : ev) (zero more : bool) (n : nat) : res (list pr) :=
  let z := if zero then map (fun v => (v, v)) (dedup N.eqb (nodes g)) else [] in
  bind (f None None) (fun xs =>
    if more then rmap (app z) (starts f n xs []) else Ok (z ++ xs)).

Definition mul_pre (zero : bool) (s o : option term) : list pr :=
  if zero then
    match s, o with
    | Some a, Some b => if N.eqb a b then [(a, b)] else []
    | Some a, None => [(a, a)]
    | None, Some b => [(b, b)]
    | None, None => []
    end
  else [].

Definition mul_raw (g : graph) (n : nat) (f : ev) (m : mulmod) (s o : option term) : res (list pr) :=
  match s, o with
  | Some a, _ => rmap fst (fwd f (mod_more m) n a o [])
  | None, Some b => rmap fst (bwd f (mod_more m) n None b [])
  | None, None => all_fwd g f (mod_zero m) (mod_more m) n
  end.

(* [done] holds the zero-length pair before the search starts: the yields are the
   preamble followed by the first occurrences of the search's pairs not yet in [done] *)
Definition ev_mul (g : graph) (n : nat) (f : ev) (m : mulmod) : ev :=
  fun s o => rmap (fun r => dedup_acc pr_eqb (mul_pre (mod_zero m) s o) r) (mul_raw g n f m s o).

(* the code before the F4b fix: the preamble was yielded outside the [done] filter *)
Definition hist_ev_mul (g : graph) (n : nat) (f : ev) (m : mulmod) : ev :=
  fun s o => rmap (fun r => mul_pre (mod_zero m) s o ++ dedup pr_eqb r) (mul_raw g n f m s o).

(* Graph.triples((s, path, o)) *)
Fixpoint evalE (E : enum) (g : graph) (n : nat) (p : path) {struct p} : ev :=
  match p with
  | Iri q => ev_iri E q
  | Inv a => ev_inv (evalE E g n a)
  | Seq l => ev_seq (map (fun a => evalE E g n a) l)
  | Alt l => ev_alt (map (fun a => evalE E g n a) l)
  | Mul a m => ev_mul (E (None, None, None)) n (evalE E g n a) m   (* graph.subject_objects(None) *)
  | Neg l => ev_neg g E l
  end.

Definition eval (g : graph) (n : nat) (p : path) : ev := evalE (std_enum g) g n p.

(* enough fuel for every depth-first search: one more than the number of
   subject/object occurrences *)
Definition fuel (g : graph) : nat := S (length (nodes g)).

(* ------------------------------------------------------------------ *)
(* Specification: the relation SPARQL 1.1 (section 18.4/18.5) assigns to a path,
   over all terms (a zero-length match relates every term to itself). *)

Inductive tc (R : term -> term -> Prop) : term -> term -> Prop :=
| tc_one x y : R x y -> tc R x y
| tc_step x z y : R x z -> tc R z y -> tc R x y.

Fixpoint seq_rel (l : list (term -> term -> Prop)) (x y : term) : Prop :=
  match l with
  | [] => x = y
  | R :: r => exists z, R x z /\ seq_rel r z y
  end.

Definition alt_rel (l : list (term -> term -> Prop)) (x y : term) : Prop :=
  exists R, In R l /\ R x y.

Definition mul_rel (m : mulmod) (R : term -> term -> Prop) (x y : term) : Prop :=
  match m with
  | ZeroOrOne => x = y \/ R x y
  | OneOrMore => tc R x y
  | ZeroOrMore => x = y \/ tc R x y
  end.

Definition neg_fw (l : list negarg) : list term :=
  flat_map (fun a => match a with NIri q => [q] | _ => [] end) l.
Definition neg_iv (l : list negarg) : list term :=
  flat_map (fun a => match a with NInv q => [q] | _ => [] end) l.

(* 18.2.2.3 / 18.4: !(:p1|..|:pn) = NPS{p..}; !(^:q1|..) = inv(NPS{q..});
   mixed = alt of both; NPS(S) relates x to y iff some triple (x, p, y) has p not in S *)
Definition neg_rel (g : graph) (l : list negarg) (x y : term) : Prop :=
  ((neg_iv l = [] \/ neg_fw l <> []) /\ exists p, In (x, p, y) g /\ ~ In p (neg_fw l))
  \/ (neg_iv l <> [] /\ exists p, In (y, p, x) g /\ ~ In p (neg_iv l)).

Fixpoint path_rel (g : graph) (p : path) {struct p} : term -> term -> Prop :=
  match p with
  | Iri q => fun x y => In (x, q, y) g
  | Inv a => fun x y => path_rel g a y x
  | Seq l => seq_rel (map (fun a => path_rel g a) l)
  | Alt l => alt_rel (map (fun a => path_rel g a) l)
  | Mul a m => mul_rel m (path_rel g a)
  | Neg l => neg_rel g l
  end.

(* What NegatedPath.eval computes when the set has inverse members (finding F4c,
   pinned by the module doctest of paths.py): a forward triple (x, p, y) is kept
   unless p is a forward member or (y, q, x) is in the graph for an inverse member ^q. *)
Definition neg_rel_impl (g : graph) (l : list negarg) (x y : term) : Prop :=
  exists p, In (x, p, y) g /\ ~ In p (neg_fw l) /\ forall q, In q (neg_iv l) -> ~ In (y, q, x) g.

(* the relation the code computes: [path_rel] with that reading of negated sets *)
Fixpoint impl_rel (g : graph) (p : path) {struct p} : term -> term -> Prop :=
  match p with
  | Iri q => fun x y => In (x, q, y) g
  | Inv a => fun x y => impl_rel g a y x
  | Seq l => seq_rel (map (fun a => impl_rel g a) l)
  | Alt l => alt_rel (map (fun a => impl_rel g a) l)
  | Mul a m => mul_rel m (impl_rel g a)
  | Neg l => neg_rel_impl g l
  end.

(* "restricted to the given start and/or end term"; with both ends unbound the
   pairs range over the nodes of the graph *)
Definition ends_ok (g : graph) (s o : option term) (x y : term) : Prop :=
  match s, o with
  | Some a, Some b => x = a /\ y = b
  | Some a, None => x = a
  | None, Some b => y = b
  | None, None => In x (nodes g) /\ In y (nodes g)
  end.

(* ------------------------------------------------------------------ *)
(* The same relation, computed: finite relations as lists of pairs over a
   universe U of terms (the graph's nodes and the bound ends); closure by
   Warshall's algorithm.  Independent of the evaluators above. *)

Definition idrel (U : list term) : list pr := map (fun v => (v, v)) U.

Definition compose (A B : list pr) : list pr :=
  flat_map (fun xz : pr =>
    map (fun zy : pr => (fst xz, snd zy)) (filter (fun zy : pr => N.eqb (snd xz) (fst zy)) B)) A.

Definition seq_set (U : list term) (l : list (list pr)) : list pr :=
  fold_right (fun A acc => dedup pr_eqb (compose A acc)) (idrel U) l.

Definition wstep (S : list pr) (k : term) : list pr :=
  let ins := map fst (filter (fun ab : pr => N.eqb (snd ab) k) S) in
  let outs := map snd (filter (fun ab : pr => N.eqb (fst ab) k) S) in
  dedup_acc pr_eqb S (list_prod ins outs).

Definition tclos (U : list term) (S : list pr) : list pr := fold_left wstep U S.

Definition mul_set (U : list term) (m : mulmod) (A : list pr) : list pr :=
  match m with
  | ZeroOrOne => idrel U ++ A
  | OneOrMore => tclos U A
  | ZeroOrMore => idrel U ++ tclos U A
  end.

Definition is_nil {A} (l : list A) : bool := match l with [] => true | _ => false end.

Definition neg_set (g : graph) (l : list negarg) : list pr :=
  let fw := neg_fw l in
  let iv := neg_iv l in
  (if is_nil iv || negb (is_nil fw)
   then map so_of (filter (fun t => negb (memb N.eqb (snd (fst t)) fw)) g) else [])
  ++ (if is_nil iv then []
      else map (fun t => swap (so_of t)) (filter (fun t => negb (memb N.eqb (snd (fst t)) iv)) g)).

Fixpoint rel_set (U : list term) (g : graph) (p : path) {struct p} : list pr :=
  match p with
  | Iri q => map so_of (filter (fun t => N.eqb (snd (fst t)) q) g)
  | Inv a => map swap (rel_set U g a)
  | Seq l => seq_set U (map (fun a => rel_set U g a) l)
  | Alt l => concat (map (fun a => rel_set U g a) l)
  | Mul a m => mul_set U m (rel_set U g a)
  | Neg l => neg_set g l
  end.

Definition olist (e : option term) : list term := match e with Some a => [a] | None => [] end.
Definition universe (g : graph) (s o : option term) : list term :=
  dedup N.eqb (olist s ++ olist o ++ nodes g).

Definition ends_okb (g : graph) (s o : option term) (xy : pr) : bool :=
  match s, o with
  | None, None => memb N.eqb (fst xy) (nodes g) && memb N.eqb (snd xy) (nodes g)
  | _, _ => end_ok s (fst xy) && end_ok o (snd xy)
  end.

Definition expected (g : graph) (p : path) (s o : option term) : list pr :=
  filter (ends_okb g s o) (rel_set (universe g s o) g p).

(* ------------------------------------------------------------------ *)
(* Cases, observations, checker, triggers *)

Record case := { c_g : graph; c_path : path; c_s : option term; c_o : option term;
                 c_sparql : bool (* posed as SPARQL text: goes through translatePath *) }.

Definition obs := res (list pr).

(* structure the checker and the theorems need *)
Fixpoint wfp (p : path) : bool :=
  match p with
  | Iri _ => true
  | Inv a => wfp a
  | Seq l => negb (is_nil l) && forallb (fun a => wfp a) l
  | Alt l => forallb (fun a => wfp a) l
  | Mul a _ => wfp a
  | Neg l => forallb (fun a => match a with NBad => false | _ => true end) l
  end.

Definition wf (c : case) : Prop := wfp (c_path c) = true.

(* a negated set with an inverse member somewhere *)
Fixpoint has_ninv (p : path) : bool :=
  match p with
  | Iri _ => false
  | Inv a => has_ninv a
  | Seq l | Alt l => existsb (fun a => has_ninv a) l
  | Mul a _ => has_ninv a
  | Neg l => negb (is_nil (neg_iv l))
  end.

Fixpoint has_empty_neg (p : path) : bool :=
  match p with
  | Iri _ => false
  | Inv a => has_empty_neg a
  | Seq l | Alt l => existsb (fun a => has_empty_neg a) l
  | Mul a _ => has_empty_neg a
  | Neg l => is_nil l
  end.

(* the result is a closure: MulPath at the top, possibly under inversions *)
Fixpoint closure_top (p : path) : bool :=
  match p with Mul _ _ => true | Inv a => closure_top a | _ => false end.

(* what translatePath does to the path (SPARQL route): ^iri inside a negated
   set stays an untranslated parser node; !() raises at translation time *)
Fixpoint xlate (p : path) : path :=
  match p with
  | Iri q => Iri q
  | Inv a => Inv (xlate a)
  | Seq l => Seq (map (fun a => xlate a) l)
  | Alt l => Alt (map (fun a => xlate a) l)
  | Mul a m => Mul (xlate a) m
  | Neg l => Neg (map (fun a => match a with NInv _ => NBad | x => x end) l)
  end.

Definition model_obs (c : case) : obs :=
  if c_sparql c then
    if has_empty_neg (c_path c) then Raised
    else eval (c_g c) (fuel (c_g c)) (xlate (c_path c)) (c_s c) (c_o c)
  else eval (c_g c) (fuel (c_g c)) (c_path c) (c_s c) (c_o c).

(* trigger numbers: 2 = F4c, 4 = F4e (1 = F4b and 3 = F4d are repaired) *)
Definition kf (c : case) : N :=
  if c_sparql c && (has_ninv (c_path c) || has_empty_neg (c_path c)) then 4
  else if has_ninv (c_path c) then 2
  else 0.

(* multiset equality of yields *)
Definition count (x : pr) (l : list pr) : nat := length (filter (pr_eqb x) l).
Definition bag_eqb (a b : list pr) : bool :=
  forallb (fun x => Nat.eqb (count x a) (count x b)) (a ++ b).

Definition obs_eqb (a b : obs) : bool :=
  match a, b with
  | Ok x, Ok y => bag_eqb x y
  | OutOfFuel, OutOfFuel => true
  | Raised, Raised => true
  | _, _ => false
  end.

(* the checker: the pairs are exactly the relation restricted to the ends, and a
   closure's answer has no duplicates *)
Definition spec_ok (c : case) (o : obs) : bool :=
  match o with
  | Ok l =>
      seteqb pr_eqb l (expected (c_g c) (c_path c) (c_s c) (c_o c))
      && (if closure_top (c_path c) then nodupb pr_eqb l else true)
  | _ => false
  end.

(* ------------------------------------------------------------------ *)
(* Histories on one Graph object: evaluations interleaved with additions and
   removals of triples.  Every evaluation is judged against the graph content
   at that moment (the answer must follow the data). *)
Inductive hstep :=
| HEval (p : path) (s o : option term) (sparql : bool)
| HAdd (t : triple)
| HDel (t : triple).

Record hcase := { h_g : graph; h_steps : list hstep }.

Definition g_add (t : triple) (g : graph) : graph := sadd triple_eqb t g.
Definition g_del (t : triple) (g : graph) : graph := filter (fun u => negb (triple_eqb t u)) g.

Definition hc (g : graph) (p : path) (s o : option term) (sp : bool) : case :=
  {| c_g := g; c_path := p; c_s := s; c_o := o; c_sparql := sp |}.

Fixpoint h_run (g : graph) (steps : list hstep) : list obs :=
  match steps with
  | [] => []
  | HEval p s o sp :: r => model_obs (hc g p s o sp) :: h_run g r
  | HAdd t :: r => h_run (g_add t g) r
  | HDel t :: r => h_run (g_del t g) r
  end.

Fixpoint h_spec (g : graph) (steps : list hstep) (os : list obs) : bool :=
  match steps with
  | [] => match os with [] => true | _ => false end
  | HEval p s o sp :: r =>
      match os with
      | [] => false
      | ob :: os' => spec_ok (hc g p s o sp) ob && h_spec g r os'
      end
  | HAdd t :: r => h_spec (g_add t g) r os
  | HDel t :: r => h_spec (g_del t g) r os
  end.

(* the first trigger that fires on an evaluation step *)
Fixpoint h_kf (g : graph) (steps : list hstep) : N :=
  match steps with
  | [] => 0
  | HEval p s o sp :: r => let k := kf (hc g p s o sp) in if N.eqb k 0 then h_kf g r else k
  | HAdd t :: r => h_kf (g_add t g) r
  | HDel t :: r => h_kf (g_del t g) r
  end.

Fixpoint h_wf (steps : list hstep) : bool :=
  match steps with
  | [] => true
  | HEval p _ _ _ :: r => wfp p && h_wf r
  | _ :: r => h_wf r
  end.

Definition hobs := list obs.
Definition hobs_eqb (a b : hobs) : bool := list_eqb obs_eqb a b.
Definition hmodel_obs (c : hcase) : hobs := h_run (h_g c) (h_steps c).
Definition hspec_ok (c : hcase) (os : hobs) : bool := h_spec (h_g c) (h_steps c) os.
Definition hkf (c : hcase) : N := h_kf (h_g c) (h_steps c).

(* ------------------------------------------------------------------ *)
(* evaluate.evalBGP on the single pattern  ?x path ?x : the pattern is evaluated with
   both ends unbound, ?x is bound to the start, and binding it again to the end
   raises AlreadyBound (solution skipped) unless the two are the same term *)
Definition diag (xy : pr) : bool := N.eqb (fst xy) (snd xy).
Definition model_obs_same (c : case) : obs := rmap (filter diag) (model_obs c).
Definition spec_ok_same (c : case) (o : obs) : bool :=
  match o with
  | Ok l => seteqb pr_eqb l (filter diag (expected (c_g c) (c_path c) None None))
  | _ => false
  end.
Definition wf_same (c : case) : Prop := wf c /\ c_s c = None /\ c_o c = None.

(* ------------------------------------------------------------------ *)
(* Long chains: n_0 -p-> n_1 -p-> ... -p-> n_k.  The searches of the code used to be
   recursive generators and raised RecursionError beyond ~1000 steps (finding F4f,
   repaired); the suite "deep_chain" runs closures over chains far longer than the
   interpreter's recursion limit and compares the NUMBER of answers with the
   model's (the same [eval]) and with the closed form. *)
Fixpoint chain_from (k : nat) (i : N) : graph :=
  match k with
  | O => []
  | S k' => (i, 3%N, N.succ i) :: chain_from k' (N.succ i)
  end.

Record dcase := { d_len : nat; d_mod : mulmod; d_s : bool; d_o : bool }.   (* which ends are bound (first / last node) *)
Definition dobs := res N.

Definition d_graph (c : dcase) : graph := chain_from (d_len c) 100%N.
Definition d_end (b : bool) (x : N) : option term := if b then Some x else None.

Definition dmodel_obs (c : dcase) : dobs :=
  let g := d_graph c in
  rmap (fun l => N.of_nat (length l))
       (eval g (fuel g) (Mul (Iri 3%N) (d_mod c)) (d_end (d_s c) 100%N) (d_end (d_o c) (100 + N.of_nat (d_len c))%N)).

(* closed form: pairs (n_i, n_j) of the chain related by p+ (i < j), p* (i <= j), p? (j - i <= 1) *)
Definition d_count (c : dcase) : N :=
  let k := N.of_nat (d_len c) in
  match d_mod c, d_s c, d_o c with
  | OneOrMore, true, true => if N.eqb k 0 then 0 else 1
  | OneOrMore, false, false => k * (k + 1) / 2
  | OneOrMore, _, _ => k
  | ZeroOrMore, true, true => 1
  | ZeroOrMore, false, false => (k + 1) * (k + 2) / 2
  | ZeroOrMore, _, _ => k + 1
  | ZeroOrOne, true, true => if N.leb k 1 then 1 else 0
  | ZeroOrOne, false, false => 2 * k + 1
  | ZeroOrOne, _, _ => if N.eqb k 0 then 1 else 2
  end.

Definition dobs_eqb (a b : dobs) : bool :=
  match a, b with
  | Ok x, Ok y => N.eqb x y
  | OutOfFuel, OutOfFuel | Raised, Raised => true
  | _, _ => false
  end.
Definition dspec_ok (c : dcase) (o : dobs) : bool :=
  match o with Ok x => N.eqb x (d_count c) | _ => false end.
