(* The computed relation [rel_set] of Paths/Model.v is the specification
   relation [path_rel] restricted to the universe; Warshall's closure is the
   transitive closure.  Independent of the evaluators. *)
From RV Require Import Paths.Model Paths.Basics.

(* ---------------------------------------------------------------- Warshall *)
Section W.
Variable R : rel.

(* paths whose intermediate nodes all lie in K *)
Inductive tcK (K : list term) : rel :=
| tcK_one x y : R x y -> tcK K x y
| tcK_mid x k y : In k K -> tcK K x k -> tcK K k y -> tcK K x y.

Lemma tcK_sound K x y : tcK K x y -> tc R x y.
Proof. induction 1; [constructor; auto|eapply tc_trans; eauto]. Qed.

Lemma tcK_mono K K' x y : incl K K' -> tcK K x y -> tcK K' x y.
Proof. intros H; induction 1; [constructor; auto|eapply tcK_mid; eauto]. Qed.

Lemma tc_tcK U x y : (forall a b, R a b -> In b U) -> tc R x y -> tcK U x y.
Proof.
  intros HU. induction 1 as [x y H|x z y H _ IH]; [constructor; auto|].
  eapply tcK_mid; [eapply HU; eauto|constructor; auto|auto].
Qed.

Lemma tcK_nil x y : tcK [] x y -> R x y.
Proof. induction 1; auto. contradiction. Qed.

Lemma tcK_split k K x y : tcK (k :: K) x y -> tcK K x y \/ (tcK K x k /\ tcK K k y).
Proof.
  induction 1 as [x y H|x m y Hm _ IH1 _ IH2]; [left; constructor; auto|].
  destruct Hm as [<-|Hm].
  - right. split.
    + destruct IH1 as [?|[? _]]; auto.
    + destruct IH2 as [?|[_ ?]]; auto.
  - destruct IH1 as [A1|[A1 A2]], IH2 as [B1|[B1 B2]].
    + left. eapply tcK_mid; eauto.
    + right. split; auto. eapply tcK_mid; eauto.
    + right. split; auto. eapply tcK_mid; eauto.
    + right. auto.
Qed.
End W.

Lemma wstep_In S k x y :
  In (x, y) (wstep S k) <-> In (x, y) S \/ (In (x, k) S /\ In (k, y) S).
Proof.
  unfold wstep. cbv zeta. rewrite (dedup_acc_In pr_eqb pr_eqb_spec). rewrite (in_prod_iff _ _ x y), !in_map_iff.
  split; (intros [H|H]; [left; auto|right]).
  - destruct H as [([a b] & Ha & Hab) ([c d] & Hd & Hcd)]. simpl in *. subst.
    rewrite filter_In in Hab, Hcd. simpl in *. rewrite N.eqb_eq in Hab, Hcd.
    destruct Hab as [? ->], Hcd as [? ->]. auto.
  - destruct H as [H1 H2]. split.
    + exists (x, k). split; auto. rewrite filter_In. simpl. rewrite N.eqb_refl. auto.
    + exists (k, y). split; auto. rewrite filter_In. simpl. rewrite N.eqb_refl. auto.
Qed.

Lemma tclos_inv (A : list pr) ks : forall K S,
  (forall x y, In (x, y) S <-> tcK (fun a b => In (a, b) A) K x y) ->
  forall x y, In (x, y) (fold_left wstep ks S) <-> tcK (fun a b => In (a, b) A) (rev ks ++ K) x y.
Proof.
  induction ks as [|k ks IH]; intros K S HS x y; [simpl; auto|].
  simpl fold_left. rewrite (IH (k :: K) (wstep S k)).
  - simpl rev. rewrite <- app_assoc. simpl. tauto.
  - clear x y. intros x y. rewrite wstep_In, !HS. split.
    + intros [H|[H1 H2]].
      * eapply tcK_mono; [|eauto]. intros v; simpl; auto.
      * eapply tcK_mid; [left; reflexivity| |]; (eapply tcK_mono; [|eauto]; intros v; simpl; auto).
    + apply tcK_split.
Qed.

Lemma tclos_spec U A : (forall a b, In (a, b) A -> In b U) ->
  forall x y, In (x, y) (tclos U A) <-> tc (fun a b => In (a, b) A) x y.
Proof.
  intros HU x y. unfold tclos. rewrite (tclos_inv A U [] A).
  - rewrite app_nil_r. split; [apply tcK_sound|].
    intros H. eapply tcK_mono; [|apply (tc_tcK _ U); eauto].
    intros v Hv. apply in_rev in Hv. auto.
  - intros a b. split; [constructor; auto|apply tcK_nil].
Qed.

(* ---------------------------------------------------------------- rel_set *)
Section RS.
Variable g : graph.
Variable U : list term.
Hypothesis HU : incl (nodes g) U.

(* the list S is the relation R cut down to the universe *)
Definition RS (S : list pr) (R : rel) : Prop :=
  forall x y, In (x, y) S <-> R x y /\ In x U /\ In y U.

Lemma RN_U R x y : RN g R -> R x y -> In x U -> In y U.
Proof. intros H Hxy Hx. destruct (H _ _ Hxy) as [<-|[_ ?]]; auto. Qed.

Lemma RN_U' R x y : RN g R -> R x y -> In y U -> In x U.
Proof. intros H Hxy Hy. destruct (H _ _ Hxy) as [->|[? _]]; auto. Qed.

Lemma compose_In A B x y :
  In (x, y) (compose A B) <-> exists z, In (x, z) A /\ In (z, y) B.
Proof.
  unfold compose. rewrite in_flat_map. split.
  - intros ([a z] & Ha & Hin). rewrite in_map_iff in Hin. destruct Hin as ([z' b] & Heq & Hb).
    rewrite filter_In in Hb. simpl in *. destruct Hb as [Hb Hz]. apply N.eqb_eq in Hz.
    injection Heq as <- <-. subst. eauto.
  - intros (z & Ha & Hb). exists (x, z). split; auto. rewrite in_map_iff.
    exists (z, y). split; auto. rewrite filter_In. simpl. rewrite N.eqb_refl. auto.
Qed.

Lemma idrel_In x y : In (x, y) (idrel U) <-> x = y /\ In x U.
Proof.
  unfold idrel. rewrite in_map_iff. split.
  - intros (v & Heq & Hv). injection Heq as <- <-. auto.
  - intros [<- Hx]. eauto.
Qed.

Lemma seq_set_RS (Ss : list (list pr)) (Rs : list rel) :
  Forall2 RS Ss Rs -> Forall (RN g) Rs -> RS (seq_set U Ss) (seq_rel Rs).
Proof.
  induction 1 as [|S R Ss Rs HSR _ IH]; intros HRN x y.
  - simpl. rewrite idrel_In. intuition (subst; auto).
  - inversion HRN as [|? ? HR HRs]; subst. simpl seq_set. rewrite deduppr_In, compose_In. simpl. split.
    + intros (z & H1 & H2). apply HSR in H1. apply (IH HRs) in H2. intuition eauto.
    + intros [(z & H1 & H2) [Hx Hy]]. exists z.
      assert (Hz : In z U) by (eapply RN_U; eauto).
      split; [apply HSR; auto|apply (IH HRs); auto].
Qed.

Lemma alt_set_RS (Ss : list (list pr)) (Rs : list rel) :
  Forall2 RS Ss Rs -> RS (concat Ss) (alt_rel Rs).
Proof.
  induction 1 as [|S R Ss Rs HSR _ IH]; intros x y; simpl.
  - split; [intros []|intros [(R & [] & _) _]].
  - rewrite in_app_iff, (HSR x y), (IH x y). unfold alt_rel. simpl. split.
    + intros [[? ?]|[(R' & ? & ?) ?]]; split; eauto.
    + intros [(R' & [<-|?] & ?) ?]; [left; auto|right; split; eauto].
Qed.

Lemma tclos_RS S R : RN g R -> RS S R -> RS (tclos U S) (tc R).
Proof.
  intros HRN HS x y. rewrite tclos_spec by (intros a b H; apply HS in H; tauto). split.
  - intros H. induction H as [x y H|x z y H _ IH].
    + apply HS in H. destruct H as (? & ? & ?). split; [constructor; auto|auto].
    + apply HS in H. destruct H as (? & ? & ?). destruct IH as (? & ? & ?).
      split; [eapply tc_step; eauto|auto].
  - intros (H & Hx & Hy). induction H as [x y H|x z y H _ IH].
    + constructor. apply HS. auto.
    + assert (Hz : In z U) by (eapply RN_U; eauto).
      eapply tc_step; [apply HS; eauto|auto].
Qed.

Lemma mul_set_RS m S R : RN g R -> RS S R -> RS (mul_set U m S) (mul_rel m R).
Proof.
  intros HRN HS x y. destruct m; simpl.
  - rewrite in_app_iff, idrel_In, (tclos_RS S R HRN HS x y). intuition (subst; auto).
  - apply tclos_RS; auto.
  - rewrite in_app_iff, idrel_In, (HS x y). intuition (subst; auto).
Qed.

Lemma is_nil_true {A} (l : list A) : is_nil l = true <-> l = [].
Proof. destruct l; simpl; split; congruence. Qed.

Lemma neg_set_RS l : RS (neg_set g l) (neg_rel g l).
Proof.
  intros x y. unfold neg_set, neg_rel. rewrite in_app_iff.
  assert (H1 : forall S, In (x, y) (map so_of (filter (fun t => negb (memb N.eqb (snd (fst t)) S)) g))
                         <-> exists p, In (x, p, y) g /\ ~ In p S).
  { intros S. rewrite in_map_iff. split.
    - intros ([[a p] b] & Heq & Hin). simpl in Heq. injection Heq as -> ->.
      rewrite filter_In in Hin. simpl in Hin. rewrite negb_true_iff, membN_false in Hin.
      exists p. tauto.
    - intros (p & Hin & Hn). exists (x, p, y). split; auto. rewrite filter_In. simpl.
      rewrite negb_true_iff, membN_false. auto. }
  assert (H2 : forall S, In (x, y) (map (fun t => swap (so_of t)) (filter (fun t => negb (memb N.eqb (snd (fst t)) S)) g))
                         <-> exists p, In (y, p, x) g /\ ~ In p S).
  { intros S. rewrite in_map_iff. split.
    - intros ([[a p] b] & Heq & Hin). unfold swap in Heq. simpl in Heq. injection Heq as -> ->.
      rewrite filter_In in Hin. simpl in Hin. rewrite negb_true_iff, membN_false in Hin.
      exists p. tauto.
    - intros (p & Hin & Hn). exists (y, p, x). split; auto. rewrite filter_In. simpl.
      rewrite negb_true_iff, membN_false. auto. }
  assert (HUx : forall p, In (x, p, y) g -> In x U /\ In y U).
  { intros p Hp. apply in_graph_nodes in Hp. destruct Hp; auto. }
  assert (HUy : forall p, In (y, p, x) g -> In x U /\ In y U).
  { intros p Hp. apply in_graph_nodes in Hp. destruct Hp; auto. }
  destruct (neg_iv l) as [|q iv] eqn:Eiv; simpl is_nil; cbn [orb negb].
  - rewrite H1. split.
    + intros [(p & Hp & Hn)|[]]. split; [|eauto]. left. split; eauto.
    + intros [[[_ (p & Hp & Hn)]|[Hf _]] _]; [left; eauto|congruence].
  - rewrite H2. destruct (neg_fw l) as [|q' fw] eqn:Efw; simpl is_nil; cbn [negb].
    + split.
      * intros [[]|(p & Hp & Hn)]. split; [|eauto]. right. split; [discriminate|eauto].
      * intros [[[[Hf|Hf] _]|[_ (p & Hp & Hn)]] _]; try congruence. right. eauto.
    + rewrite H1. split.
      * intros [(p & Hp & Hn)|(p & Hp & Hn)]; (split; [|eauto]).
        -- left. split; [right; discriminate|eauto].
        -- right. split; [discriminate|eauto].
      * intros [[[_ (p & Hp & Hn)]|[_ (p & Hp & Hn)]] _]; [left|right]; eauto.
Qed.

Lemma rel_set_RS p : RS (rel_set U g p) (path_rel g p).
Proof.
  induction p as [q|a IH|l IH|l IH|a m IH|l] using path_ind2; simpl.
  - intros x y. rewrite in_map_iff. split.
    + intros ([[a p] b] & Heq & Hin). simpl in Heq. injection Heq as -> ->.
      rewrite filter_In in Hin. simpl in Hin. destruct Hin as [Hin Hq]. apply N.eqb_eq in Hq. subst p.
      pose proof (in_graph_nodes _ _ _ _ Hin) as [? ?]. auto.
    + intros (Hin & _). exists (x, q, y). split; auto. rewrite filter_In. simpl. rewrite N.eqb_refl. auto.
  - intros x y. rewrite in_map_iff. split.
    + intros ([a0 b0] & Heq & Hin). unfold swap in Heq. simpl in Heq. injection Heq as <- <-.
      apply IH in Hin. tauto.
    + intros (H & Hx & Hy). exists (y, x). split; auto. apply IH. auto.
  - apply seq_set_RS.
    + induction IH; simpl; constructor; auto.
    + rewrite Forall_map. apply Forall_forall. intros; apply path_rel_RN.
  - apply alt_set_RS. induction IH; simpl; constructor; auto.
  - apply mul_set_RS; auto. apply path_rel_RN.
  - apply neg_set_RS.
Qed.

End RS.

(* ---------------------------------------------------------------- expected *)
Lemma universe_In g s o v : In v (universe g s o) <-> s = Some v \/ o = Some v \/ In v (nodes g).
Proof.
  unfold universe. rewrite dedupN_In, !in_app_iff. destruct s, o; simpl; intuition congruence.
Qed.

Lemma ends_okb_spec g s o x y : ends_okb g s o (x, y) = true <-> ends_ok g s o x y.
Proof.
  unfold ends_okb. destruct s, o; simpl; rewrite ?andb_true_iff, ?N.eqb_eq, ?membN_In; tauto.
Qed.

Lemma expected_spec g p s o x y :
  In (x, y) (expected g p s o) <-> path_rel g p x y /\ ends_ok g s o x y.
Proof.
  unfold expected. rewrite filter_In, ends_okb_spec.
  assert (HU : incl (nodes g) (universe g s o)) by (intros v Hv; apply universe_In; auto).
  rewrite (rel_set_RS g (universe g s o) HU p x y). split; [tauto|]. intros [Hr He]. split; auto. split; auto.
  rewrite !universe_In.
  destruct (path_rel_RN _ _ _ _ Hr) as [<-|[Hx Hy]]; [|auto].
  destruct s, o; simpl in He; intuition (subst; auto).
Qed.
