(* Order independence: the multiset of yields of a path evaluation does not
   depend on the order in which the store enumerates the matches of a triple
   pattern.  The evaluators are parametrised by an enumeration function
   (Paths/Model.v, [enum]); for any two enumerations that are permutations of the
   matching triples the answers are permutations of each other.  This is what
   justifies comparing observations as multisets without modelling the Memory
   store's index order. *)
From Coq Require Import Permutation PeanoNat.
From RV Require Import Paths.Model Paths.Basics Paths.Eval Paths.Main.

Definition enum_perm_ok (g : graph) (En : enum) : Prop :=
  forall pt, Permutation (En pt) (triples_of g pt).

Lemma enum_perm_set g En : enum_perm_ok g En -> enum_set_ok g En.
Proof.
  intros H pt t. unfold triples_of in H. rewrite <- filter_In. split; intros Hin.
  - eapply Permutation_in; [apply H|auto].
  - eapply Permutation_in; [apply Permutation_sym, H|auto].
Qed.

(* two evaluators that agree up to the order of their yields *)
Definition peq (f1 f2 : ev) : Prop :=
  forall s o, exists l1 l2, f1 s o = Ok l1 /\ f2 s o = Ok l2 /\ Permutation l1 l2.

Definition get {A} (r : res (list A)) : list A := match r with Ok a => a | _ => [] end.

Lemma rconcat_flat {A B} (h : B -> res (list A)) xs :
  (forall x, In x xs -> exists a, h x = Ok a) ->
  rconcat (map h xs) = Ok (flat_map (fun x => get (h x)) xs).
Proof.
  induction xs as [|x xs IH]; intros H; [reflexivity|].
  destruct (H x (or_introl eq_refl)) as [a Ha]. simpl. rewrite Ha, IH; [reflexivity|].
  intros z Hz. apply H. now right.
Qed.

Lemma flat_map_perm_pointwise {A B} (k1 k2 : A -> list B) xs :
  (forall x, In x xs -> Permutation (k1 x) (k2 x)) ->
  Permutation (flat_map k1 xs) (flat_map k2 xs).
Proof.
  induction xs as [|x xs IH]; intros H; simpl; [constructor|].
  apply Permutation_app; [apply H; simpl; auto|apply IH; intros; apply H; simpl; auto].
Qed.

Lemma rconcat_perm {A B} (h1 h2 : B -> res (list A)) xs1 xs2 :
  Permutation xs1 xs2 ->
  (forall x, In x xs1 -> exists a1 a2, h1 x = Ok a1 /\ h2 x = Ok a2 /\ Permutation a1 a2) ->
  exists r1 r2, rconcat (map h1 xs1) = Ok r1 /\ rconcat (map h2 xs2) = Ok r2 /\ Permutation r1 r2.
Proof.
  intros Hp H.
  exists (flat_map (fun x => get (h1 x)) xs1), (flat_map (fun x => get (h2 x)) xs2).
  split; [|split].
  - apply rconcat_flat. intros x Hx. destruct (H x Hx) as (a1 & _ & ? & _). eauto.
  - apply rconcat_flat. intros x Hx. destruct (H x) as (_ & a2 & _ & ? & _); eauto.
    eapply Permutation_in; [apply Permutation_sym, Hp|auto].
  - eapply Permutation_trans; [|apply Permutation_flat_map, Hp].
    apply flat_map_perm_pointwise. intros x Hx. destruct (H x Hx) as (a1 & a2 & H1 & H2 & Hperm).
    rewrite H1, H2. exact Hperm.
Qed.

Lemma peq_inv f1 f2 : peq f1 f2 -> peq (ev_inv f1) (ev_inv f2).
Proof.
  intros H s o. destruct (H o s) as (l1 & l2 & H1 & H2 & Hp).
  exists (map swap l1), (map swap l2). unfold ev_inv. rewrite H1, H2.
  repeat split; auto. apply Permutation_map; auto.
Qed.

Section Lists.
Variables F1 F2 : path -> ev.

Lemma peq_alt l : Forall (fun a => peq (F1 a) (F2 a)) l -> peq (ev_alt (map F1 l)) (ev_alt (map F2 l)).
Proof.
  intros H s o. unfold ev_alt. rewrite !map_map. rewrite Forall_forall in H.
  apply rconcat_perm; [apply Permutation_refl|]. intros a Ha. apply (H a Ha).
Qed.

Lemma peq_seq_fw l : l <> [] -> Forall (fun a => peq (F1 a) (F2 a)) l ->
  peq (seq_fw (map F1 l)) (seq_fw (map F2 l)).
Proof.
  induction l as [|p l IH]; [congruence|]. intros _ H s o. inversion H as [|? ? Hp Hl]; subst.
  destruct l as [|p2 l'].
  - simpl. apply Hp.
  - remember (p2 :: l') as rest eqn:Hrest. assert (Hne : rest <> []) by (subst; congruence).
    simpl map. rewrite !seq_fw_cons by (destruct rest; simpl; congruence).
    destruct (Hp s None) as (xs1 & xs2 & H1 & H2 & Hperm). rewrite H1, H2. cbn [bind].
    apply rconcat_perm; auto. intros xz _.
    destruct (IH Hne Hl (Some (snd xz)) o) as (a1 & a2 & Ha1 & Ha2 & Hpa).
    rewrite Ha1, Ha2. cbn [rmap bind]. do 2 eexists. repeat split. apply Permutation_map; auto.
Qed.

Lemma peq_seq_bwr l : l <> [] -> Forall (fun a => peq (F1 a) (F2 a)) l ->
  peq (seq_bwr (map F1 l)) (seq_bwr (map F2 l)).
Proof.
  induction l as [|p l IH]; [congruence|]. intros _ H s o. inversion H as [|? ? Hp Hl]; subst.
  destruct l as [|p2 l'].
  - simpl. apply Hp.
  - remember (p2 :: l') as rest eqn:Hrest. assert (Hne : rest <> []) by (subst; congruence).
    simpl map. rewrite !seq_bwr_cons by (destruct rest; simpl; congruence).
    destruct (Hp None o) as (xs1 & xs2 & H1 & H2 & Hperm). rewrite H1, H2. cbn [bind].
    apply rconcat_perm; auto. intros sz _.
    destruct (IH Hne Hl s (Some (fst sz))) as (a1 & a2 & Ha1 & Ha2 & Hpa).
    rewrite Ha1, Ha2. cbn [rmap bind]. do 2 eexists. repeat split. apply Permutation_map; auto.
Qed.

Lemma peq_seq l : l <> [] -> Forall (fun a => peq (F1 a) (F2 a)) l ->
  peq (ev_seq (map F1 l)) (ev_seq (map F2 l)).
Proof.
  intros Hne H s o. unfold ev_seq. destruct s as [a|]; [|destruct o as [b|]].
  - apply peq_seq_fw; auto.
  - unfold seq_bw. rewrite <- !map_rev. apply peq_seq_bwr.
    + intros Hr. apply Hne. rewrite <- (rev_involutive l), Hr. reflexivity.
    + apply Forall_rev; auto.
  - apply peq_seq_fw; auto.
Qed.
End Lists.

Section O.
Variable g : graph.
Variables E1 E2 : enum.
Hypothesis H1 : enum_perm_ok g E1.
Hypothesis H2 : enum_perm_ok g E2.
Variable n : nat.
Hypothesis Hn : fuel g <= n.

Lemma enum_perm12 pt : Permutation (E1 pt) (E2 pt).
Proof. eapply Permutation_trans; [apply H1|apply Permutation_sym, H2]. Qed.

(* The multiset of yields is the same for both enumerations.  Closures are settled
   by their set: both answers are duplicate-free and have the same elements. *)
Theorem order_invariant p : wfp p = true -> peq (evalE E1 g n p) (evalE E2 g n p).
Proof.
  induction p as [q|a IH|l IH|l IH|a m IH|l] using path_ind2; intros Hw.
  - intros s o. do 2 eexists. repeat split. apply Permutation_map, enum_perm12.
  - simpl. apply peq_inv. apply IH; auto.
  - simpl in Hw. rewrite andb_true_iff, negb_true_iff, forallb_forall in Hw. destruct Hw as [Hne Hw].
    simpl. apply peq_seq.
    + destruct l; [discriminate|congruence].
    + rewrite Forall_forall in IH |- *. intros a Ha. apply IH; auto.
  - simpl in Hw. rewrite forallb_forall in Hw. simpl. apply peq_alt.
    rewrite Forall_forall in IH |- *. intros a Ha. apply IH; auto.
  - clear IH. intros s o.
    destruct (evalE_spec g E1 (enum_perm_set g E1 H1) n Hn (Mul a m) Hw s o) as (l1 & Hl1 & Hin1).
    destruct (evalE_spec g E2 (enum_perm_set g E2 H2) n Hn (Mul a m) Hw s o) as (l2 & Hl2 & Hin2).
    exists l1, l2. repeat split; auto. apply NoDup_Permutation.
    + eapply dup_freeE; [|eauto]; reflexivity.
    + eapply dup_freeE; [|eauto]; reflexivity.
    + intros [x y]. rewrite Hin1, Hin2. tauto.
  - intros s o. cbn [evalE]. unfold ev_neg.
    apply rconcat_perm; [apply enum_perm12|]. intros [[x p] y] _.
    rewrite (neg_keep_val g l (neg_nobad_of l Hw)). cbn [rmap bind]. do 2 eexists. repeat split. apply Permutation_refl.
Qed.

End O.

(* in particular against the model's own enumeration, i.e. against [eval] *)
Corollary order_invariant_eval g En p s o :
  enum_perm_ok g En -> wfp p = true ->
  exists l1 l2, evalE En g (fuel g) p s o = Ok l1 /\ eval g (fuel g) p s o = Ok l2 /\ Permutation l1 l2.
Proof.
  intros HE Hw. apply (order_invariant g En (std_enum g) HE); auto.
  intros pt. apply Permutation_refl.
Qed.

(* [bag_eqb], the comparison used for observations, is permutation *)
Lemma count_perm x l1 l2 : Permutation l1 l2 -> count x l1 = count x l2.
Proof.
  unfold count. induction 1; simpl; auto.
  - destruct (pr_eqb x x0); simpl; auto.
  - destruct (pr_eqb x y), (pr_eqb x x0); simpl; auto.
  - congruence.
Qed.

Lemma bag_eqb_perm l1 l2 : Permutation l1 l2 -> bag_eqb l1 l2 = true.
Proof.
  intros H. unfold bag_eqb. apply forallb_forall. intros x _. apply Nat.eqb_eq, count_perm, H.
Qed.
