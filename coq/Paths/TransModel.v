(* Model of the SPARQL route's front end for property paths: the tree that
   parser.py builds for the Path grammar (rules [88]-[96]) and what
   algebra.translatePath (applied bottom-up by traverse(..., visitPost=...)) turns
   it into - rdflib Path objects, including the flattening done by the
   SequencePath / AlternativePath constructors.  No proofs in this file. *)
From RV Require Export Paths.Model.

(* parse tree: CompValue nodes of the Path grammar *)
Inductive ptree :=
| TIri (q : term)                          (* iri *)
| TNeg (l : list negarg)                   (* PathNegatedPropertySet, members iri / ^iri *)
| TAlt (l : list ptree)                    (* PathAlternative: parts separated by '|' (also a parenthesised Path) *)
| TSeq (l : list ptree)                    (* PathSequence: parts separated by '/' *)
| TElt (a : ptree) (m : option mulmod)     (* PathElt: primary with optional modifier *)
| TInvElt (a : ptree).                     (* PathEltOrInverse: '^' PathElt *)

Definition rmapM {A B} (f : A -> res B) : list A -> res (list B) :=
  fix go (l : list A) : res (list B) :=
    match l with
    | [] => Ok []
    | x :: r => bind (f x) (fun y => bind (go r) (fun ys => Ok (y :: ys)))
    end.

(* SequencePath and AlternativePath constructors: arguments of the same class are spliced in *)
Definition mk_seq (l : list path) : path :=
  Seq (flat_map (fun a => match a with Seq l' => l' | _ => [a] end) l).
Definition mk_alt (l : list path) : path :=
  Alt (flat_map (fun a => match a with Alt l' => l' | _ => [a] end) l).

(* translatePath, bottom-up *)
Fixpoint translate (t : ptree) {struct t} : res path :=
  match t with
  | TIri q => Ok (Iri q)
  | TNeg l =>
      (* no part: NegatedPath(None) raises; a ^iri member stays an untranslated parser node *)
      if is_nil l then Raised
      else Ok (Neg (map (fun a => match a with NInv _ => NBad | x => x end) l))
  | TAlt l =>
      bind (rmapM (fun a => translate a) l) (fun ps =>
        match ps with [p] => Ok p | _ => Ok (mk_alt ps) end)
  | TSeq l =>
      bind (rmapM (fun a => translate a) l) (fun ps =>
        match ps with [p] => Ok p | _ => Ok (mk_seq ps) end)
  | TElt a None => translate a
  | TElt a (Some m) => rmap (fun p => Mul p m) (translate a)
  | TInvElt a => rmap Inv (translate a)
  end.

(* ------------------------------------------------------------------ *)
(* SPARQL 1.1 section 18.2.2.3 / 18.4 read directly on the syntax tree *)
Fixpoint tree_rel (g : graph) (t : ptree) {struct t} : term -> term -> Prop :=
  match t with
  | TIri q => fun x y => In (x, q, y) g
  | TNeg l => neg_rel g l
  | TAlt l => alt_rel (map (fun a => tree_rel g a) l)
  | TSeq l => seq_rel (map (fun a => tree_rel g a) l)
  | TElt a None => tree_rel g a
  | TElt a (Some m) => mul_rel m (tree_rel g a)
  | TInvElt a => fun x y => tree_rel g a y x
  end.

(* the same reading as a path, node by node (no collapsing, no splicing): used to
   compute [tree_rel] with [rel_set] *)
Fixpoint canon (t : ptree) {struct t} : path :=
  match t with
  | TIri q => Iri q
  | TNeg l => Neg l
  | TAlt l => Alt (map (fun a => canon a) l)
  | TSeq l => Seq (map (fun a => canon a) l)
  | TElt a None => canon a
  | TElt a (Some m) => Mul (canon a) m
  | TInvElt a => Inv (canon a)
  end.

(* grammar: every PathAlternative / PathSequence has at least one part *)
Fixpoint twf (t : ptree) : bool :=
  match t with
  | TIri _ => true
  | TNeg l => forallb (fun a => match a with NBad => false | _ => true end) l
  | TAlt l | TSeq l => negb (is_nil l) && forallb (fun a => twf a) l
  | TElt a _ | TInvElt a => twf a
  end.

(* F4e: a negated set that is empty or has an inverse member *)
Fixpoint t_f4e (t : ptree) : bool :=
  match t with
  | TIri _ => false
  | TNeg l => is_nil l || negb (is_nil (neg_iv l))
  | TAlt l | TSeq l => existsb (fun a => t_f4e a) l
  | TElt a _ | TInvElt a => t_f4e a
  end.

(* structural equality of path objects *)
Definition negarg_eqb (a b : negarg) : bool :=
  match a, b with
  | NIri p, NIri q | NInv p, NInv q => N.eqb p q
  | NBad, NBad => true
  | _, _ => false
  end.
Definition mulmod_eqb (a b : mulmod) : bool :=
  match a, b with
  | ZeroOrMore, ZeroOrMore | OneOrMore, OneOrMore | ZeroOrOne, ZeroOrOne => true
  | _, _ => false
  end.

Fixpoint path_eqb (a b : path) {struct a} : bool :=
  match a, b with
  | Iri p, Iri q => N.eqb p q
  | Inv x, Inv y => path_eqb x y
  | Seq l, Seq m =>
      (fix go (l m : list path) : bool :=
         match l, m with
         | [], [] => true
         | x :: l', y :: m' => path_eqb x y && go l' m'
         | _, _ => false
         end) l m
  | Alt l, Alt m =>
      (fix go (l m : list path) : bool :=
         match l, m with
         | [], [] => true
         | x :: l', y :: m' => path_eqb x y && go l' m'
         | _, _ => false
         end) l m
  | Mul x m1, Mul y m2 => path_eqb x y && mulmod_eqb m1 m2
  | Neg l, Neg m => list_eqb negarg_eqb l m
  | _, _ => false
  end.

(* ------------------------------------------------------------------ *)
(* entry points of the correspondence suite *)
Record tcase := { t_g : graph; t_tree : ptree }.
Definition tobs := res path.

Definition tmodel_obs (c : tcase) : tobs := translate (t_tree c).

Definition tobs_eqb (a b : tobs) : bool :=
  match a, b with
  | Ok p, Ok q => path_eqb p q
  | Raised, Raised => true
  | OutOfFuel, OutOfFuel => true
  | _, _ => false
  end.

(* the object is a well-formed path without untranslated members, and over the
   case's graph it denotes the relation of the syntax tree *)
Definition tspec_ok (c : tcase) (o : tobs) : bool :=
  match o with
  | Ok p =>
      wfp p && negb (has_ninv p)
      && seteqb pr_eqb (rel_set (dedup N.eqb (nodes (t_g c))) (t_g c) p)
                       (rel_set (dedup N.eqb (nodes (t_g c))) (t_g c) (canon (t_tree c)))
  | _ => false
  end.

Definition tkf (c : tcase) : N := if t_f4e (t_tree c) then 4 else 0.
