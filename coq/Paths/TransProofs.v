(* translatePath builds a path that denotes the SPARQL 18.4 relation of the syntax
   tree (outside finding F4e), and the whole SPARQL route - translate, then
   evaluate - is sound and complete for the syntax tree's relation. *)
From RV Require Import Paths.Model Paths.Basics Paths.Eval Paths.Spec Paths.Main Paths.TransModel.

Section PtreeInd.
  Variable P : ptree -> Prop.
  Hypothesis HIri : forall q, P (TIri q).
  Hypothesis HNeg : forall l, P (TNeg l).
  Hypothesis HAlt : forall l, Forall P l -> P (TAlt l).
  Hypothesis HSeq : forall l, Forall P l -> P (TSeq l).
  Hypothesis HElt : forall a m, P a -> P (TElt a m).
  Hypothesis HInv : forall a, P a -> P (TInvElt a).

  Fixpoint ptree_ind2 (t : ptree) : P t :=
    match t with
    | TIri q => HIri q
    | TNeg l => HNeg l
    | TAlt l => HAlt l ((fix go (l : list ptree) : Forall P l :=
                          match l with
                          | [] => @Forall_nil _ P
                          | a :: r => @Forall_cons _ P a r (ptree_ind2 a) (go r)
                          end) l)
    | TSeq l => HSeq l ((fix go (l : list ptree) : Forall P l :=
                          match l with
                          | [] => @Forall_nil _ P
                          | a :: r => @Forall_cons _ P a r (ptree_ind2 a) (go r)
                          end) l)
    | TElt a m => HElt a m (ptree_ind2 a)
    | TInvElt a => HInv a (ptree_ind2 a)
    end.
End PtreeInd.

Lemma rmapM_cons {A B} (f : A -> res B) x r :
  rmapM f (x :: r) = bind (f x) (fun y => bind (rmapM f r) (fun ys => Ok (y :: ys))).
Proof. reflexivity. Qed.

Definition PR (g : graph) : path -> rel := fun a => path_rel g a.
Definition fl_seq (a : path) : list path := match a with Seq l' => l' | _ => [a] end.
Definition fl_alt (a : path) : list path := match a with Alt l' => l' | _ => [a] end.

(* splicing nested sequences / alternatives does not change the relation *)
Lemma mk_seq_rel g ps : req (path_rel g (mk_seq ps)) (seq_rel (map (PR g) ps)).
Proof.
  unfold mk_seq. cbn [path_rel]. fold (PR g). fold fl_seq.
  induction ps as [|a r IH]; intros x y; [simpl; tauto|].
  cbn [flat_map]. rewrite map_app, seq_rel_app. cbn [map seq_rel].
  assert (Ha : forall z, seq_rel (map (PR g) (fl_seq a)) x z <-> PR g a x z).
  { intros z. destruct a; try apply seq_rel_one. unfold PR. simpl. tauto. }
  split; intros (z & H1 & H2); exists z; (split; [apply Ha; auto|apply IH; auto]).
Qed.

Lemma mk_alt_rel g ps : req (path_rel g (mk_alt ps)) (alt_rel (map (PR g) ps)).
Proof.
  unfold mk_alt. cbn [path_rel]. fold (PR g). fold fl_alt. intros x y. unfold alt_rel. split.
  - intros (R & HR & Hxy). rewrite in_map_iff in HR. destruct HR as (b & <- & Hb).
    rewrite in_flat_map in Hb. destruct Hb as (a & Ha & Hb).
    exists (PR g a). split; [apply in_map; auto|].
    destruct a; simpl in Hb; try (destruct Hb as [<-|[]]; exact Hxy).
    unfold PR. simpl. exists (PR g b). split; [apply in_map; auto|exact Hxy].
  - intros (R & HR & Hxy). rewrite in_map_iff in HR. destruct HR as (a & <- & Ha).
    assert (Hcase : (exists l', a = Alt l') \/ fl_alt a = [a]) by (destruct a; simpl; eauto).
    destruct Hcase as [(l' & ->)|Hone].
    + unfold PR in Hxy. simpl in Hxy. destruct Hxy as (R & HR & Hxy).
      rewrite in_map_iff in HR. destruct HR as (b & <- & Hb).
      exists (PR g b). split; auto. apply in_map. rewrite in_flat_map. exists (Alt l'). auto.
    + exists (PR g a). split; auto. apply in_map. rewrite in_flat_map. exists a. rewrite Hone. simpl; auto.
Qed.

Lemma mk_seq_wf ps : ps <> [] -> Forall (fun p => wfp p = true /\ has_ninv p = false) ps ->
  wfp (mk_seq ps) = true /\ has_ninv (mk_seq ps) = false.
Proof.
  intros Hne H. unfold mk_seq. cbn [wfp has_ninv]. fold fl_seq.
  assert (Hall : forall b, In b (flat_map fl_seq ps) -> wfp b = true /\ has_ninv b = false).
  { intros b Hb. rewrite in_flat_map in Hb. destruct Hb as (a & Ha & Hb).
    rewrite Forall_forall in H. destruct (H a Ha) as [Hw Hi].
    destruct a; simpl in Hb; try (destruct Hb as [<-|[]]; auto).
    simpl in Hw, Hi. rewrite andb_true_iff, forallb_forall in Hw. rewrite existsb_false_iff in Hi.
    split; [apply Hw; auto|apply Hi; auto]. }
  split.
  - apply andb_true_iff. split.
    + destruct ps as [|a r]; [congruence|]. inversion H as [|? ? [Hw _] _]; subst.
      cbn [flat_map]. destruct a; simpl; auto. simpl in Hw. destruct l; simpl in *; auto; discriminate.
    + apply forallb_forall. intros b Hb. apply Hall; auto.
  - apply existsb_false_iff. intros b Hb. apply Hall; auto.
Qed.

Lemma mk_alt_wf ps : Forall (fun p => wfp p = true /\ has_ninv p = false) ps ->
  wfp (mk_alt ps) = true /\ has_ninv (mk_alt ps) = false.
Proof.
  intros H. unfold mk_alt. cbn [wfp has_ninv]. fold fl_alt.
  assert (Hall : forall b, In b (flat_map fl_alt ps) -> wfp b = true /\ has_ninv b = false).
  { intros b Hb. rewrite in_flat_map in Hb. destruct Hb as (a & Ha & Hb).
    rewrite Forall_forall in H. destruct (H a Ha) as [Hw Hi].
    destruct a; simpl in Hb; try (destruct Hb as [<-|[]]; auto).
    simpl in Hw, Hi. rewrite forallb_forall in Hw. rewrite existsb_false_iff in Hi.
    split; [apply Hw; auto|apply Hi; auto]. }
  split.
  - apply forallb_forall. intros b Hb. apply Hall; auto.
  - apply existsb_false_iff. intros b Hb. apply Hall; auto.
Qed.

Section T.
Variable g : graph.

Definition good_tr (t : ptree) (p : path) : Prop :=
  wfp p = true /\ has_ninv p = false /\ req (path_rel g p) (tree_rel g t).

Definition Pt (t : ptree) : Prop :=
  twf t = true -> t_f4e t = false -> exists p, translate t = Ok p /\ good_tr t p.

Lemma translate_list l : Forall Pt l ->
  forallb (fun a => twf a) l = true -> existsb (fun a => t_f4e a) l = false ->
  exists ps, rmapM (fun a => translate a) l = Ok ps /\ Forall2 good_tr l ps.
Proof.
  induction 1 as [|t l Ht _ IH]; intros Hw Hf; [exists []; split; [reflexivity|constructor]|].
  simpl in Hw, Hf. apply andb_true_iff in Hw. apply orb_false_iff in Hf.
  destruct Hw as [Hw1 Hw2], Hf as [Hf1 Hf2].
  destruct (Ht Hw1 Hf1) as (p & Hp & Hg). destruct (IH Hw2 Hf2) as (ps & Hps & Hgs).
  exists (p :: ps). split; [|constructor; auto].
  rewrite rmapM_cons, Hp. cbn [bind]. rewrite Hps. reflexivity.
Qed.

Lemma good_rels l ps : Forall2 good_tr l ps ->
  Forall2 req (map (PR g) ps) (map (fun a => tree_rel g a) l)
  /\ Forall (fun p => wfp p = true /\ has_ninv p = false) ps.
Proof.
  induction 1 as [|t p l ps (Hw & Hi & Hr) _ [IH1 IH2]]; simpl; split; constructor; auto.
Qed.

(* translatePath: total on grammatical trees outside F4e, and the path it builds
   is well-formed, free of untranslated members and denotes the tree's relation *)
Theorem translate_sound t : Pt t.
Proof.
  induction t as [q|l|l IH|l IH|a m IH|a IH] using ptree_ind2; intros Hw Hf.
  - exists (Iri q). repeat split; auto; intros H; exact H.
  - simpl in Hw, Hf. apply orb_false_iff in Hf. destruct Hf as [Hnil Hiv].
    rewrite negb_false_iff, is_nil_true in Hiv.
    assert (Hid : map (fun a => match a with NInv _ => NBad | x => x end) l = l).
    { rewrite <- (map_id l) at 2. apply map_ext_in. intros a Ha. destruct a as [q|q|]; auto.
      exfalso. assert (Hq : In q (neg_iv l)) by (unfold neg_iv; rewrite in_flat_map; exists (NInv q); simpl; auto).
      rewrite Hiv in Hq. destruct Hq. }
    exists (Neg l). cbn [translate]. rewrite Hnil, Hid. split; auto.
    split; [exact Hw|]. split; [simpl; rewrite Hiv; reflexivity|]. intros x y; simpl; tauto.
  - simpl in Hw, Hf. apply andb_true_iff in Hw. destruct Hw as [Hne Hw].
    destruct (translate_list l IH Hw Hf) as (ps & Hps & Hgs).
    destruct (good_rels l ps Hgs) as [Hreq Hwf].
    cbn [translate]. rewrite Hps. cbn [bind].
    assert (Hrel : req (alt_rel (map (PR g) ps)) (tree_rel g (TAlt l))) by (apply alt_rel_ext; auto).
    destruct ps as [|p [|p2 ps']].
    + inversion Hgs; subst. discriminate.
    + exists p. split; auto. inversion Hwf as [|? ? [Hwp Hip] _]; subst. split; auto. split; auto.
      intros x y. rewrite <- (Hrel x y). unfold alt_rel. simpl. split.
      * intros H. exists (PR g p). auto.
      * intros (R & [<-|[]] & H). exact H.
    + eexists; split; [reflexivity|]. destruct (mk_alt_wf _ Hwf). split; auto. split; auto.
      intros x y. rewrite (mk_alt_rel g _ x y). apply Hrel.
  - simpl in Hw, Hf. apply andb_true_iff in Hw. destruct Hw as [Hne Hw].
    destruct (translate_list l IH Hw Hf) as (ps & Hps & Hgs).
    destruct (good_rels l ps Hgs) as [Hreq Hwf].
    cbn [translate]. rewrite Hps. cbn [bind].
    assert (Hrel : req (seq_rel (map (PR g) ps)) (tree_rel g (TSeq l))) by (apply seq_rel_ext; auto).
    destruct ps as [|p [|p2 ps']].
    + inversion Hgs; subst. discriminate.
    + exists p. split; auto. inversion Hwf as [|? ? [Hwp Hip] _]; subst. split; auto. split; auto.
      intros x y. rewrite <- (Hrel x y). symmetry. apply seq_rel_one.
    + eexists; split; [reflexivity|]. destruct (mk_seq_wf (p :: p2 :: ps')); [discriminate|auto|].
      split; auto. split; auto.
      intros x y. rewrite (mk_seq_rel g _ x y). apply Hrel.
  - destruct (IH Hw Hf) as (p & Hp & Hwp & Hip & Hr). destruct m as [m|].
    + exists (Mul p m). cbn [translate]. rewrite Hp. split; [reflexivity|].
      split; [exact Hwp|]. split; [exact Hip|]. simpl. apply mul_rel_ext. exact Hr.
    + exists p. split; [exact Hp|]. split; auto.
  - destruct (IH Hw Hf) as (p & Hp & Hwp & Hip & Hr).
    exists (Inv p). cbn [translate]. rewrite Hp. split; [reflexivity|].
    split; [exact Hwp|]. split; [exact Hip|]. intros x y. simpl. apply Hr.
Qed.

(* the node-by-node reading used by the checker is the tree's relation *)
Lemma canon_rel t : req (tree_rel g t) (path_rel g (canon t)).
Proof.
  induction t as [q|l|l IH|l IH|a m IH|a IH] using ptree_ind2; simpl.
  - intros x y; tauto.
  - intros x y; tauto.
  - rewrite map_map. apply alt_rel_ext, Forall2_map_req. exact IH.
  - rewrite map_map. apply seq_rel_ext, Forall2_map_req. exact IH.
  - destruct m; simpl; [apply mul_rel_ext|]; auto.
  - intros x y. apply IH.
Qed.

End T.

(* the whole SPARQL route: translate the tree, evaluate the object *)
Theorem sparql_route g t s o : twf t = true -> t_f4e t = false ->
  exists p l, translate t = Ok p /\ eval g (fuel g) p s o = Ok l
              /\ forall x y, In (x, y) l <-> tree_rel g t x y /\ ends_ok g s o x y.
Proof.
  intros Hw Hf. destruct (translate_sound g t Hw Hf) as (p & Hp & Hwp & Hip & Hr).
  destruct (sound_complete g p s o Hwp Hip) as (l & Hl & Hin).
  exists p, l. split; auto. split; auto. intros x y. rewrite Hin, (Hr x y). tauto.
Qed.

(* tie with the checker of the translate suite *)
Theorem tspec_ok_model c : twf (t_tree c) = true -> tkf c = 0%N -> tspec_ok c (tmodel_obs c) = true.
Proof.
  intros Hw Hk. unfold tkf in Hk. destruct (t_f4e (t_tree c)) eqn:Hf; [discriminate|].
  destruct (translate_sound (t_g c) (t_tree c) Hw Hf) as (p & Hp & Hwp & Hip & Hr).
  unfold tmodel_obs, tspec_ok. rewrite Hp, Hwp, Hip. simpl.
  apply (seteqb_spec pr_eqb pr_eqb_spec). intros [x y].
  assert (HU : incl (nodes (t_g c)) (dedup N.eqb (nodes (t_g c)))) by (intros v Hv; apply dedupN_In; auto).
  rewrite (rel_set_RS (t_g c) _ HU p x y), (rel_set_RS (t_g c) _ HU (canon (t_tree c)) x y).
  rewrite (Hr x y), (canon_rel (t_g c) (t_tree c) x y). tauto.
Qed.

Theorem tspec_ok_reading c p :
  tspec_ok c (Ok p) = true <->
  wfp p = true /\ has_ninv p = false
  /\ forall x y, In x (nodes (t_g c)) -> In y (nodes (t_g c)) ->
       (path_rel (t_g c) p x y <-> tree_rel (t_g c) (t_tree c) x y).
Proof.
  unfold tspec_ok. rewrite !andb_true_iff, negb_true_iff, (seteqb_spec pr_eqb pr_eqb_spec).
  assert (HU : incl (nodes (t_g c)) (dedup N.eqb (nodes (t_g c)))) by (intros v Hv; apply dedupN_In; auto).
  split.
  - intros [[Hw Hi] Hs]. split; auto. split; auto. intros x y Hx Hy.
    specialize (Hs (x, y)). rewrite (rel_set_RS (t_g c) _ HU p x y), (rel_set_RS (t_g c) _ HU (canon (t_tree c)) x y) in Hs.
    rewrite (canon_rel (t_g c) (t_tree c) x y). rewrite !dedupN_In in Hs. tauto.
  - intros (Hw & Hi & Hs). split; auto. intros [x y].
    rewrite (rel_set_RS (t_g c) _ HU p x y), (rel_set_RS (t_g c) _ HU (canon (t_tree c)) x y), !dedupN_In.
    split; intros (Hr & Hx & Hy); (split; [|auto]).
    + apply canon_rel. apply Hs; auto.
    + apply Hs; auto. apply canon_rel. auto.
Qed.

(* F4e on the front end: an inverse member stays untranslated, !() raises *)
Lemma translate_f4e_refuted :
  translate (TAlt [TSeq [TElt (TNeg [NInv 4%N]) None]]) = Ok (Neg [NBad])
  /\ translate (TAlt [TSeq [TElt (TNeg []) None]]) = Raised.
Proof. split; reflexivity. Qed.

(* the structural comparison used for the observations of the translate suite decides equality *)
Lemma negarg_eqb_spec : forall a b, reflect (a = b) (negarg_eqb a b).
Proof.
  intros [p|p|] [q|q|]; simpl; try (constructor; congruence);
    destruct (N.eqb_spec p q); constructor; congruence.
Qed.

Lemma path_eqb_eq a : forall b, path_eqb a b = true -> a = b.
Proof.
  induction a as [q|a IH|l IH|l IH|a m IH|l] using path_ind2; intros b H; destruct b; simpl in H; try discriminate.
  - apply N.eqb_eq in H. congruence.
  - f_equal. auto.
  - f_equal. revert l0 H. induction IH as [|x l Hx _ IHl]; intros [|y m'] H; try discriminate; auto.
    apply andb_true_iff in H. destruct H. f_equal; auto.
  - f_equal. revert l0 H. induction IH as [|x l Hx _ IHl]; intros [|y m'] H; try discriminate; auto.
    apply andb_true_iff in H. destruct H. f_equal; auto.
  - apply andb_true_iff in H. destruct H as [H1 H2]. f_equal; auto.
    destruct m, m0; simpl in H2; congruence.
  - f_equal. destruct (list_eqb_spec negarg_eqb negarg_eqb_spec l l0); congruence.
Qed.

Lemma tobs_eqb_eq a b : tobs_eqb a b = true -> a = b.
Proof.
  destruct a, b; simpl; try discriminate; auto. intros H. f_equal. apply path_eqb_eq; auto.
Qed.
