(* Basic lemmas for the property-path development: the result monad, the
   induction principle of the nested path type, facts about the specification
   relation (a related pair is the identity or consists of graph nodes). *)
From RV Require Import Paths.Model.

(* ---------------------------------------------------------------- monad *)
Lemma bind_ok {A B} (r : res A) (k : A -> res B) b :
  bind r k = Ok b -> exists a, r = Ok a /\ k a = Ok b.
Proof. destruct r; simpl; intros; eauto; discriminate. Qed.

Lemma rmap_ok {A B} (f : A -> B) (r : res A) a : r = Ok a -> rmap f r = Ok (f a).
Proof. intros ->; reflexivity. Qed.

Lemma rconcat_spec {A B} (h : B -> res (list A)) (l : list B) :
  (forall x, In x l -> exists a, h x = Ok a) ->
  exists r, rconcat (map h l) = Ok r
            /\ forall y, In y r <-> exists x a, In x l /\ h x = Ok a /\ In y a.
Proof.
  induction l as [|x l IH]; intros H.
  - exists []. split; [reflexivity|]. intros y; split; [intros []|intros (x & a & [] & _)].
  - destruct (H x (or_introl eq_refl)) as [a Ha].
    destruct IH as (r & Hr & Hin); [intros z Hz; apply H; now right|].
    exists (a ++ r). split; [simpl; rewrite Ha; simpl; rewrite Hr; reflexivity|].
    intros y. rewrite in_app_iff, Hin. split.
    + intros [Hy|(z & b & Hz & Hb & Hy)]; [exists x, a; simpl; auto|exists z, b; simpl; auto].
    + intros (z & b & [->|Hz] & Hb & Hy).
      * left. congruence.
      * right. eauto.
Qed.

(* ---------------------------------------------------------------- induction *)
Section PathInd.
  Variable P : path -> Prop.
  Hypothesis HIri : forall q, P (Iri q).
  Hypothesis HInv : forall a, P a -> P (Inv a).
  Hypothesis HSeq : forall l, Forall P l -> P (Seq l).
  Hypothesis HAlt : forall l, Forall P l -> P (Alt l).
  Hypothesis HMul : forall a m, P a -> P (Mul a m).
  Hypothesis HNeg : forall l, P (Neg l).

  Fixpoint path_ind2 (p : path) : P p :=
    match p with
    | Iri q => HIri q
    | Inv a => HInv a (path_ind2 a)
    | Seq l => HSeq l ((fix go (l : list path) : Forall P l :=
                        match l with
                        | [] => @Forall_nil _ P
                        | a :: r => @Forall_cons _ P a r (path_ind2 a) (go r)
                        end) l)
    | Alt l => HAlt l ((fix go (l : list path) : Forall P l :=
                        match l with
                        | [] => @Forall_nil _ P
                        | a :: r => @Forall_cons _ P a r (path_ind2 a) (go r)
                        end) l)
    | Mul a m => HMul a m (path_ind2 a)
    | Neg l => HNeg l
    end.
End PathInd.

(* ---------------------------------------------------------------- nodes *)
Lemma in_graph_nodes g x q y : In (x, q, y) g -> In x (nodes g) /\ In y (nodes g).
Proof.
  intros H. unfold nodes. rewrite !in_flat_map. split; exists (x, q, y); simpl; auto.
Qed.

Lemma in_nodes_graph g v : In v (nodes g) -> exists t, In t g /\ (v = fst (so_of t) \/ v = snd (so_of t)).
Proof.
  unfold nodes. rewrite in_flat_map. intros (t & Ht & Hv). exists t. split; auto.
  simpl in Hv. intuition.
Qed.

Definition rel := term -> term -> Prop.

(* a related pair is a zero-length match or consists of nodes of the graph *)
Definition RN (g : graph) (R : rel) : Prop :=
  forall x y, R x y -> x = y \/ (In x (nodes g) /\ In y (nodes g)).

Lemma seq_rel_RN g l : Forall (RN g) l -> RN g (seq_rel l).
Proof.
  induction 1 as [|R l HR _ IH]; intros x y; simpl.
  - auto.
  - intros (z & H1 & H2). destruct (HR _ _ H1) as [->|[Hx Hz]]; [auto|].
    destruct (IH _ _ H2) as [<-|[_ Hy]]; auto.
Qed.

Lemma alt_rel_RN g l : Forall (RN g) l -> RN g (alt_rel l).
Proof.
  intros H x y (R & HR & Hxy). rewrite Forall_forall in H. exact (H R HR x y Hxy).
Qed.

Lemma tc_RN g R : RN g R -> RN g (tc R).
Proof.
  intros HR x y H. induction H as [x y H|x z y H _ IH]; [auto|].
  destruct (HR _ _ H) as [->|[Hx Hz]]; [auto|].
  destruct IH as [<-|[_ Hy]]; auto.
Qed.

Lemma mul_rel_RN g m R : RN g R -> RN g (mul_rel m R).
Proof.
  intros HR x y. destruct m; simpl.
  - intros [->|H]; [auto|exact (tc_RN g R HR _ _ H)].
  - apply tc_RN; auto.
  - intros [->|H]; auto.
Qed.

Lemma neg_rel_RN g l : RN g (neg_rel g l).
Proof.
  intros x y [[_ (p & H & _)]|[_ (p & H & _)]]; apply in_graph_nodes in H; right; tauto.
Qed.

Lemma path_rel_RN g p : RN g (path_rel g p).
Proof.
  induction p as [q|a IH|l IH|l IH|a m IH|l] using path_ind2; simpl.
  - intros x y H. right. eapply in_graph_nodes; eauto.
  - intros x y H. destruct (IH _ _ H) as [->|[? ?]]; auto.
  - apply seq_rel_RN. rewrite Forall_map. exact IH.
  - apply alt_rel_RN. rewrite Forall_map. exact IH.
  - apply mul_rel_RN; auto.
  - apply neg_rel_RN.
Qed.

(* transitive closure: snoc form, inversion *)
Lemma tc_snoc R x z y : tc R x z -> R z y -> tc R x y.
Proof.
  induction 1 as [x z H|x w z H _ IH]; intros Hy.
  - eapply tc_step; [eauto|constructor; auto].
  - eapply tc_step; eauto.
Qed.

Lemma tc_trans R x z y : tc R x z -> tc R z y -> tc R x y.
Proof. induction 1; intros; [eapply tc_step; eauto|eapply tc_step; eauto]. Qed.

Lemma tc_conv R x y : tc (fun a b => R b a) x y <-> tc R y x.
Proof.
  split; induction 1 as [x y H|x z y H _ IH].
  - constructor; auto.
  - eapply tc_snoc; eauto.
  - constructor; auto.
  - eapply tc_snoc; eauto.
Qed.

Lemma tc_mono (R S : rel) x y : (forall a b, R a b -> S a b) -> tc R x y -> tc S x y.
Proof. intros H; induction 1; [constructor; auto|eapply tc_step; eauto]. Qed.

(* ---------------------------------------------------------------- list-set shorthands *)
Lemma membN_In x l : memb N.eqb x l = true <-> In x l.
Proof. apply memb_In, N.eqb_spec. Qed.
Lemma membN_false x l : memb N.eqb x l = false <-> ~ In x l.
Proof. apply memb_false, N.eqb_spec. Qed.
Lemma pr_eqb_spec : forall p q : pr, reflect (p = q) (pr_eqb p q).
Proof. apply pair_eqb_spec; apply N.eqb_spec. Qed.
Lemma dedupN_In x l : In x (dedup N.eqb l) <-> In x l.
Proof. apply dedup_In, N.eqb_spec. Qed.
Lemma deduppr_In x l : In x (dedup pr_eqb l) <-> In x l.
Proof. apply dedup_In, pr_eqb_spec. Qed.

(* ---------------------------------------------------------------- pointwise equivalent relations *)
Definition req (R S : rel) : Prop := forall x y, R x y <-> S x y.

Lemma seq_rel_ext l1 l2 : Forall2 req l1 l2 -> req (seq_rel l1) (seq_rel l2).
Proof.
  induction 1 as [|R S l1 l2 HRS _ IH]; intros x y; simpl; [tauto|].
  split; intros (z & H1 & H2); exists z; split; try apply HRS; try apply IH; auto.
Qed.

Lemma alt_rel_ext l1 l2 : Forall2 req l1 l2 -> req (alt_rel l1) (alt_rel l2).
Proof.
  unfold alt_rel. induction 1 as [|R S l1 l2 HRS _ IH]; intros x y; simpl.
  - split; intros (R & [] & _).
  - split.
    + intros (R' & [<-|Hin] & H); [exists S; split; auto; apply HRS; auto|].
      destruct (proj1 (IH x y)) as (S' & ? & ?); eauto.
    + intros (S' & [<-|Hin] & H); [exists R; split; auto; apply HRS; auto|].
      destruct (proj2 (IH x y)) as (R' & ? & ?); eauto.
Qed.

Lemma tc_ext R S : req R S -> req (tc R) (tc S).
Proof. intros H x y. split; apply tc_mono; intros a b; apply H. Qed.

Lemma mul_rel_ext m R S : req R S -> req (mul_rel m R) (mul_rel m S).
Proof.
  intros H x y. pose proof (tc_ext R S H x y). pose proof (H x y). destruct m; simpl; tauto.
Qed.

Lemma Forall2_map_req {A} (F G : A -> rel) l :
  Forall (fun a => req (F a) (G a)) l -> Forall2 req (map F l) (map G l).
Proof. induction 1; simpl; constructor; auto. Qed.

Lemma neg_rel_impl_RN g l : RN g (neg_rel_impl g l).
Proof. intros x y (p & H & _). apply in_graph_nodes in H. right; tauto. Qed.

Lemma impl_rel_RN g p : RN g (impl_rel g p).
Proof.
  induction p as [q|a IH|l IH|l IH|a m IH|l] using path_ind2; simpl.
  - intros x y H. right. eapply in_graph_nodes; eauto.
  - intros x y H. destruct (IH _ _ H) as [->|[? ?]]; auto.
  - apply seq_rel_RN. rewrite Forall_map. exact IH.
  - apply alt_rel_RN. rewrite Forall_map. exact IH.
  - apply mul_rel_RN; auto.
  - apply neg_rel_impl_RN.
Qed.

Lemma existsb_false_iff {A} (p : A -> bool) l : existsb p l = false <-> forall a, In a l -> p a = false.
Proof.
  split.
  - intros H a Ha. destruct (p a) eqn:E; auto.
    assert (existsb p l = true) by (apply existsb_exists; eauto). congruence.
  - intros H. destruct (existsb p l) eqn:E; auto. apply existsb_exists in E.
    destruct E as (a & Ha & Hp). rewrite (H a Ha) in Hp. discriminate.
Qed.

(* without inverse members in negated sets the code's relation is the SPARQL relation *)
Lemma impl_rel_eq g p : has_ninv p = false -> req (impl_rel g p) (path_rel g p).
Proof.
  induction p as [q|a IH|l IH|l IH|a m IH|l] using path_ind2; simpl; intros Hn.
  - intros x y; tauto.
  - intros x y. apply IH; auto.
  - apply seq_rel_ext, Forall2_map_req. rewrite existsb_false_iff in Hn.
    rewrite Forall_forall in IH |- *. intros a Ha. apply IH; auto.
  - apply alt_rel_ext, Forall2_map_req. rewrite existsb_false_iff in Hn.
    rewrite Forall_forall in IH |- *. intros a Ha. apply IH; auto.
  - apply mul_rel_ext; auto.
  - intros x y. unfold neg_rel_impl, neg_rel.
    destruct (neg_iv l) eqn:Eiv; [|discriminate]. split.
    + intros (p & H1 & H2 & _). left. split; [left; reflexivity|eauto].
    + intros [[_ (p & H1 & H2)]|[Hf _]]; [|congruence]. exists p. simpl. intuition.
Qed.
