#!/bin/bash
# usage: confirm_seed.sh <PROP> <i> [fullsuite]  -- confirm a seeded change in the scratch worktree /tmp/seed-<PROP>
# (demo fails with the patch, passes without; the property's check reports a VIOLATION; optionally the full suite)
P=$1; I=$2; PFX=${SEEDPFX:-seed}; W=/tmp/$PFX-$P; O=/tmp/$PFX-$P-out/$I
git -C $W checkout -q -- . ; git -C $W clean -fdq -e '*.pyc' >/dev/null 2>&1
echo "== demo on clean tree"; RDFLIB_TREE=$W timeout 300 /venv/bin/python $O/demo.py >/dev/null 2>&1; echo "exit $?"
git -C $W apply $O/patch.diff || { echo "PATCH DOES NOT APPLY"; exit 2; }
echo "== demo with patch"; RDFLIB_TREE=$W timeout 300 /venv/bin/python $O/demo.py 2>&1 | tail -2; echo "exit ${PIPESTATUS[0]}"
echo "== check"; cd /verif && RV_REPO=$W timeout 1500 ./check $P ${CHECKARGS} 2>&1 | tail -4
if [ "$3" = "fullsuite" ]; then
  echo "== full suite"; cd $W && /venv/bin/python -m pytest -q -p no:cacheprovider --timeout=900 -q test rdflib 2>&1 | grep FAILED | sed 's/ - .*//' | sort > $O/failed.txt; diff /var/tmp/rv/bf.txt $O/failed.txt > /dev/null && echo "suite: same failures as baseline" || { echo "suite: DIFFERENT"; diff /var/tmp/rv/bf.txt $O/failed.txt | head; }
fi
git -C $W checkout -q -- .
