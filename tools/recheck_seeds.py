#!/venv/bin/python
"""Re-confirms every kept seeded change against the CURRENT /repo HEAD and the CURRENT checks:
for each /verif/seeded/<id>/ : apply patch.diff in a scratch worktree of /repo HEAD, run demo.py (must exit 1; and 0 without
the patch), run `RV_REPO=<worktree> ./check <property>` (quick, seed 0) and record the verdict in meta.json["final_recheck"].
usage: recheck_seeds.py [PROP ...]   (default: all)"""
import glob, json, os, re, subprocess, sys

V = "/verif"
W = os.environ.get("SEEDCHECK_DIR", "/var/tmp/rv/seedcheck")

def sh(cmd, **kw):
    return subprocess.run(cmd, shell=True, capture_output=True, text=True, **kw)

def main():
    props = set(sys.argv[1:])
    sh(f"git -C /repo worktree remove --force {W}")
    r = sh(f"git -C /repo worktree add --detach {W}")
    assert os.path.isdir(W), r.stderr
    head = sh("git -C /repo rev-parse --short HEAD").stdout.strip()
    for d in sorted(glob.glob(os.path.join(V, "seeded", "*"))):
        name = os.path.basename(d)
        prop = name.split("-")[0]
        if props and prop not in props and name not in props:
            continue
        mp = os.path.join(d, "meta.json")
        meta = json.load(open(mp))
        sh(f"git -C {W} checkout -q -- . ; git -C {W} clean -fdq")
        env = dict(os.environ, RDFLIB_TREE=W)
        clean = subprocess.run(["timeout", "300", "/venv/bin/python", os.path.join(d, "demo.py")], capture_output=True, text=True, env=env).returncode
        ap = sh(f"git -C {W} apply {d}/patch.diff")
        if ap.returncode != 0:
            verdict = "PATCH DOES NOT APPLY"
            demo = None
        else:
            demo = subprocess.run(["timeout", "300", "/venv/bin/python", os.path.join(d, "demo.py")], capture_output=True, text=True, env=env).returncode
            ck = subprocess.run(["timeout", "1500", "./check", prop], capture_output=True, text=True, cwd=V, env=dict(os.environ, RV_REPO=W, VERIF_SEED="0"))
            lines = [l for l in ck.stdout.splitlines() if l.startswith("VIOLATION")]
            if lines:
                verdict = "VIOLATION" + (" (no-failing-input-found)" if all("no-failing-input-found" in l for l in lines) else "")
                verdict += " [" + ", ".join(sorted({re.sub(r".*/", "", l.split("replay=")[1].split()[0]) for l in lines})) + "]"
            else:
                verdict = f"NOT CAUGHT (exit {ck.returncode})"
        meta["final_recheck"] = {"repo_head": head, "demo_clean_exit": clean, "demo_patched_exit": demo, "check": verdict}
        json.dump(meta, open(mp, "w"), indent=1)
        print(f"{name:12s} demo {clean}/{demo}  {verdict}", flush=True)
    sh(f"git -C /repo worktree remove --force {W}")

if __name__ == "__main__":
    main()
