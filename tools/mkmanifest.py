#!/venv/bin/python
"""Regenerates MANIFEST.json from the table below (kept in one place so that it is always valid)."""
import json, os

V = os.path.dirname(os.path.dirname(os.path.abspath(__file__)))
COMMON_NOTE = ("Trusted: Coq 8.16.1 kernel incl. vm_compute (no native_compute, no axioms: every theorem is 'Closed under the "
               "global context'); the hand-written Gallina model is tied to /repo only by the correspondence check (differential "
               "execution of rdflib from /repo against the model evaluated inside Coq, harness/*.py); no extraction is used.")

CLAIMED = {
    "C18": dict(
        text="Proof: for every initial content and every history of add/remove(pattern)/commit/rollback of one or two auditable "
             "wrappers over one store the model's store content satisfies the rollback/commit specification (Coq theorems "
             "C18_two_wrappers, C18_rollback_restores_commit_keeps, by a log invariant and induction over the history). The model "
             "is tied to auditable.py by differential runs on generated and exhaustively enumerated histories evaluated in Coq.",
        design="7/C18", technique="Coq proof (log invariant + simulation by induction over histories) + model/implementation correspondence check"),
}

NOT_YET = {}  # filled below for every property without a check


def main():
    props = [json.loads(l) for l in open(os.path.join(V, "properties.jsonl"))]
    checks, na = [], []
    for p in props:
        pid = p["id"]
        if pid in CLAIMED:
            c = CLAIMED[pid]
            checks.append({
                "property_id": pid,
                "quick_cmd": f"./check {pid} --tier quick",
                "thorough_cmd": f"./check {pid} --tier thorough",
                "evidence_file": f"evidence/{pid}.json",
                "replay_cmd_template": f"./check {pid} --replay {{path}}",
                "engine": "coq-model-correspondence",
                "level_claimed": {"category": "proof", "text": c["text"], "design_ref": c["design"]},
                "level_note": c.get("note", COMMON_NOTE),
                "technique": c["technique"],
            })
        else:
            na.append({"property_id": pid, "reason": NOT_YET.get(pid, "no check registered yet: model and proofs for this property are still under construction (see DESIGN.md section 7)")})
    m = {
        "version": 1,
        "setup_cmd": "./build_all.sh",
        "hooks": {"guard": "RDFLIB_VERIF", "enable": "no hooks are needed: every observation is available through rdflib's public API; checks import rdflib from /repo",
                  "baseline_off_cmd": "cd /repo && /venv/bin/python -m pytest -ra -q -p no:cacheprovider --timeout=900 --continue-on-collection-errors",
                  "source_commits": [], "add_only": True},
        "engines": [{"name": "coq-model-correspondence", "path": "check",
                     "serves_properties": [c["property_id"] for c in checks],
                     "kind_free_text": "Coq 8.16.1 development under coq/ (models, proofs, property theorems in coq/Props) + Python harness that runs rdflib from /repo and evaluates model, verified spec checker and known-finding triggers on the same cases inside Coq (vm_compute)"}],
        "checks": checks,
        "not_applicable": na,
        "notes": "Every check: ./check <id> [--tier quick|thorough] [--replay file]; VERIF_SEED and VERIF_TIER are honoured. known_findings.json lists genuine defects (open ones are printed as KNOWN-FINDING lines, fixed ones suppress nothing).",
    }
    json.dump(m, open(os.path.join(V, "MANIFEST.json"), "w"), indent=1)
    print("checks:", [c["property_id"] for c in checks], "not claimed:", len(na))


if __name__ == "__main__":
    main()
