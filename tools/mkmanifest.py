#!/venv/bin/python
"""Regenerates MANIFEST.json from the table below (kept in one place so that it is always valid)."""
import json, os

V = os.path.dirname(os.path.dirname(os.path.abspath(__file__)))
COMMON_NOTE = ("Trusted: Coq 8.16.1 kernel incl. vm_compute (no native_compute, no axioms: every theorem is 'Closed under the "
               "global context'); the hand-written Gallina model is tied to /repo only by the correspondence check (differential "
               "execution of rdflib from /repo against the model evaluated inside Coq, harness/*.py); no extraction is used.")

T_CORR = " + model/implementation correspondence check (rdflib run against the Gallina model and the verified spec checker, both evaluated inside Coq)"

CLAIMED = {
    "C18": dict(
        text="Proof: for every initial content and every history of add/remove(pattern)/commit/rollback of one or two auditable wrappers over one store, incl. bulk adds, the model's store content satisfies the rollback/commit specification (C18_two_wrappers, C18_rollback_restores_commit_keeps, C18_batches: log invariant, induction over the history); the wrapper composed with a CONCRETE store refines that model for any store satisfying three exactness laws, which C01 proves of the Memory model of memory.py (C18_over_any_store, C18_over_memory_refines up to log permutation, C18_over_memory_rollback_restores in terms of the store's own membership function); the specification checker provably depends only on which quads an observation holds (C18_spec_respects_set_equality). Tied to auditable.py and memory.py by differential runs on generated and exhaustively enumerated histories evaluated in Coq (suites auditable, auditable_batch, auditable_memory).",
        design="0, 7/C18", technique="Coq proof (log invariant + simulation by induction over histories)" + T_CORR),
    "C01": dict(
        text='Proof: on a faithful Gallina model of SimpleMemory and Memory (three nested insertion-ordered dict indexes, per-triple context map with default-context compression, context->triples map) and of the Graph layer: the store invariant is preserved, add/remove change exactly the target graph (all 8 wildcard shapes) and leave every other graph unchanged, triples(pattern) is a duplicate-free exact enumeration for all 8 shapes and any graph, whole histories incl. += -= and + - * ^ whose results stay in play equal the mathematical set result (C01_history, C01_setops, C01_binop_result_in_play), and for every schedule of opens, steps and mutations no iterator step raises and every yielded triple matched and was in the graph at some state since the open (C01_iter_sound, full strength after two fix: commits). Tied to memory.py/graph.py by differential histories and iterator/mutation schedules.',
        design="0, 7/C01", technique="Coq proof (index/context invariants, refinement to a quad set by induction over histories; small-step generator semantics)" + T_CORR),
    "C02": dict(
        text="Proof: on a Gallina model of ConjunctiveGraph/Dataset over an abstract quad store, for every state: add/remove are isolated per graph, remove without graph removes from all graphs, remove_graph empties and forgets only that graph, membership is exact for any graph argument, no fallback for an empty or unknown graph, reads do not write (after the fix: commits); the agreement of all views (quads, graphs, per-graph views, union view) is proved for histories outside one known-finding trigger (quads restricted to a graph also yields the triple's other graphs - pinned by an existing test). Tied to rdflib/graph.py by differential histories incl. IRI- and bnode-named graphs, foreign Graph arguments, default_union on/off at write time.",
        design="0, 7/C02", technique="Coq proof (invariants over dataset histories, refinement to a map graph name -> triple set)" + T_CORR),
    "C03": dict(
        text='Proof (partial): N-Triples text level at full strength - unquote(quote_encode s) = s for every string, every well-formed triple/document written by the model of nt.py is read back as itself by the model of ntriples.py incl. its 2048-character buffered readline, for any chunk size; Turtle string text: one-quote and three-quote forms for every string (strconst inverts _quote_encode); isValidList/doList of the Turtle serialisers terminate and write exactly the members; HexTuples row partial. Graph-level round trips of all eight formats (blank-node topologies, lists, literals, files read back from binary sources with multi-byte characters on chunk boundaries) are conformance runs against a backtracking isomorphism oracle, with known findings identified by input-side triggers.',
        design="0, 7/C03", technique="Coq proof (string codec round trips by induction over code points, regexes as deterministic scanners over reflected character tables)" + T_CORR),
    "C04": dict(
        text="Proof (partial): SPARQL 1.1 section 18 bottom-up evaluation is the specification; a function-by-function Gallina model of rdflib's top-down evaluator is the model. Proved: BGP for every pattern order and incoming context; lazy and hash Join; and the push-down theorem C04_pushdown by mutual induction over patterns and expressions for a fragment with BGP, Union, Values, Graph, Join, sub-SELECT as right operand of a lazy join, LeftJoin, Minus, Extend, Filter, (NOT) EXISTS and comparisons, under side conditions that are the negations of the remaining known-finding triggers; the tie theorem holds on that fragment (78% of generated cases, 98% of the untriggered ones). NOT proved: the tie for every untriggered case (sub-SELECT pushed into from OPTIONAL/EXISTS, DISTINCT under pushed bindings, non-atomic comparison operands). Every generated query is judged by the verified bottom-up checker.",
        design="0, 7/C04", technique="Coq proof (BGP evaluation by permutation/commutation lemmas on canonical solutions) + bottom-up algebra as verified checker" + T_CORR),
    "C05": dict(
        text="Proof (partial): an executable strict reader for the W3C N-Triples/N-Quads grammar (validated on every run against the 157 W3C syntax test files) is the specification. Writer half: for every well-formed row/document (only hypothesis: blank-node ids are BLANK_NODE_LABELs) the strict reader reads rdflib's output as exactly the input quads; IRIREF validity proved over the reflected _invalid_uri_chars table. Reader half: C05_nt_reads_legal at line and document level - every legal document is read by the model of rdflib's reader as the grammar's statement list, outside two reader findings. Turtle/TriG/RDF-XML/JSON-LD alternative spellings (incl. RFC 3986 relative references, xml:lang scoping, JSON-LD contexts) and the equivalence of str/bytes/file/path sources are conformance runs with independent randomised writers.",
        design="0, 7/C05", technique="Coq proof (grammar transcribed production by production as the specification, writer model proved to land inside it)" + T_CORR),
    "C06": dict(
        text='Proof (routing level): for every well-formed dataset the model of each serialiser/parser pair returns each triple to its graph up to blank-node renaming: N-Quads, HexTuples, TriG, RDF Patch add and diff/apply at full strength; TriX and JSON-LD partial under explicit trigger hypotheses with refuting witnesses reproduced on rdflib (open findings). A boolean isomorphism decision procedure proved sound and complete judges what the six real serialiser/parser pairs return, incl. RDF collections, serialisation options (base, per-graph base, prefixes) and blank nodes shared across graphs. Text/XML/JSON layers are exercised, not modelled.',
        design="0, 7/C06", technique="Coq proof (routing functions, iso decision procedure proved sound and complete)" + T_CORR),
    "C07": dict(
        text="Proof: on a Gallina model of rdflib terms: equality is an equivalence distinguishing kinds and (lexical, datatype, lower-cased language); "
             "equal terms hash alike for any string hash; kind order bnode<variable<IRI<literal over the table reflected from the source; IRIs/bnodes "
             "order as their strings (strict total); pickling and the n3/from_n3 round trip partial (refuted for non-normalised literals, backslash-x, "
             "variables: known findings). The laws are also checked by the Coq checker on all pairs/triples of ~220-term pools run through real rdflib.",
        design="0, 7/C07", technique="Coq proof (algebraic laws on a term model, finite table facts by vm_compute over reflected tables)" + T_CORR),
    "C08": dict(
        text="Proof: on a Gallina model of evalDistinct/OrderBy/Slice/Project/AggregateJoin and the seven accumulators: DISTINCT, ORDER BY (permutation "
             "and sortedness for any ASC/DESC key list, key order proved a total preorder), slice = firstn/skipn, projection, grouping partitions the "
             "input, each aggregate equals its SPARQL 18.5 definition per group; five refuted corners are known findings. rdflib's rows are judged stage "
             "by stage by the verified checker (multiset + sortedness, ties left open).",
        design="0, 7/C08", technique="Coq proof (list permutation/sortedness lemmas, fold invariants for aggregates)" + T_CORR),
    "C09": dict(
        text='Proof (partial): on a Gallina model of Literal construction/normalisation over tables reflected from the source: the 13 XSD integer types, boolean, the string family incl. token, and decimal are faithful (valid forms accepted with the XSD value, round trip, normalisation idempotent and value-preserving), eq agrees with value equality incl. integer/decimal cross-type; the tie theorem covers every modelled case kind. Float/double, date/time/duration, binary types are tied by conformance runs against an independent oracle only. Three open findings (Decimal NaN/Infinity, bytes, date/time edge cases).',
        design="0, 7/C09", technique="Coq proof (lexical/value maps over Z, generic idempotence from parse-print identity; reflected tables)" + T_CORR),
    "C10": dict(
        text='Proof: on a model of update.py over a quad set + known graph names with the WHERE solutions as a parameter: INSERT DATA, DELETE DATA, DELETE WHERE, DELETE/INSERT (all deletions before any insertion), CLEAR, DROP, ADD, MOVE, COPY each equal the SPARQL 1.1 Update transformer for all three front ends and both settings of the union switch (writes outside GRAPH go to the real default graph), untouched graphs stay equal, operations run in order, template blank nodes are fresh per solution and distinct from every term of the dataset (eight fix: commits). One open finding (DELETE WHERE with GRAPH ?g). Tied to Graph/ConjunctiveGraph/Dataset.update by differential requests incl. per-operation prologues, WITH/USING/USING NAMED.',
        design="0, 7/C10", technique="Coq proof (dataset transformers, per-operation membership lemmas, induction over request sequences)" + T_CORR),
    "C11": dict(
        text='Proof: for every graph, every well-formed path expression and each of the four bound/unbound combinations of the ends the model of rdflib/paths.py (incl. MulPath with its shared seen set) yields exactly the pairs of the relational semantics, terminates within the stated fuel, closures are duplicate-free (full strength after two fix: commits), zero-length matches hold for absent terms; partial only for negated sets with inverse members (pinned by the module doctest; open findings F4c/F4e). Tied to Graph.triples/subjects/objects, ConjunctiveGraph/Dataset contexts, histories on one graph object and the SPARQL route by differential runs.',
        design="0, 7/C11", technique="Coq proof (structural induction on paths, DFS reachability invariant, Warshall closure as executable spec)" + T_CORR),
    "C12": dict(
        text="Proof: on a model of a parse call as a fold of add over statements under a per-call label map: parsing only adds (full strength after the fix: commit), "
             "the result is the RDF merge of old content and document, labels are scoped to the call and one node per label within a document incl. across named graphs, "
             "same document into two fresh graphs gives isomorphic graphs (bijection exhibited); refuted for the identity-label parsers TriX/JSON-LD/HexTuples (known finding F9). "
             "The checker recovers the label-to-node map from tag triples and judges what the eight real parsers produced.",
        design="0, 7/C12", technique="Coq proof (invariant over sequences of parse calls, freshness supply as section hypothesis)" + T_CORR),
    "C13": dict(
        text='Proof: reads of the C02 dataset model are state transformers ds -> ds * out; quads, union-only triples and known graph names are unchanged and the read is repeatable, for any graph argument (C13_read_pure, C13_repeatable, C13_spec_ok_model at full strength after the fix: commit that stopped reads from copying a foreign graph). The bodies of serialisers and of the query engine are opaque in the model: for them a catalogue of 189 read-only API calls (all serialisers incl. patch diff against a second dataset, SELECT/ASK/CONSTRUCT/DESCRIBE with FROM over files, paths, compare, slicing, Resource/Collection reads) is run twice on generated datasets with snapshots of quads and graph names taken straight off the stores before and after.',
        design="0, 7/C13", technique="Coq proof (reads as state transformers over the dataset model) + snapshot/repeat runs of every read-only API" + T_CORR),
    "C14": dict(
        text="Proof (partial): a backtracking isomorphism decision procedure is proved sound and complete (iso_dec = true <-> exists injective blank-node renaming) and judges "
             "isomorphic/to_isomorphic/to_canonical_graph of rdflib on symmetric families; graph_diff partition laws, soundness of canonical-form equality, and the skolemise/de-skolemise "
             "round trip (under stated urljoin/urlparse hypotheses replayed on the real functions) are proved; COMPLETENESS of rdflib's canonical labelling is not proved (differential evidence only). "
             "One known finding (blank node in predicate position).",
        design="0, 7/C14", technique="Coq proof (verified iso decision procedure as oracle, set-operator laws, string model of skolemisation)" + T_CORR),
    "C15": dict(
        text="Proof (partial): permuting the triple patterns of a basic graph pattern and swapping the operands of UNION leave the solution multiset unchanged, on the specification and on the "
             "model of rdflib's evaluator under every context (C15_bgp_perm, C15_bgp_perm_model, C15_union_comm, C15_union_comm_model). Join commutativity is false on the faithful model inside the C04 "
             "trigger regions; variable renaming, prefix spellings, initBindings vs VALUES, prepared-query reuse (state leaks cannot be exhibited by a pure model) and store independence (Memory, "
             "SimpleMemory, AuditableStore, ReadOnlyGraphAggregate) are conformance runs: every C04 case is posed in all these variants and the answers compared as multisets.",
        design="0, 7/C15", technique="Coq proof (permutation invariance of BGP/UNION evaluation) + variant-posing correspondence runs" + T_CORR),
    "C16": dict(
        text='Proof: JSON term/result round trip (json loads∘dumps = id as a visible hypothesis), XML text/attribute escaping round trips by induction over characters for every string of XML Chars (CR written as a character reference; characters XML 1.0 cannot carry are refused by the writer, which the specification demands), TSV term, row and document level for every W3C-conformant rendering, CSV cells; the tie theorem covers all four formats with no trigger left (nine fix: commits). Tied to the real writers/readers by differential runs on random tables.',
        design="0, 7/C16", technique="Coq proof (character-level codec round trips by induction, scanner models of the TSV grammar)" + T_CORR),
    "C17": dict(
        text="Proof: on a model of Memory.bind and NamespaceManager (bind with override/replace/numbered fallbacks, compute_qname with caches and tries, split_uri executable for all Unicode given a category table): after any sequence of operations the two store dicts are mutually inverse partial maps, qname/curie use a prefix bound NOW and expand back to the IRI, insert_trie preserves well-formedness and get_longest_namespace returns the longest known namespace for any insertion order (all at full strength after four fix: commits). One open finding (the dataset's default context has its own namespace manager; repair pinned by existing tests). Tied by histories of bind/qname/expand on one graph and on a dataset with its named graphs, plus a conformance suite with parse/serialize/default prefixes.",
        design="0, 7/C17", technique="Coq proof (dictionary bijection invariant over bind histories, section-abstract split function with exactness hypothesis)" + T_CORR),
    "C19": dict(
        text='Proof: on a statement-by-statement model of collection.py over an insertion-ordered triple list: every operation except item assignment at index == len returns what the Python list returns (negative indices, IndexError, del c[0], += []), preserves the representation invariant and a well-formed rdf:first/rdf:rest chain; reads and index() terminate on every graph and raise on cyclic chains (four fix: commits; the remaining finding is pinned by an existing test). Tied by histories of list operations from lengths 0-5 incl. falsy members and duplicates, and reads on cyclic/broken chains with a CPU-time hang detector.',
        design="0, 7/C19", technique="Coq proof (refinement of a Python list with representation invariant, fuel shown sufficient on well-formed chains)" + T_CORR),
    "C20": dict(
        text='Proof: on a model of SPARQLStore/SPARQLUpdateStore as request algebra + edit queue over a specification-level endpoint: every write has the same effect as on a local dataset, triples for all 8 shapes, contexts, query and len mirror the endpoint, and for every history (incl. updates the endpoint rejects) the endpoint equals the due writes in order (commit / non-dirty read / rollback rules) by simulation; no trigger left after four fix: commits. Tied to the real client by histories against a loopback HTTP endpoint (GET/POST/POST_FORM, XML/JSON, Content-Type variants, constructor kwargs); request text and HTTP are run only.',
        design="0, 7/C20", technique="Coq proof (state-machine simulation over histories)" + T_CORR),
}

NOT_YET = {}  # filled below for every property without a check


def main():
    props = [json.loads(l) for l in open(os.path.join(V, "properties.jsonl"))]
    checks, na = [], []
    for p in props:
        pid = p["id"]
        if pid in CLAIMED:
            c = dict(CLAIMED[pid])
            override = os.path.join(V, "tools", "manifest_text", pid + ".txt")   # the builder's own final paragraph, if any
            if os.path.exists(override):
                c["text"] = " ".join(open(override).read().split())
            tover = os.path.join(V, "tools", "manifest_text", pid + ".technique.txt")
            if os.path.exists(tover):
                c["technique"] = " ".join(open(tover).read().split())
            checks.append({
                "property_id": pid,
                "quick_cmd": f"./check {pid} --tier quick",
                "thorough_cmd": f"./check {pid} --tier thorough",
                "evidence_file": f"evidence/{pid}.json",
                "replay_cmd_template": f"./check {pid} --replay {{path}}",
                "engine": "coq-model-correspondence",
                "level_claimed": {"category": "proof", "text": c["text"], "design_ref": c["design"]},
                "level_note": c.get("note", COMMON_NOTE),
                "technique": c["technique"],
            })
        else:
            na.append({"property_id": pid, "reason": NOT_YET.get(pid, "no check registered yet: model and proofs for this property are still under construction (see DESIGN.md section 7)")})
    m = {
        "version": 1,
        "setup_cmd": "./build_all.sh",
        "hooks": {"guard": "RDFLIB_VERIF", "enable": "no hooks are needed: every observation is available through rdflib's public API; checks import rdflib from /repo",
                  "baseline_off_cmd": "cd /repo && /venv/bin/python -m pytest -ra -q -p no:cacheprovider --timeout=900 --continue-on-collection-errors",
                  "source_commits": [], "add_only": True},
        "engines": [{"name": "coq-model-correspondence", "path": "check",
                     "serves_properties": [c["property_id"] for c in checks],
                     "kind_free_text": "Coq 8.16.1 development under coq/ (models, proofs, property theorems in coq/Props) + Python harness that runs rdflib from /repo and evaluates model, verified spec checker and known-finding triggers on the same cases inside Coq (vm_compute)"}],
        "checks": checks,
        "not_applicable": na,
        "notes": "Every check: ./check <id> [--tier quick|thorough] [--replay file]; VERIF_SEED and VERIF_TIER are honoured. known_findings.json lists genuine defects (open ones are printed as KNOWN-FINDING lines, fixed ones suppress nothing).",
    }
    json.dump(m, open(os.path.join(V, "MANIFEST.json"), "w"), indent=1)
    print("checks:", [c["property_id"] for c in checks], "not claimed:", len(na))


if __name__ == "__main__":
    main()
