#!/venv/bin/python
"""keep_seed.py <PROP> <i> <caught:yes|no> "<what I ran / observed>"  -- store a confirmed seeded change under /verif/seeded/"""
import json, os, shutil, sys
P, I, caught, ran = sys.argv[1:5]
pfx = os.environ.get("SEEDPFX", "seed")
src = f"/tmp/{pfx}-{P}-out/{I}"
dst = f"/verif/seeded/{P}-{I}" if pfx == "seed" else f"/verif/seeded/{P}-r{pfx[4:]}-{I}"
os.makedirs(dst, exist_ok=True)
shutil.copy(f"{src}/patch.diff", f"{dst}/patch.diff")
shutil.copy(f"{src}/demo.py", f"{dst}/demo.py")
meta = json.load(open(f"{src}/meta.json"))
meta["confirmed_by_lead"] = ran
meta["caught_by_check"] = caught
meta["property"] = P
json.dump(meta, open(f"{dst}/meta.json", "w"), indent=1)
print("kept", dst)
