#!/venv/bin/python
"""Rebuilds known_findings.json: open findings from known_findings.d/*.json, fixed entries from the fix: commits of /repo.
Run by the lead after fix rounds; the checks only READ known_findings.json / known_findings.d at run time."""
import glob, json, os, subprocess

V = os.path.dirname(os.path.dirname(os.path.abspath(__file__)))
PROP = {  # commit subject prefix -> property
 "AuditableStore.add": "C18", "ConjunctiveGraph.triples honours": "C02", "DELETE/INSERT applies": "C10",
 "property paths respect": "C11", "a path pattern on a ReadOnlyGraphAggregate": "C11", "zero-or-more / one-or-more paths no longer": "C11", "membership of a path pattern": "C11", "a partly iterated query result": "C16", "a Literal with a Decimal value": "C16", "a Variable whose name begins": "C07", "Collection.__getitem__": "C19", "JSON-LD serialisation no longer": "C13",
 "NamespaceManager drops": "C17", "N-Quads and HexTuples parsers": "C12", "SimpleMemory.triples": "C01",
 "Memory no longer reports": "C01", "a quad whose graph is None": "C02", "backward evaluation of a sequence": "C11",
 "zero-or-more / zero-or-one": "C11", "Collection.index()": "C19", "Collection indexing": "C19",
 "deleting the first item": "C19", "Collection += []": "C19", "Collection += an iterable": "C19", "store bind() without override": "C17",
 "split_uri keeps": "C17", "the JSON-LD parser binds": "C17", "SPARQLStore.contexts": "C20",
 "SPARQLUpdateStore.commit()": "C20", "SPARQLUpdateStore.update(initBindings=)": "C20",
 "SPARQLUpdateStore addresses": "C20", "SPARQLUpdateStore recognises long": "C20", "SPARQL XML results keep": "C16", "SPARQL XML result reader": "C16",
 "SPARQL TSV result reader": "C16", "from_n3 reads the n3 form": "C07", "from_n3 no longer mangles": "C07",
 "pickling or copying": "C07", "ordering literals": "C07", "NaN-valued literals": "C07", "xsd:duration and xsd:yearMonthDuration": "C07", "literal ordering ignores": "C07", "an ill-typed literal is ordered": "C07", "the n3 form of a multi-line": "C07",
 "from_n3 un-escapes": "C07", "the SPARQL parser keeps TAB": "C07", "RDF Patch diff": "C06", "TriG keeps": "C06",
 "the N-Triples parser accepts statements": "C05", "a language tag with": "C05", "parsing from bytes": "C05",
 "N-Triples/N-Quads output validates": "C05", "control characters make": "C05",
 "aggregates with DISTINCT": "C08", "MIN and MAX": "C08", "AVG over xsd:float": "C08", "SUM and AVG over": "C08", "an aggregate skips": "C08", "SUM over a group whose datatypes": "C08", "a prefixed name may end in an escaped dot": "C05",
 "a Literal made from a non-finite": "C09", "normalize() of a binary": "C09", "xsd:normalizedString": "C09",
 "DELETE WHERE matches": "C10", "DELETE WHERE { GRAPH ?g": "C10", "USING and USING NAMED define": "C10", "the TriX parser strips": "C06", "INSERT templates skip": "C10", "a blank node label in an INSERT": "C10",
 "template GRAPH ?g": "C10", "DROP DEFAULT through": "C10", "updates outside GRAPH": "C10", "CLEAR/DROP NAMED": "C10",
 "the TriX parser scopes": "C12", "reading a dataset through": "C13", "listing the graphs of a Dataset": "C13", "SPARQL string literals accept": "C16",
 "the TSV result reader keeps a variable": "C16", "graph canonicalisation only": "C14",
 "the N-Triples/N-Quads parser accepts IRIs": "C03",
 "canonicalisation verifies": "C14", "canonicalisation keeps tying": "C14", "a blank node in predicate position": "C14", "Turtle, long Turtle and N3 serialisation terminates": "C03",
 "the Turtle serialisers write": "C03", "the Turtle serialisers stop": "C03", "the compacting JSON-LD serialiser keeps": "C03", "the Turtle serialisers keep": "C03", "pretty-xml writes": "C03",
 "pretty-xml accepts": "C03", "the Turtle serialisers declare": "C03", "the Turtle shorthand for xsd:decimal": "C03",
 "relative IRI references are resolved": "C05",
 "SPARQL XML results write a carriage return": "C16", "SPARQL XML serialisation refuses": "C16",
 "SPARQL XML results keep a literal's empty datatype": "C16", "the TSV result reader splits lines": "C16", "the CSV result reader splits": "C16",
 "GRAPH over a name that is not a graph": "C04", "a hash join keeps": "C04", "logical-and is false": "C04",
 "a query may declare two prefixes": "C15", "an empty solution passed to QueryContext.clone": "C04",
}

def main():
    log = subprocess.run(["git", "-C", "/repo", "log", "--reverse", "--format=%h%x00%s%x00%b%x01", "21f58a26..HEAD"],
                         capture_output=True, text=True, check=True).stdout
    fixed, unknown = [], []
    for rec in log.split("\x01"):
        rec = rec.strip("\n")
        if not rec:
            continue
        h, subj, body = rec.split("\x00")
        if not subj.startswith("fix:"):
            continue
        s = subj[4:].strip()
        prop = next((p for k, p in PROP.items() if s.startswith(k)), None)
        if prop is None:
            unknown.append(subj)
            prop = "C??"
        what = " ".join(body.split())
        fixed.append(f"fixed: property={prop} {h} {s} -- {what}")
    findings = []
    for f in sorted(glob.glob(os.path.join(V, "known_findings.d", "*.json"))):
        for k in json.load(open(f)).get("findings", []):
            if k.get("status", "open") == "open":
                findings.append(k)
    out = {
        "comment": "Genuine defects of rdflib demonstrated by the checks. 'findings' (status open) are printed as KNOWN-FINDING lines and "
                   "suppress only the failure they describe (trigger predicate true of the case AND the implementation fails exactly as the "
                   "faithful model predicts). 'fixed' entries (one per fix: commit in /repo) suppress nothing. The per-property files under "
                   "known_findings.d/ are the working copies this file is assembled from (tools/consolidate_findings.py); the checks read both "
                   "and never write either.",
        "findings": findings,
        "fixed": fixed,
    }
    json.dump(out, open(os.path.join(V, "known_findings.json"), "w"), indent=1)
    print(len(findings), "open findings;", len(fixed), "fixed;", "unmapped:", unknown)

if __name__ == "__main__":
    main()
