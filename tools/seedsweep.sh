#!/bin/bash
# usage: tools/seedsweep.sh "<seeds>" "<props>" [parallel]   -- runs ./check <prop> (quick) for every seed on /repo; summary on stdout
# (development aid: the unchanged tree must exit 0 for every seed)
cd /verif
SEEDS="$1"; PROPS="$2"; PAR="${3:-3}"
OUT=/var/tmp/rv/sweep; mkdir -p $OUT
for s in $SEEDS; do for p in $PROPS; do echo "$s $p"; done; done | xargs -P "$PAR" -L 1 bash -c '
  s=$0; p=$1; t0=$(date +%s)
  VERIF_SEED=$s timeout 1500 ./check $p > '$OUT'/$p.$s.log 2>&1; rc=$?
  echo "$p seed=$s exit=$rc $(( $(date +%s)-t0 ))s viol=$(grep -c "^VIOLATION" '$OUT'/$p.$s.log) kf=$(grep -c "^KNOWN-FINDING" '$OUT'/$p.$s.log)"'
