#!/bin/bash
# MANIFEST.setup_cmd: build the whole Coq development from the files on disk (full .vo build).
set -e
cd "$(dirname "$0")"
PYTHONHASHSEED=0 /venv/bin/python - <<'PY'
import sys, os
sys.path.insert(0, os.getcwd())
os.environ.setdefault("RV_REPO", "/repo")
import importlib.machinery, importlib.util
loader = importlib.machinery.SourceFileLoader("rvcheck", os.path.join(os.getcwd(), "check"))
spec = importlib.util.spec_from_loader("rvcheck", loader)
m = importlib.util.module_from_spec(spec)
sys.argv = ["check"]
loader.exec_module(m)
ok, log = m.build([])
print(log[-3000:])
if not ok:
    print('WARNING: some Coq files did not build; every check rebuilds and reports its own targets')
sys.exit(0)
PY
