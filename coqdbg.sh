#!/bin/bash
# usage: coqdbg.sh File.v LINE  -- compile a copy with "Show." inserted at end of LINE and print goals
f=$1; n=$2
d=$(dirname $f); b=$(basename $f .v)
awk -v n=$n 'NR==n{print $0 " Show."; next}{print}' $f > $d/${b}Dbg.v
cd /verif/coq && coqc -Q . RV ${f#/verif/coq/}  >/dev/null 2>&1
coqc -Q . RV $d/${b}Dbg.v 2>&1 | head -${3:-60}
rm -f $d/${b}Dbg.* $d/.${b}Dbg.aux
