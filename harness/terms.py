"""Term pools and the structural numbering of terms that crosses the model boundary.

Numbering never calls rdflib's __eq__/__hash__: a term is identified by
(class name, string content, datatype string, lower-cased language)."""
from __future__ import annotations

from .core import import_rdflib

rdflib = import_rdflib()
from rdflib import BNode, Literal, URIRef, Variable  # noqa: E402
from rdflib.namespace import XSD  # noqa: E402


def tkey(t):
    cls = type(t).__name__
    if isinstance(t, Literal):
        dt = t.datatype
        lang = t.language
        return (cls, str.__str__(t), None if dt is None else str.__str__(dt),
                None if lang is None else str.__str__(lang).lower())
    return (cls, str.__str__(t), None, None)


# A deliberately small vocabulary: collisions, re-adds and shared triples are
# frequent; falsy terms ("" 0 false) are always present.
TERM_POOL = [
    URIRef("http://e/a"),          # 1
    URIRef("http://e/b"),          # 2
    URIRef("http://e/p"),          # 3
    URIRef("http://e/q"),          # 4
    Literal(""),                   # 5  falsy
    Literal(0),                    # 6  falsy
    Literal(False),                # 7  falsy
    BNode("b1"),                   # 8
    Literal("x", lang="en"),       # 9
    Literal("x"),                  # 10
    Literal("1", datatype=XSD.integer),  # 11
    URIRef("http://e/c"),          # 12
    BNode("b2"),                   # 13
    Literal(0.0),                  # 14 falsy
]
TERM_ID = {tkey(t): i + 1 for i, t in enumerate(TERM_POOL)}
assert len(TERM_ID) == len(TERM_POOL)

# graph names; cid 0 is reserved for the default graph of the front end in use
GRAPH_POOL = [
    URIRef("urn:g:1"),   # 1
    URIRef("urn:g:2"),   # 2
    BNode("urn:g:1"),    # 3  blank-node name with the same string as graph 1
    BNode("g4"),         # 4
    URIRef("urn:g:5"),   # 5
]
GRAPH_ID = {tkey(t): i + 1 for i, t in enumerate(GRAPH_POOL)}


def term(i):
    return TERM_POOL[i - 1]


def term_id(t, extra=None):
    k = tkey(t)
    if k in TERM_ID:
        return TERM_ID[k]
    if extra is not None:
        if k not in extra:
            extra[k] = 1000 + len(extra)
        return extra[k]
    return 999


def gname(i, default_id=None):
    if i == 0:
        return default_id
    return GRAPH_POOL[i - 1]


def graph_id(ident, default_id=None):
    if default_id is not None and tkey(ident) == tkey(default_id):
        return 0
    return GRAPH_ID.get(tkey(ident), 998)


def triple_of(t3):
    return tuple(term(i) for i in t3)


def triple_ids(t):
    return [term_id(x) for x in t]
