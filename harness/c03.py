"""C03, graph level: generated RDF graphs, the isomorphism oracle and the
serialise -> parse driver.  Pure Python (conformance testing, no Coq model
behind it); used by the `roundtrip` suite of harness/c03.py.

Abstract terms (JSON-able):
  ["I", iri]                      IRI
  ["B", label]                    blank node
  ["L", lex, lang|None, dt|None]  literal, built with normalize=False so that the
                                  lexical form is exactly `lex`
A graph is a list of [s, p, o] of such terms.
"""
from __future__ import annotations

import logging
import warnings

from .core import import_rdflib

rdflib = import_rdflib()
warnings.filterwarnings("ignore")
logging.getLogger("rdflib").setLevel(logging.CRITICAL)
logging.getLogger("rdflib.term").setLevel(logging.CRITICAL)

from rdflib import BNode, Graph, Literal, URIRef  # noqa: E402

XSD = "http://www.w3.org/2001/XMLSchema#"
RDFNS = "http://www.w3.org/1999/02/22-rdf-syntax-ns#"
FIRST, REST, NIL, TYPE = RDFNS + "first", RDFNS + "rest", RDFNS + "nil", RDFNS + "type"

FORMATS = ["nt", "turtle", "longturtle", "n3", "xml", "pretty-xml", "json-ld", "hext"]
PARSER_OF = {"longturtle": "turtle", "pretty-xml": "xml"}

# the characters the text-level proofs split on
ALPHABET = ["\\", '"', "'", "\n", "\r", "\t", "u", "U", "0", "a", "é", "\U0001F600", " ", " "]


def to_term(t):
    if t[0] == "I":
        return URIRef(t[1])
    if t[0] == "B":
        return BNode(t[1])
    return Literal(t[1], lang=t[2], datatype=None if t[3] is None else URIRef(t[3]), normalize=False)


def build(graph, bind=None):
    g = Graph()
    for prefix, ns in bind or []:
        g.bind(prefix, ns)
    for s, p, o in graph:
        g.add((to_term(s), to_term(p), to_term(o)))
    return g


def key(t, hext=False):
    """structural key of an rdflib term; never uses rdflib __eq__/__hash__"""
    if isinstance(t, Literal):
        dt = None if t.datatype is None else str.__str__(t.datatype)
        lang = None if t.language is None else str.__str__(t.language).lower()
        if hext and dt == XSD + "string":
            dt = None  # RDF 1.1: simple literal = xsd:string, the only identification allowed
        return ("L", str.__str__(t), lang, dt)
    if isinstance(t, BNode):
        return ("B", str.__str__(t))
    if isinstance(t, URIRef):
        return ("I", str.__str__(t))
    return ("?", type(t).__name__, str.__str__(t))


def keys_of_graph(g, hext=False):
    return {tuple(key(x, hext) for x in t) for t in g}


def keys_of_abstract(graph, hext=False):
    out = set()
    for t in graph:
        row = []
        for x in t:
            if x[0] == "L":
                lang = None if x[2] is None else x[2].lower()
                dt = x[3]
                if hext and dt == XSD + "string":
                    dt = None
                row.append(("L", x[1], lang, dt))
            else:
                row.append((x[0], x[1]))
        out.add(tuple(row))
    return out


# ---------------------------------------------------------------- isomorphism
def _is_b(k):
    return k[0] == "B"


def isomorphic(A, B):
    """A, B: sets of triples of keys.  True iff equal up to a bijection of blank nodes.
    Plain backtracking with a local-signature filter; graphs are small."""
    if len(A) != len(B):
        return False
    gA = {t for t in A if not any(_is_b(x) for x in t)}
    gB = {t for t in B if not any(_is_b(x) for x in t)}
    if gA != gB:
        return False
    A = [t for t in A if t not in gA]
    B = {t for t in B if t not in gB}

    def sig(n, G):
        s = []
        for t in G:
            for pos in range(3):
                if t[pos] == n:
                    s.append((pos,) + tuple(("*" if x == n else "B") if _is_b(x) else x for x in t))
        return tuple(sorted(s, key=repr))

    nA = sorted({x for t in A for x in t if _is_b(x)})
    nB = sorted({x for t in B for x in t if _is_b(x)})
    if len(nA) != len(nB):
        return False
    sB = {}
    for n in nB:
        sB.setdefault(sig(n, B), []).append(n)
    cand = {}
    for n in nA:
        cand[n] = sB.get(sig(n, A), [])
        if not cand[n]:
            return False
    order = sorted(nA, key=lambda n: len(cand[n]))
    m, used = {}, set()

    def consistent():
        for t in A:
            if all((not _is_b(x)) or x in m for x in t):
                if tuple(m[x] if _is_b(x) else x for x in t) not in B:
                    return False
        return True

    def go(i):
        if i == len(order):
            return True
        n = order[i]
        for c in cand[n]:
            if c in used:
                continue
            m[n] = c
            used.add(c)
            if consistent() and go(i + 1):
                return True
            del m[n]
            used.discard(c)
        return False

    return go(0)


# ---------------------------------------------------------------- driver
def roundtrip(graph, fmt, base=None, bind=None, extra=None):
    """-> (verdict, detail); verdict 'ok' | 'differs' | 'ser-exc' | 'parse-exc'"""
    g = build(graph, bind)
    hext = fmt == "hext"
    kw = dict(extra or {})
    if base is not None:
        kw["base"] = base
    try:
        data = g.serialize(format=fmt, **kw)
    except Exception as e:  # noqa: BLE001
        return "ser-exc", f"{type(e).__name__}: {e}"[:300]
    try:
        g2 = Graph()
        g2.parse(data=data, format=PARSER_OF.get(fmt, fmt))
    except Exception as e:  # noqa: BLE001
        return "parse-exc", f"{type(e).__name__}: {e}"[:300] + " | " + repr(data)[:400]
    A = keys_of_abstract(graph, hext)
    B = keys_of_graph(g2, hext)
    if isomorphic(A, B):
        return "ok", ""
    return "differs", "missing " + repr(sorted(A - B, key=repr)[:3]) + " extra " + repr(sorted(B - A, key=repr)[:3]) \
        + " | " + repr(data)[:600]
