"""C03, graph level: generated RDF graphs, the isomorphism oracle and the
serialise -> parse driver.  Pure Python (conformance testing, no Coq model
behind it); used by the `roundtrip` suite of harness/c03.py.

Abstract terms (JSON-able):
  ["I", iri]                      IRI
  ["B", label]                    blank node
  ["L", lex, lang|None, dt|None]  literal, built with normalize=False so that the
                                  lexical form is exactly `lex`
A graph is a list of [s, p, o] of such terms.
"""
from __future__ import annotations

import logging
import warnings

from .core import CaseTimeout, import_rdflib

rdflib = import_rdflib()
warnings.filterwarnings("ignore")
logging.getLogger("rdflib").setLevel(logging.CRITICAL)
logging.getLogger("rdflib.term").setLevel(logging.CRITICAL)

from rdflib import BNode, Graph, Literal, URIRef  # noqa: E402

XSD = "http://www.w3.org/2001/XMLSchema#"
RDFNS = "http://www.w3.org/1999/02/22-rdf-syntax-ns#"
FIRST, REST, NIL, TYPE = RDFNS + "first", RDFNS + "rest", RDFNS + "nil", RDFNS + "type"

FORMATS = ["nt", "turtle", "longturtle", "n3", "xml", "pretty-xml", "json-ld", "hext"]
PARSER_OF = {"longturtle": "turtle", "pretty-xml": "xml"}

# the characters the text-level proofs split on
ALPHABET = ["\\", '"', "'", "\n", "\r", "\t", "u", "U", "0", "a", "\u00e9", "\U0001F600", "\u00a0", "\u2028"]


def to_term(t):
    if t[0] == "I":
        return URIRef(t[1])
    if t[0] == "B":
        return BNode(t[1])
    return Literal(t[1], lang=t[2], datatype=None if t[3] is None else URIRef(t[3]), normalize=False)


def build(graph, bind=None):
    g = Graph()
    for prefix, ns in bind or []:
        g.bind(prefix, ns)
    for s, p, o in graph:
        g.add((to_term(s), to_term(p), to_term(o)))
    return g


def key(t, hext=False):
    """structural key of an rdflib term; never uses rdflib __eq__/__hash__"""
    if isinstance(t, Literal):
        dt = None if t.datatype is None else str.__str__(t.datatype)
        lang = None if t.language is None else str.__str__(t.language).lower()
        if hext and dt == XSD + "string":
            dt = None  # RDF 1.1: simple literal = xsd:string, the only identification allowed
        return ("L", str.__str__(t), lang, dt)
    if isinstance(t, BNode):
        return ("B", str.__str__(t))
    if isinstance(t, URIRef):
        return ("I", str.__str__(t))
    return ("?", type(t).__name__, str.__str__(t))


def keys_of_graph(g, hext=False):
    return {tuple(key(x, hext) for x in t) for t in g}


def keys_of_abstract(graph, hext=False):
    out = set()
    for t in graph:
        row = []
        for x in t:
            if x[0] == "L":
                lang = None if x[2] is None else x[2].lower()
                dt = x[3]
                if hext and dt == XSD + "string":
                    dt = None
                row.append(("L", x[1], lang, dt))
            else:
                row.append((x[0], x[1]))
        out.add(tuple(row))
    return out


# ---------------------------------------------------------------- isomorphism
def _is_b(k):
    return k[0] == "B"


def isomorphic(A, B):
    """A, B: sets of triples of keys.  True iff equal up to a bijection of blank nodes.
    Plain backtracking with a local-signature filter; graphs are small."""
    if len(A) != len(B):
        return False
    gA = {t for t in A if not any(_is_b(x) for x in t)}
    gB = {t for t in B if not any(_is_b(x) for x in t)}
    if gA != gB:
        return False
    A = [t for t in A if t not in gA]
    B = {t for t in B if t not in gB}

    def sig(n, G):
        s = []
        for t in G:
            for pos in range(3):
                if t[pos] == n:
                    s.append((pos,) + tuple(("*" if x == n else "B") if _is_b(x) else x for x in t))
        return tuple(sorted(s, key=repr))

    nA = sorted({x for t in A for x in t if _is_b(x)})
    nB = sorted({x for t in B for x in t if _is_b(x)})
    if len(nA) != len(nB):
        return False
    sB = {}
    for n in nB:
        sB.setdefault(sig(n, B), []).append(n)
    cand = {}
    for n in nA:
        cand[n] = sB.get(sig(n, A), [])
        if not cand[n]:
            return False
    order = sorted(nA, key=lambda n: len(cand[n]))
    m, used = {}, set()

    def consistent():
        for t in A:
            if all((not _is_b(x)) or x in m for x in t):
                if tuple(m[x] if _is_b(x) else x for x in t) not in B:
                    return False
        return True

    def go(i):
        if i == len(order):
            return True
        n = order[i]
        for c in cand[n]:
            if c in used:
                continue
            m[n] = c
            used.add(c)
            if consistent() and go(i + 1):
                return True
            del m[n]
            used.discard(c)
        return False

    return go(0)


# ---------------------------------------------------------------- driver
def roundtrip(graph, fmt, base=None, bind=None, extra=None):
    """-> (verdict, detail); verdict 'ok' | 'differs' | 'ser-exc' | 'parse-exc'"""
    g = build(graph, bind)
    hext = fmt == "hext"
    kw = dict(extra or {})
    if base is not None:
        kw["base"] = base
    try:
        data = g.serialize(format=fmt, **kw)
    except CaseTimeout:
        raise
    except Exception as e:  # noqa: BLE001
        return "ser-exc", f"{type(e).__name__}: {e}"[:300]
    try:
        g2 = Graph()
        # the document is read back the way it was written: same base (Turtle and RDF/XML also carry it inside)
        g2.parse(data=data, format=PARSER_OF.get(fmt, fmt), **({} if base is None else {"publicID": base}))
    except CaseTimeout:
        raise
    except Exception as e:  # noqa: BLE001
        return "parse-exc", f"{type(e).__name__}: {e}"[:300] + " | " + repr(data)[:400]
    A = keys_of_abstract(graph, hext)
    B = keys_of_graph(g2, hext)
    if isomorphic(A, B):
        return "ok", ""
    return "differs", "missing " + repr(sorted(A - B, key=repr)[:3]) + " extra " + repr(sorted(B - A, key=repr)[:3]) \
        + " | " + repr(data)[:600]


# ---------------------------------------------------------------- graph generator
def I(x):  # noqa: E743
    return ["I", x]


def Bn(x):
    return ["B", x]


def L(lex, lang=None, dt=None):
    return ["L", lex, lang, dt]


COMMON_IRIS = ["http://e/a", "http://e/b", "http://e/ns#x", "urn:x:y", "http://e/c"]
EXOTIC_IRIS = [
    "http://e/", "http://e/ns#", "http://e/1", "http://e/a.b", "http://e/a.", "http://e/a-b", "http://e/-a",
    "http://e/a%20b", "http://e/a,b", "http://e/(x)", "http://e/a'b", "http://e/a:b", "http://e/a/b/",
    "http://e/é", "http://e/~x", "mailto:x@y", "http://e/_a", "http://e/a;b", "http://e/a?b=c&d",
    "http://e/ns#a#b", "http://e/a$b", "http://e/a*b", "http://e/a!b", "http://e/a@b", "http://e/a+b",
    "http://e/a=b", "http://other.org/x", "file:///x/y", "http://e/\U0001F600", "http://e/a\u00a0b",
    "http://e/a\u2028b", "http://e/ns#", "http://e/a&b", "http://e", "http://e/a/../b",
    "http://e/ns#1x", "http://e/a·b", "http://e/x/a", "http://e/x#a", "a:b", "http://e/%C3%A9",
    RDFNS + "List", RDFNS + "nil", RDFNS + "_1", XSD + "integer",
]
# predicates: (iri, expressible as an XML element name)
COMMON_PREDS = ["http://e/p", "http://e/q", "http://e/ns#r", TYPE]
EXOTIC_PREDS = [("http://e/p.q", True), ("http://e/p-q", True), ("urn:x:p", True), ("http://e/é", True),
                ("http://e/_p", True), ("http://e/1p", True), ("http://e/ns#p1", True), ("http://other.org/p", True),
                ("http://e/p.", True), (RDFNS + "_1", True), (RDFNS + "value", True), ("http://e/x/p", True),
                ("http://e/", False), ("http://e/1", False), ("http://e/p/", False), ("http://e/ns#", False),
                ("http://e/p%20", False)]
XML_UNSPLITTABLE = {p for p, ok in EXOTIC_PREDS if not ok}

LANGS = ["en", "en-US", "fr", "x-a1-b", "EN"]
TYPED = {
    XSD + "integer": ["0", "1", "-5", "12345678901234567890", "007", "+3", " 1", "abc", ""],
    XSD + "decimal": ["1.5", "0.0", "1.0", "-0.5", "1", "1.50", ".5", "100000000000000000000.5", "1e2", "0.1234567890123456789"],
    XSD + "double": ["1.0", "0.1", "1.5e+30", "-2.5", "1e0", "1E+30", "0.123456789", "123456789.0", "INF", "-INF", "NaN",
                     "1.7976931348623157e+308", "5e-324", "-0.0", "abc", "100000.0", "1.234567", "12345678.0"],
    XSD + "float": ["1.0", "0.1", "1.5", "0.123456789", "INF"],
    XSD + "boolean": ["true", "false", "1", "0", "TRUE"],
    XSD + "date": ["2020-01-01", "2020-01-01Z", "2020-1-1"],
    XSD + "dateTime": ["2020-01-01T00:00:00", "2020-01-01T00:00:00Z", "2020-01-01T00:00:00+01:00", "2020-01-01T00:00:00.500000"],
    XSD + "gYear": ["2020", "-0001"],
    XSD + "duration": ["P1D", "PT1H30M"],
    XSD + "anyURI": ["http://e/a", "a b"],
    XSD + "hexBinary": ["0FB7", "0fb7"],
    XSD + "base64Binary": ["AAEC", "AA EC"],
    XSD + "long": ["1", "01"],
    XSD + "nonNegativeInteger": ["1", "-1"],
    RDFNS + "XMLLiteral": ["<a>x</a>", "x", "<b/>", "a<b", "<a xmlns=\"http://e/\">x</a>", ""],
    RDFNS + "HTML": ["<p>x</p>", "x", "<p>x"],
    RDFNS + "JSON": ['{"a": 1}', "[1,2]", '"s"', "{"],
    RDFNS + "langString": ["x"],
    "http://e/dt": None, XSD + "string": None, XSD + "normalizedString": None, XSD + "token": None,
}
COMMON_DTS = [XSD + "integer", XSD + "decimal", XSD + "double", XSD + "boolean", XSD + "string", "http://e/dt"]


_CANON = {}


def is_canonical(lex, dt):
    """does Literal(lex, datatype=dt) (normalising constructor, what every parser calls) keep the lexical form?"""
    k = (lex, dt)
    if k not in _CANON:
        try:
            _CANON[k] = str.__str__(Literal(lex, datatype=URIRef(dt))) == lex
        except Exception:  # noqa: BLE001
            _CANON[k] = False
    return _CANON[k]


def gen_string(rng):
    r = rng.random()
    if r < 0.25:
        return rng.choice(["x", "hello world", "", "a", "0"])
    n = rng.choice([1, 1, 2, 2, 3, 3, 4, 6])
    return "".join(rng.choice(ALPHABET) for _ in range(n))


def gen_literal(rng):
    r = rng.random()
    if r < 0.30:
        return L(gen_string(rng))
    if r < 0.42:
        return L(gen_string(rng), lang=rng.choice(LANGS))
    dt = rng.choice(COMMON_DTS) if rng.random() < 0.6 else rng.choice(sorted(TYPED))
    pool = TYPED[dt]
    if pool is None:
        return L(gen_string(rng), dt=dt)
    # mostly lexical forms that rdflib's own Literal constructor leaves alone
    canon = [x for x in pool if is_canonical(x, dt)]
    if canon and rng.random() < 0.85:
        return L(rng.choice(canon), dt=dt)
    return L(rng.choice(pool), dt=dt)


def gen_list(rng, out, members, head=None, fresh=None):
    """well-formed rdf:List; returns its head term"""
    if not members:
        return I(NIL)
    cells = [fresh() for _ in members]
    if head is not None:
        cells[0] = head
    for i, m in enumerate(members):
        out.append([cells[i], I(FIRST), m])
        out.append([cells[i], I(REST), cells[i + 1] if i + 1 < len(cells) else I(NIL)])
    return cells[0]


def gen_graph(rng):
    """-> (triples, tags) ; tags name the shapes used (for the distribution report)"""
    out, tags = [], []
    counter = [0]

    def fresh():
        counter[0] += 1
        return Bn("b%d" % counter[0])

    exotic = rng.random() < 0.35
    iris = list(COMMON_IRIS)
    preds = [I(p) for p in COMMON_PREDS]
    if exotic:
        iris += rng.sample(EXOTIC_IRIS, rng.choice([1, 2, 3]))
        if rng.random() < 0.5:
            preds.append(I(rng.choice(EXOTIC_PREDS)[0]))
            tags.append("exotic_pred")
        tags.append("exotic_iri")

    def iri():
        return I(rng.choice(iris[-3:] if exotic and rng.random() < 0.5 else iris))

    def pred():
        return rng.choice(preds[-2:] if rng.random() < 0.3 else preds)

    def fixtype(t):
        # rdf:type with a non-IRI object is legal but rare
        if t[1][1] == TYPE and t[2] is not None and t[2][0] != "I" and rng.random() < 0.9:
            return [t[0], preds[0], t[2]]
        return t

    def obj(depth=0):
        r = rng.random()
        if r < 0.45:
            return gen_literal(rng)
        if r < 0.75 or depth > 1:
            return iri()
        return None  # caller makes a blank node

    def subj():
        return iri()

    nshapes = rng.choice([1, 1, 2, 2, 3, 4])
    bnodes = []
    for _ in range(nshapes):
        shape = rng.choice(["flat", "flat", "tree", "dag", "cycle", "selfloop", "list", "list", "badlist", "orphan",
                            "listsubj", "nestedlist", "bnodesubj", "type"])
        tags.append(shape)
        if shape == "flat":
            s = subj()
            for _ in range(rng.choice([1, 2, 3])):
                o = obj(2)
                out.append([s, pred(), o])
        elif shape == "type":
            out.append([rng.choice(bnodes) if bnodes and rng.random() < 0.3 else subj(), I(TYPE), iri()])
        elif shape == "tree":
            def tree(s, d):
                for _ in range(rng.choice([1, 2])):
                    o = obj(d)
                    if o is None:
                        o = fresh()
                        bnodes.append(o)
                        out.append([s, pred(), o])
                        if rng.random() < 0.8:   # else: an empty [] object
                            tree(o, d + 1)
                    else:
                        out.append([s, pred(), o])
            root = subj() if rng.random() < 0.8 else fresh()
            b = fresh()
            bnodes.append(b)
            out.append([root, pred(), b])
            tree(b, 1)
        elif shape == "dag":
            b = fresh()
            bnodes.append(b)
            out.append([b, pred(), obj(2) or iri()])
            for _ in range(2):
                out.append([subj() if rng.random() < 0.7 else rng.choice(bnodes), pred(), b])
        elif shape == "cycle":
            n = rng.choice([2, 2, 3])
            cyc = [fresh() for _ in range(n)]
            bnodes.extend(cyc)
            p = pred()
            for i in range(n):
                out.append([cyc[i], p if rng.random() < 0.7 else pred(), cyc[(i + 1) % n]])
            if rng.random() < 0.4:
                out.append([subj(), pred(), cyc[0]])   # otherwise: no IRI entry point
            if rng.random() < 0.4:
                out.append([cyc[-1], pred(), gen_literal(rng)])
        elif shape == "selfloop":
            b = fresh()
            bnodes.append(b)
            out.append([b, pred(), b])
            if rng.random() < 0.5:
                out.append([subj(), pred(), b])
        elif shape == "orphan":
            b = fresh()
            bnodes.append(b)
            out.append([b, pred(), obj(2) or iri()])
        elif shape == "bnodesubj":
            b = rng.choice(bnodes) if bnodes else fresh()
            out.append([b, pred(), obj(2) or iri()])
        elif shape in ("list", "listsubj", "nestedlist"):
            members = [obj(2) or iri() for _ in range(rng.choice([0, 1, 2, 3]))]
            if shape == "nestedlist":
                inner = gen_list(rng, out, [obj(2) or iri() for _ in range(rng.choice([0, 1, 2]))], fresh=fresh)
                members.insert(rng.randrange(len(members) + 1), inner)
            if rng.random() < 0.15 and members:
                members[rng.randrange(len(members))] = fresh()   # blank node member without properties
            h = gen_list(rng, out, members, fresh=fresh)
            if shape == "listsubj":
                if rng.random() < 0.7:
                    out.append([h, pred(), obj(2) or iri()])
                # else the list is referenced by nobody
            else:
                out.append([subj() if rng.random() < 0.8 or not bnodes else rng.choice(bnodes), pred(), h])
                if rng.random() < 0.15:
                    out.append([subj(), pred(), h])   # list shared by two subjects
        elif shape == "badlist":
            kind = rng.choice(["cyclic", "cyclic1", "sharedtail", "norest", "nofirst", "twofirst", "tworest", "restiri",
                               "extra", "irihead", "midref", "nilprops", "typed", "restlit"])
            tags.append("badlist_" + kind)
            a, b, c = fresh(), fresh(), fresh()
            m = [obj(2) or iri() for _ in range(3)]
            ref = [subj(), pred(), a]
            if kind == "cyclic":
                out += [[a, I(FIRST), m[0]], [a, I(REST), b], [b, I(FIRST), m[1]], [b, I(REST), a]]
                if rng.random() < 0.5:
                    ref = None
            elif kind == "cyclic1":
                out += [[a, I(FIRST), m[0]], [a, I(REST), a]]
                if rng.random() < 0.5:
                    ref = None
            elif kind == "sharedtail":
                out += [[a, I(FIRST), m[0]], [a, I(REST), c], [b, I(FIRST), m[1]], [b, I(REST), c],
                        [c, I(FIRST), m[2]], [c, I(REST), I(NIL)], [subj(), pred(), b]]
            elif kind == "norest":
                out += [[a, I(FIRST), m[0]], [a, I(REST), b], [b, I(FIRST), m[1]]]
            elif kind == "nofirst":
                out += [[a, I(FIRST), m[0]], [a, I(REST), b], [b, I(REST), I(NIL)]]
            elif kind == "twofirst":
                out += [[a, I(FIRST), m[0]], [a, I(FIRST), m[1]], [a, I(REST), I(NIL)]]
            elif kind == "tworest":
                out += [[a, I(FIRST), m[0]], [a, I(REST), I(NIL)], [a, I(REST), b], [b, I(FIRST), m[1]], [b, I(REST), I(NIL)]]
            elif kind == "restiri":
                out += [[a, I(FIRST), m[0]], [a, I(REST), iri()]]
            elif kind == "restlit":
                out += [[a, I(FIRST), m[0]], [a, I(REST), gen_literal(rng)]]
            elif kind == "extra":
                out += [[a, I(FIRST), m[0]], [a, I(REST), b], [b, I(FIRST), m[1]], [b, I(REST), I(NIL)],
                        [rng.choice([a, b]), pred(), obj(2) or iri()]]
            elif kind == "typed":
                out += [[a, I(FIRST), m[0]], [a, I(REST), I(NIL)], [a, I(TYPE), I(RDFNS + "List")]]
            elif kind == "irihead":
                h = iri()
                out += [[h, I(FIRST), m[0]], [h, I(REST), b], [b, I(FIRST), m[1]], [b, I(REST), I(NIL)]]
                ref = [subj(), pred(), h] if rng.random() < 0.5 else None
            elif kind == "midref":
                out += [[a, I(FIRST), m[0]], [a, I(REST), b], [b, I(FIRST), m[1]], [b, I(REST), I(NIL)],
                        [subj(), pred(), b]]
            elif kind == "nilprops":
                out += [[I(NIL), pred(), obj(2) or iri()]]
                ref = [subj(), pred(), I(NIL)]
            if ref:
                out.append(ref)
    # de-duplicate, keep order
    seen, res = set(), []
    for t in out:
        t = fixtype([x if x is not None else iri() for x in t])
        k = repr(t)
        if k not in seen:
            seen.add(k)
            res.append(t)
    return res, tags


# ---------------------------------------------------------------- input-side triggers of the known findings
TURTLE_FAMILY = ("turtle", "longturtle", "n3")
XML_FAMILY = ("xml", "pretty-xml")
PY_SPACE = [c for c in map(chr, range(0x3001)) if c.isspace()]


def literals_of(graph):
    for t in graph:
        for x in t:
            if x[0] == "L":
                yield x


def iris_of(graph):
    for t in graph:
        for x in t:
            if x[0] == "I":
                yield x[1]
            elif x[0] == "L" and x[3] is not None:
                yield x[3]


def xml_inexpressible(graph):
    """the graph has a predicate that no XML QName can spell: RDF/XML cannot express it"""
    return any(t[1][1] in XML_UNSPLITTABLE for t in graph)


def _incoming(graph):
    inc = {}
    for t in graph:
        if t[2][0] == "B":
            inc.setdefault(t[2][1], []).append(t)
    return inc


def rest_cycle(graph):
    nxt = {}
    for t in graph:
        if t[1][1] == REST and t[0][0] == "B" and t[2][0] == "B":
            nxt.setdefault(t[0][1], []).append(t[2][1])
    for start in nxt:
        seen, todo = set(), [start]
        while todo:
            n = todo.pop()
            for m in nxt.get(n, []):
                if m == start:
                    return True
                if m not in seen:
                    seen.add(m)
                    todo.append(m)
    return False


def shared_list_cell(graph):
    """a blank node with rdf:first that is reached by rdf:rest and is referenced at least twice"""
    inc = _incoming(graph)
    firsts = {t[0][1] for t in graph if t[0][0] == "B" and t[1][1] == FIRST}
    for b, ts in inc.items():
        if b in firsts and len(ts) >= 2 and any(t[1][1] == REST for t in ts):
            return True
    return False


def bad_relative(graph, base):
    """an IRI under the base whose remainder, written as a relative reference, resolves elsewhere"""
    from urllib.parse import urljoin
    for u in iris_of(graph):
        if u.startswith(base):
            rest = u.replace(base, "", 1)
            if "#" in u.replace(base, "") or "/" in u.replace(base, ""):
                continue
            if urljoin(base, rest, allow_fragments=True) != u:
                return True
    return False


def triggers(graph, fmt, base=None, bind=None):
    """Finding ids whose *input-side* trigger holds (see known_findings.d/C03.json).  Ordered."""
    out = []
    lits = list(literals_of(graph))
    if any(x[3] is not None and not is_canonical(x[1], x[3]) for x in lits):
        out.append("F15c")
    if fmt == "nt" and any(c in u for u in iris_of(graph) for c in PY_SPACE):
        out.append("F15b")
    if fmt in TURTLE_FAMILY:
        for x in lits:
            if x[3] == XSD + "double":
                try:
                    v = float(x[1])
                except ValueError:
                    continue
                if v == v and v not in (float("inf"), float("-inf")) and float("%e" % v) != v:
                    out.append("F15")
                    break
        if any(x[3] == XSD + "decimal" and is_canonical(x[1], x[3]) and not any(c in x[1] for c in ".eE") for x in lits):
            out.append("F15d")
        if rest_cycle(graph):
            out.append("F15e")
        if shared_list_cell(graph):
            out.append("F15f")
        if any(t[1][1] == REST and t[2][0] == "L" and not bool(to_term(t[2])) for t in graph):
            out.append("F15h")
    if fmt in TURTLE_FAMILY + XML_FAMILY and base is not None and bad_relative(graph, base):
        out.append("F15g")
    return out
