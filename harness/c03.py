"""C03, graph level: generated RDF graphs, the isomorphism oracle and the
serialise -> parse driver.  Pure Python (conformance testing, no Coq model
behind it); used by the `roundtrip` suite of harness/c03.py.

Abstract terms (JSON-able):
  ["I", iri]                      IRI
  ["B", label]                    blank node
  ["L", lex, lang|None, dt|None]  literal, built with normalize=False so that the
                                  lexical form is exactly `lex`
A graph is a list of [s, p, o] of such terms.
"""
from __future__ import annotations

import io as io_mod
import re
import logging
import os
import warnings

from .core import CaseTimeout, import_rdflib

rdflib = import_rdflib()
warnings.filterwarnings("ignore")
logging.getLogger("rdflib").setLevel(logging.CRITICAL)
logging.getLogger("rdflib.term").setLevel(logging.CRITICAL)

from rdflib import BNode, Graph, Literal, URIRef  # noqa: E402

XSD = "http://www.w3.org/2001/XMLSchema#"
RDFNS = "http://www.w3.org/1999/02/22-rdf-syntax-ns#"
FIRST, REST, NIL, TYPE = RDFNS + "first", RDFNS + "rest", RDFNS + "nil", RDFNS + "type"

FORMATS = ["nt", "turtle", "longturtle", "n3", "xml", "pretty-xml", "json-ld", "hext"]
PARSER_OF = {"longturtle": "turtle", "pretty-xml": "xml"}

# the characters the text-level proofs split on
ALPHABET = ["\\", '"', "'", "\n", "\r", "\t", "u", "U", "0", "a", "\u00e9", "\U0001F600", "\u00a0", "\u2028"]


def to_term(t):
    if t[0] == "I":
        return URIRef(t[1])
    if t[0] == "B":
        return BNode(t[1])
    return Literal(t[1], lang=t[2], datatype=None if t[3] is None else URIRef(t[3]), normalize=False)


def build(graph, bind=None):
    g = Graph()
    for prefix, ns in bind or []:
        g.bind(prefix, ns)
    for s, p, o in graph:
        g.add((to_term(s), to_term(p), to_term(o)))
    return g


def key(t, hext=False):
    """structural key of an rdflib term; never uses rdflib __eq__/__hash__"""
    if isinstance(t, Literal):
        dt = None if t.datatype is None else str.__str__(t.datatype)
        lang = None if t.language is None else str.__str__(t.language).lower()
        if hext and dt == XSD + "string":
            dt = None  # RDF 1.1: simple literal = xsd:string, the only identification allowed
        return ("L", str.__str__(t), lang, dt)
    if isinstance(t, BNode):
        return ("B", str.__str__(t))
    if isinstance(t, URIRef):
        return ("I", str.__str__(t))
    return ("?", type(t).__name__, str.__str__(t))


def keys_of_graph(g, hext=False):
    return {tuple(key(x, hext) for x in t) for t in g}


def keys_of_abstract(graph, hext=False):
    out = set()
    for t in graph:
        row = []
        for x in t:
            if x[0] == "L":
                lang = None if x[2] is None else x[2].lower()
                dt = x[3]
                if hext and dt == XSD + "string":
                    dt = None
                row.append(("L", x[1], lang, dt))
            else:
                row.append((x[0], x[1]))
        out.add(tuple(row))
    return out


# ---------------------------------------------------------------- isomorphism
def _is_b(k):
    return k[0] == "B"


def isomorphic(A, B):
    """A, B: sets of triples of keys.  True iff equal up to a bijection of blank nodes.
    Plain backtracking with a local-signature filter; graphs are small."""
    if len(A) != len(B):
        return False
    gA = {t for t in A if not any(_is_b(x) for x in t)}
    gB = {t for t in B if not any(_is_b(x) for x in t)}
    if gA != gB:
        return False
    A = [t for t in A if t not in gA]
    B = {t for t in B if t not in gB}

    def sig(n, G):
        s = []
        for t in G:
            for pos in range(3):
                if t[pos] == n:
                    s.append((pos,) + tuple(("*" if x == n else "B") if _is_b(x) else x for x in t))
        return tuple(sorted(s, key=repr))

    nA = sorted({x for t in A for x in t if _is_b(x)})
    nB = sorted({x for t in B for x in t if _is_b(x)})
    if len(nA) != len(nB):
        return False
    sB = {}
    for n in nB:
        sB.setdefault(sig(n, B), []).append(n)
    cand = {}
    for n in nA:
        cand[n] = sB.get(sig(n, A), [])
        if not cand[n]:
            return False
    order = sorted(nA, key=lambda n: len(cand[n]))
    m, used = {}, set()

    def consistent():
        for t in A:
            if all((not _is_b(x)) or x in m for x in t):
                if tuple(m[x] if _is_b(x) else x for x in t) not in B:
                    return False
        return True

    def go(i):
        if i == len(order):
            return True
        n = order[i]
        for c in cand[n]:
            if c in used:
                continue
            m[n] = c
            used.add(c)
            if consistent() and go(i + 1):
                return True
            del m[n]
            used.discard(c)
        return False

    return go(0)


# ---------------------------------------------------------------- driver
IO_MODES = ["path", "file", "bytesio", "bytes"]
_IO_DIR = os.path.join(os.path.dirname(os.path.dirname(os.path.abspath(__file__))), "build", "c03_io")
_io_counter = [0]


_last = {"A": None, "B": None, "exc": None}    # key sets / exception of the most recent roundtrip() call


def roundtrip(graph, fmt, base=None, bind=None, extra=None, io=None):
    """-> (verdict, detail); verdict 'ok' | 'differs' | 'ser-exc' | 'parse-exc'.
    io=None: serialise to a str and parse data=str.  io in IO_MODES: serialise to a real file
    (destination=path, UTF-8) and read the bytes back from the path / an open binary file / a BytesIO / bytes."""
    g = build(graph, bind)
    hext = fmt == "hext"
    kw = dict(extra or {})
    if base is not None:
        kw["base"] = base
    pkw = {} if base is None else {"publicID": base}
    pfmt = PARSER_OF.get(fmt, fmt)
    path = None
    try:
        try:
            if io is None:
                data = g.serialize(format=fmt, **kw)
            else:
                os.makedirs(_IO_DIR, exist_ok=True)
                _io_counter[0] += 1
                path = os.path.join(_IO_DIR, "%d_%d.%s" % (os.getpid(), _io_counter[0], fmt.replace("-", "")))
                g.serialize(destination=path, format=fmt, encoding="utf-8", **kw)
                with open(path, "rb") as fh:
                    data = fh.read()
        except CaseTimeout:
            raise
        except Exception as e:  # noqa: BLE001
            _last.update(A=None, B=None, exc="ser:" + type(e).__name__)
            return "ser-exc", f"{type(e).__name__}: {e}"[:300]
        try:
            g2 = Graph()
            # the document is read back the way it was written: same base (Turtle and RDF/XML also carry it inside)
            if io is None or io == "bytes":
                g2.parse(data=data, format=pfmt, **pkw)
            elif io == "path":
                g2.parse(path, format=pfmt, **pkw)
            elif io == "file":
                with open(path, "rb") as fh:
                    g2.parse(fh, format=pfmt, **pkw)
            else:
                g2.parse(io_mod.BytesIO(data), format=pfmt, **pkw)
        except CaseTimeout:
            raise
        except Exception as e:  # noqa: BLE001
            _last.update(A=None, B=None, exc="parse:" + type(e).__name__)
            return "parse-exc", f"{type(e).__name__}: {e}"[:300] + " | " + repr(data)[:400]
    finally:
        if path is not None:
            try:
                os.unlink(path)
            except OSError:
                pass
    A = keys_of_abstract(graph, hext)
    B = keys_of_graph(g2, hext)
    _last.update(A=A, B=B, exc=None)
    if isomorphic(A, B):
        return "ok", ""
    return "differs", "missing " + repr(sorted(A - B, key=repr)[:3])[:600] + " extra " + repr(sorted(B - A, key=repr)[:3])[:600] \
        + " | " + repr(data)[:600]


PAD_CHARS = ["\u00e9", "\u20ac", "\U0001F600"]   # 2-, 3- and 4-byte UTF-8


def pad_graph(rng, graph):
    """Pad literal values (plain, language-tagged, xsd:string or the custom datatype - nothing a parser normalises) with
    runs of multi-byte characters of random lengths until the document is some 3-10 kB, so that the 2048 / 4096 / 8192 ...
    byte and character offsets of any chunked reader fall inside multi-byte sequences."""
    graph = [list(t) for t in graph]
    slots = [i for i, t in enumerate(graph) if t[2][0] == "L" and t[2][3] in (None, XSD + "string", "http://e/dt")]
    if not slots:
        graph.append([I("http://e/a"), I("http://e/p"), L("x")])
        slots = [len(graph) - 1]
    target = rng.randrange(3000, 10000)
    total = 0
    while total < target:
        i = rng.choice(slots)
        o = list(graph[i][2])
        run = "".join(rng.choice(PAD_CHARS) * rng.randrange(1, 400) if rng.random() < 0.8 else "x" * rng.randrange(1, 200)
                      for _ in range(rng.choice([1, 2, 3])))
        o[1] = o[1] + run if rng.random() < 0.7 else run + o[1]
        graph[i] = [graph[i][0], graph[i][1], o]
        total += len(run.encode("utf-8"))
    # de-duplicate (padding can make two triples equal)
    seen, res = set(), []
    for t in graph:
        k = repr(t)
        if k not in seen:
            seen.add(k)
            res.append(t)
    return res


# ---------------------------------------------------------------- graph generator
def I(x):  # noqa: E743
    return ["I", x]


def Bn(x):
    return ["B", x]


def L(lex, lang=None, dt=None):
    return ["L", lex, lang, dt]


COMMON_IRIS = ["http://e/a", "http://e/b", "http://e/ns#x", "urn:x:y", "http://e/c"]
EXOTIC_IRIS = [
    "http://e/", "http://e/ns#", "http://e/1", "http://e/a.b", "http://e/a.", "http://e/a-b", "http://e/-a",
    "http://e/a%20b", "http://e/a,b", "http://e/(x)", "http://e/a'b", "http://e/a:b", "http://e/a/b/",
    "http://e/é", "http://e/~x", "mailto:x@y", "http://e/_a", "http://e/a;b", "http://e/a?b=c&d",
    "http://e/ns#a#b", "http://e/a$b", "http://e/a*b", "http://e/a!b", "http://e/a@b", "http://e/a+b",
    "http://e/a=b", "http://other.org/x", "file:///x/y", "http://e/\U0001F600", "http://e/a\u00a0b",
    "http://e/a\u2028b", "http://e/ns#", "http://e/a&b", "http://e", "http://e/a/../b",
    "http://e/ns#1x", "http://e/a·b", "http://e/x/a", "http://e/x#a", "a:b", "http://e/%C3%A9",
    RDFNS + "List", RDFNS + "nil", RDFNS + "_1", XSD + "integer", TYPE,
]
# predicates: (iri, expressible as an XML element name)
COMMON_PREDS = ["http://e/p", "http://e/q", "http://e/ns#r", TYPE]
EXOTIC_PREDS = [("http://e/p.q", True), ("http://e/p-q", True), ("urn:x:p", True), ("http://e/é", True),
                ("http://e/_p", True), ("http://e/1p", True), ("http://e/ns#p1", True), ("http://other.org/p", True),
                ("http://e/p.", True), (RDFNS + "_1", True), (RDFNS + "value", True), ("http://e/x/p", True),
                ("http://e/", False), ("http://e/1", False), ("http://e/p/", False), ("http://e/ns#", False),
                ("http://e/p%20", False)]
XML_UNSPLITTABLE = {p for p, ok in EXOTIC_PREDS if not ok}

LANGS = ["en", "en-US", "fr", "x-a1-b", "EN"]
TYPED = {
    XSD + "integer": ["0", "1", "-5", "12345678901234567890", "007", "+3", " 1", "abc", ""],
    XSD + "decimal": ["1.5", "0.0", "1.0", "-0.5", "1", "1.50", ".5", "100000000000000000000.5", "1e2", "0.1234567890123456789"],
    XSD + "double": ["1.0", "0.1", "1.5e+30", "-2.5", "1e0", "1E+30", "0.123456789", "123456789.0", "INF", "-INF", "NaN",
                     "1.7976931348623157e+308", "5e-324", "-0.0", "abc", "100000.0", "1.234567", "12345678.0"],
    XSD + "float": ["1.0", "0.1", "1.5", "0.123456789", "INF"],
    XSD + "boolean": ["true", "false", "1", "0", "TRUE"],
    XSD + "date": ["2020-01-01", "2020-01-01Z", "2020-1-1"],
    XSD + "dateTime": ["2020-01-01T00:00:00", "2020-01-01T00:00:00Z", "2020-01-01T00:00:00+01:00", "2020-01-01T00:00:00.500000"],
    XSD + "gYear": ["2020", "-0001"],
    XSD + "duration": ["P1D", "PT1H30M"],
    XSD + "anyURI": ["http://e/a", "a b"],
    XSD + "hexBinary": ["0FB7", "0fb7"],
    XSD + "base64Binary": ["AAEC", "AA EC"],
    XSD + "long": ["1", "01"],
    XSD + "nonNegativeInteger": ["1", "-1"],
    RDFNS + "XMLLiteral": ["<a>x</a>", "x", "<b/>", "a<b", "<a xmlns=\"http://e/\">x</a>", ""],
    RDFNS + "HTML": ["<p>x</p>", "x", "<p>x"],
    RDFNS + "JSON": ['{"a": 1}', "[1,2]", '"s"', "{"],
    RDFNS + "langString": ["x"],
    "http://e/dt": None, XSD + "string": None, XSD + "normalizedString": None, XSD + "token": None,
}
COMMON_DTS = [XSD + "integer", XSD + "decimal", XSD + "double", XSD + "boolean", XSD + "string", "http://e/dt"]


_CANON = {}


def is_canonical(lex, dt):
    """does Literal(lex, datatype=dt) (normalising constructor, what every parser calls) keep the lexical form?"""
    k = (lex, dt)
    if k not in _CANON:
        try:
            _CANON[k] = str.__str__(Literal(lex, datatype=URIRef(dt))) == lex
        except Exception:  # noqa: BLE001
            _CANON[k] = False
    return _CANON[k]


def gen_string(rng):
    r = rng.random()
    if r < 0.25:
        return rng.choice(["x", "hello world", "", "a", "0"])
    n = rng.choice([1, 1, 2, 2, 3, 3, 4, 6])
    return "".join(rng.choice(ALPHABET) for _ in range(n))


def gen_literal(rng):
    r = rng.random()
    if r < 0.30:
        return L(gen_string(rng))
    if r < 0.42:
        return L(gen_string(rng), lang=rng.choice(LANGS))
    dt = rng.choice(COMMON_DTS) if rng.random() < 0.6 else rng.choice(sorted(TYPED))
    pool = TYPED[dt]
    if pool is None:
        return L(gen_string(rng), dt=dt)
    # mostly lexical forms that rdflib's own Literal constructor leaves alone
    canon = [x for x in pool if is_canonical(x, dt)]
    if canon and rng.random() < 0.85:
        return L(rng.choice(canon), dt=dt)
    return L(rng.choice(pool), dt=dt)


def gen_list(rng, out, members, head=None, fresh=None):
    """well-formed rdf:List; returns its head term"""
    if not members:
        return I(NIL)
    cells = [fresh() for _ in members]
    if head is not None:
        cells[0] = head
    for i, m in enumerate(members):
        out.append([cells[i], I(FIRST), m])
        out.append([cells[i], I(REST), cells[i + 1] if i + 1 < len(cells) else I(NIL)])
    return cells[0]


def gen_graph(rng):
    """-> (triples, tags) ; tags name the shapes used (for the distribution report)"""
    out, tags = [], []
    counter = [0]

    def fresh():
        counter[0] += 1
        return Bn("b%d" % counter[0])

    exotic = rng.random() < 0.35
    iris = list(COMMON_IRIS)
    preds = [I(p) for p in COMMON_PREDS]
    if exotic:
        iris += rng.sample(EXOTIC_IRIS, rng.choice([1, 2, 3]))
        if rng.random() < 0.5:
            preds.append(I(rng.choice(EXOTIC_PREDS)[0]))
            tags.append("exotic_pred")
        tags.append("exotic_iri")

    def iri():
        return I(rng.choice(iris[-3:] if exotic and rng.random() < 0.5 else iris))

    def pred():
        return rng.choice(preds[-2:] if rng.random() < 0.3 else preds)

    def fixtype(t):
        # rdf:type with a non-IRI object is legal but rare
        if t[1][1] == TYPE and t[2] is not None and t[2][0] != "I" and rng.random() < 0.5:
            return [t[0], preds[0], t[2]]
        return t

    def obj(depth=0):
        r = rng.random()
        if r < 0.45:
            return gen_literal(rng)
        if r < 0.75 or depth > 1:
            return iri()
        return None  # caller makes a blank node

    def subj():
        return iri()

    nshapes = rng.choice([1, 1, 2, 2, 3, 4])
    bnodes = []
    for _ in range(nshapes):
        shape = rng.choice(["flat", "flat", "tree", "dag", "cycle", "selfloop", "list", "list", "badlist", "orphan",
                            "listsubj", "nestedlist", "bnodesubj", "type", "codelist"])
        tags.append(shape)
        if shape == "flat":
            s = subj()
            for _ in range(rng.choice([1, 2, 3])):
                o = obj(2)
                pr = pred()
                out.append([s, pr, o])
                if o is not None and o[0] == "L" and o[2] is None and o[3] in (None, XSD + "string") and rng.random() < 0.2:
                    # the simple literal and its xsd:string twin on the same subject and predicate: two RDF terms
                    # for rdflib (only HexTuples may identify them)
                    out.append([s, pr, L(o[1], dt=None if o[3] else XSD + "string")])
                    tags.append("string_twin")
        elif shape == "type":
            out.append([rng.choice(bnodes) if bnodes and rng.random() < 0.3 else subj(), I(TYPE), iri()])
        elif shape == "tree":
            def tree(s, d):
                for _ in range(rng.choice([1, 2])):
                    o = obj(d)
                    if o is None:
                        o = fresh()
                        bnodes.append(o)
                        out.append([s, pred(), o])
                        if rng.random() < 0.8:   # else: an empty [] object
                            tree(o, d + 1)
                    else:
                        out.append([s, pred(), o])
            root = subj() if rng.random() < 0.8 else fresh()
            b = fresh()
            bnodes.append(b)
            out.append([root, pred(), b])
            tree(b, 1)
        elif shape == "dag":
            b = fresh()
            bnodes.append(b)
            out.append([b, pred(), obj(2) or iri()])
            for _ in range(2):
                out.append([subj() if rng.random() < 0.7 else rng.choice(bnodes), pred(), b])
        elif shape == "cycle":
            n = rng.choice([2, 2, 3])
            cyc = [fresh() for _ in range(n)]
            bnodes.extend(cyc)
            p = pred()
            for i in range(n):
                out.append([cyc[i], p if rng.random() < 0.7 else pred(), cyc[(i + 1) % n]])
            if rng.random() < 0.4:
                out.append([subj(), pred(), cyc[0]])   # otherwise: no IRI entry point
            if rng.random() < 0.4:
                out.append([cyc[-1], pred(), gen_literal(rng)])
        elif shape == "selfloop":
            b = fresh()
            bnodes.append(b)
            out.append([b, pred(), b])
            if rng.random() < 0.5:
                out.append([subj(), pred(), b])
        elif shape == "orphan":
            b = fresh()
            bnodes.append(b)
            out.append([b, pred(), obj(2) or iri()])
        elif shape == "bnodesubj":
            b = rng.choice(bnodes) if bnodes else fresh()
            out.append([b, pred(), obj(2) or iri()])
        elif shape == "codelist":
            # a collection of blank nodes, each with a multi-line literal of the same shape (same line count, same
            # length of the last line): the Turtle family writes them on one line as ( [ ... ] [ ... ] )
            k = rng.choice([2, 3])
            lines = rng.choice([1, 2])
            w = rng.choice([1, 3, 6])
            ch = rng.choice(["\n", "\n", "\r\n", "\r"])
            members = []
            pr = pred()
            for j in range(k):
                b = fresh()
                bnodes.append(b)
                text = ch.join(chr(97 + (j + t) % 26) * w for t in range(lines + 1))
                out.append([b, pr, L(text, lang=rng.choice([None, None, "en"]))])
                members.append(b)
            h = gen_list(rng, out, members, fresh=fresh)
            out.append([subj(), pred(), h])
        elif shape in ("list", "listsubj", "nestedlist"):
            members = [obj(2) or iri() for _ in range(rng.choice([0, 1, 2, 3]))]
            if shape == "nestedlist":
                inner = gen_list(rng, out, [obj(2) or iri() for _ in range(rng.choice([0, 1, 2]))], fresh=fresh)
                members.insert(rng.randrange(len(members) + 1), inner)
            if rng.random() < 0.15 and members:
                members[rng.randrange(len(members))] = fresh()   # blank node member without properties
            h = gen_list(rng, out, members, fresh=fresh)
            if shape == "listsubj":
                if rng.random() < 0.7:
                    out.append([h, pred(), obj(2) or iri()])
                # else the list is referenced by nobody
            else:
                out.append([subj() if rng.random() < 0.8 or not bnodes else rng.choice(bnodes), pred(), h])
                if rng.random() < 0.15:
                    out.append([subj(), pred(), h])   # list shared by two subjects
        elif shape == "badlist":
            kind = rng.choice(["cyclic", "cyclic1", "sharedtail", "norest", "nofirst", "twofirst", "tworest", "restiri",
                               "extra", "irihead", "midref", "nilprops", "typed", "restlit"])
            tags.append("badlist_" + kind)
            a, b, c = fresh(), fresh(), fresh()
            m = [obj(2) or iri() for _ in range(3)]
            ref = [subj(), pred(), a]
            if kind == "cyclic":
                out += [[a, I(FIRST), m[0]], [a, I(REST), b], [b, I(FIRST), m[1]], [b, I(REST), a]]
                if rng.random() < 0.5:
                    ref = None
            elif kind == "cyclic1":
                out += [[a, I(FIRST), m[0]], [a, I(REST), a]]
                if rng.random() < 0.5:
                    ref = None
            elif kind == "sharedtail":
                out += [[a, I(FIRST), m[0]], [a, I(REST), c], [b, I(FIRST), m[1]], [b, I(REST), c],
                        [c, I(FIRST), m[2]], [c, I(REST), I(NIL)], [subj(), pred(), b]]
            elif kind == "norest":
                out += [[a, I(FIRST), m[0]], [a, I(REST), b], [b, I(FIRST), m[1]]]
            elif kind == "nofirst":
                out += [[a, I(FIRST), m[0]], [a, I(REST), b], [b, I(REST), I(NIL)]]
            elif kind == "twofirst":
                out += [[a, I(FIRST), m[0]], [a, I(FIRST), m[1]], [a, I(REST), I(NIL)]]
            elif kind == "tworest":
                out += [[a, I(FIRST), m[0]], [a, I(REST), I(NIL)], [a, I(REST), b], [b, I(FIRST), m[1]], [b, I(REST), I(NIL)]]
            elif kind == "restiri":
                out += [[a, I(FIRST), m[0]], [a, I(REST), iri()]]
            elif kind == "restlit":
                out += [[a, I(FIRST), m[0]], [a, I(REST), gen_literal(rng)]]
            elif kind == "extra":
                out += [[a, I(FIRST), m[0]], [a, I(REST), b], [b, I(FIRST), m[1]], [b, I(REST), I(NIL)],
                        [rng.choice([a, b]), pred(), obj(2) or iri()]]
            elif kind == "typed":
                out += [[a, I(FIRST), m[0]], [a, I(REST), I(NIL)], [a, I(TYPE), I(RDFNS + "List")]]
            elif kind == "irihead":
                h = iri()
                out += [[h, I(FIRST), m[0]], [h, I(REST), b], [b, I(FIRST), m[1]], [b, I(REST), I(NIL)]]
                ref = [subj(), pred(), h] if rng.random() < 0.5 else None
            elif kind == "midref":
                out += [[a, I(FIRST), m[0]], [a, I(REST), b], [b, I(FIRST), m[1]], [b, I(REST), I(NIL)],
                        [subj(), pred(), b]]
            elif kind == "nilprops":
                out += [[I(NIL), pred(), obj(2) or iri()]]
                ref = [subj(), pred(), I(NIL)]
            if ref:
                out.append(ref)
    # de-duplicate, keep order
    seen, res = set(), []
    for t in out:
        t = fixtype([x if x is not None else iri() for x in t])
        k = repr(t)
        if k not in seen:
            seen.add(k)
            res.append(t)
    return res, tags


# ---------------------------------------------------------------- input-side triggers of the known findings
TURTLE_FAMILY = ("turtle", "longturtle", "n3")
XML_FAMILY = ("xml", "pretty-xml")
PY_SPACE = [c for c in map(chr, range(0x3001)) if c.isspace()]


def literals_of(graph):
    for t in graph:
        for x in t:
            if x[0] == "L":
                yield x


def iris_of(graph):
    for t in graph:
        for x in t:
            if x[0] == "I":
                yield x[1]
            elif x[0] == "L" and x[3] is not None:
                yield x[3]


def xml_inexpressible(graph):
    """the graph has a predicate that no XML QName can spell: RDF/XML cannot express it"""
    return any(not xml_qname_ok(t[1][1]) for t in graph)


def _incoming(graph):
    inc = {}
    for t in graph:
        if t[2][0] == "B":
            inc.setdefault(t[2][1], []).append(t)
    return inc


def rest_cycle(graph):
    nxt = {}
    for t in graph:
        if t[1][1] == REST and t[0][0] == "B" and t[2][0] == "B":
            nxt.setdefault(t[0][1], []).append(t[2][1])
    for start in nxt:
        seen, todo = set(), [start]
        while todo:
            n = todo.pop()
            for m in nxt.get(n, []):
                if m == start:
                    return True
                if m not in seen:
                    seen.add(m)
                    todo.append(m)
    return False


def shared_list_cell(graph):
    """a blank node with rdf:first that is reached by rdf:rest and is referenced at least twice"""
    inc = _incoming(graph)
    firsts = {t[0][1] for t in graph if t[0][0] == "B" and t[1][1] == FIRST}
    for b, ts in inc.items():
        if b in firsts and len(ts) >= 2 and any(t[1][1] == REST for t in ts):
            return True
    return False


def bad_relative(graph, base):
    """an IRI under the base whose remainder, written as a relative reference, resolves elsewhere"""
    from urllib.parse import urljoin
    for u in iris_of(graph):
        if u.startswith(base):
            rest = u.replace(base, "", 1)
            if "#" in u.replace(base, "") or "/" in u.replace(base, ""):
                continue
            if urljoin(base, rest, allow_fragments=True) != u:
                return True
    return False


def unreachable_bnode(graph):
    """a blank-node subject that cannot be reached from an IRI subject or from a blank-node subject nobody refers to"""
    inc = _incoming(graph)
    subs = {(t[0][0], t[0][1]) for t in graph}
    roots = [x for x in subs if x[0] == "I" or x[1] not in inc]
    out = {}
    for t in graph:
        out.setdefault((t[0][0], t[0][1]), []).append((t[2][0], t[2][1]))
    seen, todo = set(roots), list(roots)
    while todo:
        n = todo.pop()
        for m in out.get(n, []):
            if m not in seen:
                seen.add(m)
                todo.append(m)
    return any(x not in seen for x in subs if x[0] == "B")


def list_cell_shared_or_typed(graph):
    inc = _incoming(graph)
    firsts = {t[0][1] for t in graph if t[0][0] == "B" and t[1][1] == FIRST}
    if any(len(inc.get(b, [])) >= 2 for b in firsts):
        return True
    return any(t[0][0] == "B" and t[0][1] in firsts and t[1][1] == TYPE and t[2] == ["I", RDFNS + "List"] for t in graph)


def xml_qname_ok(iri):
    """can the IRI be cut into namespace + XML NCName (a sufficient, simple test)"""
    j = len(iri)
    while j > 0 and (iri[j - 1].isalnum() or iri[j - 1] in "._-\u00b7"):
        j -= 1
    while j < len(iri) and not (iri[j].isalpha() or iri[j] == "_"):
        j += 1
    return 0 < j < len(iri)


def list_as_object(graph):
    """some node that has an rdf:first property is used as an object"""
    firsts = {(t[0][0], t[0][1]) for t in graph if t[1][1] == FIRST}
    return any((t[2][0], t[2][1]) in firsts for t in graph)


def type_object_unsafe(graph):
    """an rdf:type object that is not an IRI ending in a plain XML name after its last '/' or '#'"""
    for t in graph:
        if t[1][1] != TYPE:
            continue
        if t[2][0] != "I":
            return True
        u = t[2][1]
        k = max(u.rfind("/"), u.rfind("#"))
        loc = u[k + 1:]
        if k < 0 or not loc or not (loc[0].isalpha() or loc[0] == "_") or not all(c.isalnum() or c in "._-" for c in loc):
            return True
    return False


def bad_relative_any(graph, base):
    """an IRI that starts with the base (RDF/XML writers cut the base off whatever follows) or shares its
    scheme and authority (JSON-LD writer) and does not survive being written relative and resolved again"""
    from urllib.parse import urljoin, urlsplit
    b = urlsplit(base)
    origin = b.scheme + "://" + b.netloc
    for u in iris_of(graph):
        if u.startswith(base) and urljoin(base, u.replace(base, "", 1), allow_fragments=True) != u:
            return True
        if u.startswith(origin) and urljoin(base, u[len(origin):] or "/", allow_fragments=True) != u:
            return True
    return False


def rest_cell_without_first(graph):
    firsts = {t[0][1] for t in graph if t[0][0] == "B" and t[1][1] == FIRST}
    rests = {t[0][1] for t in graph if t[0][0] == "B" and t[1][1] == REST}
    return any(t[1][1] == REST and t[2][0] == "B" and t[2][1] in rests and t[2][1] not in firsts for t in graph)


def unreachable_bnode_px(graph):
    """as unreachable_bnode, but a blank node with a self-loop also counts as a starting point"""
    loops = {t[0][1] for t in graph if t[0][0] == "B" and t[0] == t[2]}
    inc = _incoming(graph)
    subs = {(t[0][0], t[0][1]) for t in graph}
    roots = [x for x in subs if x[0] == "I" or x[1] not in inc or x[1] in loops]
    out = {}
    for t in graph:
        out.setdefault((t[0][0], t[0][1]), []).append((t[2][0], t[2][1]))
    seen, todo = set(roots), list(roots)
    while todo:
        n = todo.pop()
        for m in out.get(n, []):
            if m not in seen:
                seen.add(m)
                todo.append(m)
    return any(x not in seen for x in subs if x[0] == "B")


def bad_rest_object(graph):
    """an rdf:rest object that ends isValidList's walk without being rdf:nil: a literal that is false as a Python
    value, or a node other than rdf:nil with exactly two outgoing triples that is not a list cell"""
    outs = {}
    for t in graph:
        outs.setdefault((t[0][0], t[0][1]), []).append(t[1][1])
    for t in graph:
        if t[1][1] != REST:
            continue
        o = t[2]
        if o[0] == "L":
            if not bool(to_term(o)):
                return True
        elif o != ["I", NIL]:
            ps = outs.get((o[0], o[1]), [])
            if len(ps) == 2 and sorted(ps) != sorted([FIRST, REST]):
                return True
    return False


def bnode_subject_referenced_twice(graph):
    inc = _incoming(graph)
    return any(t[0][0] == "B" and len(inc.get(t[0][1], [])) >= 2 for t in graph)


def inner_list_cell(graph):
    """a blank node with rdf:first that some rdf:rest points to"""
    firsts = {t[0][1] for t in graph if t[0][0] == "B" and t[1][1] == FIRST}
    return any(t[1][1] == REST and t[2][0] == "B" and t[2][1] in firsts for t in graph)


def type_iri_unsafe(graph):
    """an rdf:type object that IS an IRI but does not end in a plain XML name after its last '/' or '#'
    (compute_qname_strict still hands out a prefix:local for some of them, e.g. ns1:x) for http://e/(x))"""
    return any(t[1][1] == TYPE and t[2][0] == "I" and type_object_unsafe([t]) for t in graph)


def _bare_retyped(x):
    """a valid xsd:boolean written 1 / 0, or a valid xsd:decimal whose lexical form has an exponent: Turtle writes them
    bare and reads them back as xsd:integer / xsd:double (only with normalize=False or foreign producers)"""
    if x[3] == XSD + "boolean" and x[1] in ("1", "0"):
        return True
    if x[3] == XSD + "decimal" and any(c in x[1] for c in "eE"):
        try:
            return Literal(x[1], datatype=URIRef(x[3]), normalize=False).value is not None
        except Exception:  # noqa: BLE001
            return False
    return False


JSONLD_NATIVE = {XSD + "string", XSD + "integer", XSD + "decimal", XSD + "double", XSD + "boolean", XSD + "float"}


def _valid_canonical(x):
    try:
        l_ = Literal(x[1], datatype=URIRef(x[3]))
        return l_.value is not None and str.__str__(l_) == x[1]
    except Exception:  # noqa: BLE001
        return False


def _falsy_native(o):
    """a literal the JSON-LD writer turns into a JSON value that is false in Python: "", 0, 0.0, false"""
    if o[0] != "L" or o[2] is not None:
        return False
    if o[3] is None or o[3] == XSD + "string":
        return o[1] == ""
    if o[3] in JSONLD_NATIVE:
        try:
            v = Literal(o[1], datatype=URIRef(o[3])).toPython()
            return not isinstance(v, Literal) and not v
        except Exception:  # noqa: BLE001
            return False
    return False


def triggers(graph, fmt, base=None, bind=None, extra=None):
    """Finding ids whose *input-side* trigger holds (see known_findings.d/C03.json).  Ordered."""
    out = []
    lits = list(literals_of(graph))
    f15c = any(x[3] is not None and not is_canonical(x[1], x[3]) for x in lits)   # reported last: the most general one
    if (extra or {}).get("canon"):
        # longturtle canon=True re-reads the graph through N-Triples first: the Turtle writer sees normalised literals
        lits = [list(x[:1]) + list(_norm_lit(tuple(x))[1:]) for x in lits]
    if fmt in TURTLE_FAMILY:
        for x in lits:
            if x[3] == XSD + "double":
                try:
                    v = float(x[1])
                except ValueError:
                    continue
                if v == v and v not in (float("inf"), float("-inf")) and float("%e" % v) != v:
                    out.append("F15")
                    break
        if any(x[3] == XSD + "decimal" and is_canonical(x[1], x[3]) and not any(c in x[1] for c in ".eE") for x in lits):
            out.append("F15d")
        if any(_bare_retyped(x) for x in lits) and not (extra or {}).get("canon"):
            # (longturtle canon=True re-reads the graph through N-Triples first, which normalises these forms)
            out.append("F15s")
    # F15e, F15f, F15h, F15o (Turtle family) and F15m, the non-IRI half of F15k (pretty-xml) were repaired in
    # /repo (ec2790c6, c1984258, fdf8d16b, 2521fbb8, d4c8e316, 83d416d7): no trigger any more
    # F15r (doList walking past rdf:nil) was repaired by 0dee69e9
    if fmt == "pretty-xml":
        if type_iri_unsafe(graph):
            out.append("F15k")
        if list_as_object(graph):
            out.append("F15l")
        if any(pfx == "" for pfx, _ in (bind or [])) and any(x[3] == RDFNS + "XMLLiteral" and "<" in x[1] for x in lits):
            out.append("F15p")
    if fmt == "json-ld" and extra and ("context" in extra or extra.get("auto_compact")):
        # an active context switches the writer to native JSON values
        if any(x[3] == XSD + "string" or (x[3] in JSONLD_NATIVE and not _valid_canonical(x)) for x in lits):
            out.append("F15t")
        # F15u (a falsy native value overwritten by the next object) was repaired by 532bfe56: no trigger
    if fmt == "json-ld":
        if unreachable_bnode(graph):
            out.append("F15i")
        if list_cell_shared_or_typed(graph):
            out.append("F15j")
        if rest_cell_without_first(graph):
            out.append("F15n")
    if fmt in TURTLE_FAMILY and base is not None and bad_relative(graph, base):
        out.append("F15g")
    if fmt in XML_FAMILY + ("json-ld",) and base is not None and bad_relative_any(graph, base):
        out.append("F15g")
    if f15c:
        out.append("F15c")
    return out


# ---------------------------------------------------------------- what is still demanded inside a trigger
def _norm_lit(k):
    """constructor fixed point of a literal key (what every parser hands back, finding F15c)"""
    if k[0] != "L" or k[3] is None:
        return k
    try:
        l_ = Literal(k[1], datatype=URIRef(k[3]))
        return ("L", str.__str__(l_), k[2], k[3])
    except Exception:  # noqa: BLE001
        return k


def _cells(T):
    """nodes (other than rdf:nil) that carry rdf:first or rdf:rest"""
    return {t[0] for t in T if t[1][1] in (FIRST, REST) and t[0] != ("I", NIL)}


def residual_ok(graph, fmt, base, bind, tr, A, B, exc):
    """Inside the trigger region of the known findings tr: is everything the findings do NOT concern intact, and is
    the damage the predicted one where a prediction is computable?
      always      literals are compared up to Literal() normalisation of the INPUT side (F15c made a checkable statement)
      F15, F15d   the predicted literal (six-digit double, decimal + '.0') must come back
      F15i        exactly the triples with an unreachable blank-node subject are missing
      F15g        triples with an IRI that does not resolve back are set aside (input side), triples with an IRI the
                  input does not contain are set aside (output side)
      F15j/n/l    triples touching a list cell (a blank node with rdf:first / rdf:rest) are set aside on both sides
      F15k        rdf:type triples with an IRI object without XML-name tail are set aside; the only exception allowed is
                  the XML parser's 'not well-formed'
      F15p        rdf:XMLLiteral triples are set aside
    any other exception, a timeout, or any other difference fails."""
    if exc is not None:
        if "F15k" in tr and exc == "parse:SAXParseException":
            return True
        # pretty-xml refuses a collection whose rdf:rest chain is cyclic
        return "F15l" in tr and exc == "ser:ValueError" and rest_cycle(graph)
    if "F15s" in tr:
        def bare(k):
            if k[0] == "L" and k[3] == XSD + "boolean" and k[1] in ("1", "0"):
                return ("L", k[1], k[2], XSD + "integer")
            if k[0] == "L" and k[3] == XSD + "decimal" and any(c in k[1] for c in "eE"):
                try:
                    return ("L", str.__str__(Literal(float(k[1]))), k[2], XSD + "double")
                except ValueError:
                    pass
            return k
        A = {tuple(bare(x) for x in t) for t in A}
    A = {tuple(_norm_lit(x) for x in t) for t in A}
    if "F15" in tr:
        def six(k):
            if k[0] == "L" and k[3] == XSD + "double":
                try:
                    v = float(k[1])
                    if v == v and v not in (float("inf"), float("-inf")):
                        return ("L", str.__str__(Literal(float("%e" % v))), k[2], k[3])
                except ValueError:
                    pass
            return k
        A = {tuple(six(x) for x in t) for t in A}
    if "F15d" in tr:
        def dec(k):
            if k[0] == "L" and k[3] == XSD + "decimal" and not any(c in k[1] for c in ".eE") and is_canonical(k[1], k[3]):
                return ("L", k[1] + ".0", k[2], k[3])
            return k
        A = {tuple(dec(x) for x in t) for t in A}
    if "F15i" in tr:
        inc = {}
        for t in A:
            if t[2][0] == "B":
                inc.setdefault(t[2], []).append(t)
        subs = {t[0] for t in A}
        roots = [x for x in subs if x[0] == "I" or x not in inc]
        out = {}
        for t in A:
            out.setdefault(t[0], []).append(t[2])
        seen, todo = set(roots), list(roots)
        while todo:
            n = todo.pop()
            for m in out.get(n, []):
                if m not in seen:
                    seen.add(m)
                    todo.append(m)
        A = {t for t in A if not (t[0][0] == "B" and t[0] not in seen)}
    if "F15g" in tr and base is not None:
        from urllib.parse import urljoin, urlsplit
        b = urlsplit(base)
        origin = b.scheme + "://" + b.netloc
        inputs = {x[1] for t in A for x in t if x[0] == "I"} | {x[3] for t in A for x in t if x[0] == "L" and x[3]}

        def resolve(rel):
            r = urljoin(base, rel, allow_fragments=True)
            return r + "#" if rel.endswith("#") and not r.endswith("#") else r     # as URIRef(value, base=) does

        def images(u):
            out = set()
            if u.startswith(base):
                out.add(resolve(u.replace(base, "", 1)))
            if u.startswith(origin):
                out.add(resolve(u[len(origin):] or "/"))
            return out - {u}
        moved = {u: images(u) for u in inputs}
        bad = {u for u, im in moved.items() if im} | {v for im in moved.values() for v in im}

        def touches(t, pred):
            return any((x[0] == "I" and pred(x[1])) or (x[0] == "L" and x[3] and pred(x[3])) for x in t)
        # an IRI that may be written as a relative reference resolving elsewhere, and the places it may land on
        A = {t for t in A if not touches(t, lambda u: u in bad)}
        B = {t for t in B if not touches(t, lambda u: u in bad or u not in inputs)}
    if any(f in tr for f in ("F15j", "F15n", "F15l")):
        ca, cb = _cells(A), _cells(B)
        cb |= {c for c in ca if c[0] == "I"}      # an IRI that is a list cell on the input side keeps its name
        ca |= {c for c in cb if c[0] == "I"}
        if "F15l" in tr:
            # a further reference to a list head is written as rdf:nodeID of a node that is never described: references to
            # property-less blank nodes are set aside on both sides
            subs_a, subs_b = {t[0] for t in A}, {t[0] for t in B}
            ca |= {t[2] for t in A if t[2][0] == "B" and t[2] not in subs_a}
            cb |= {t[2] for t in B if t[2][0] == "B" and t[2] not in subs_b}
            # ... or as an empty collection (rdf:nil) when the cell has been written already
            ca.add(("I", NIL))
            cb.add(("I", NIL))
        A = {t for t in A if t[0] not in ca and t[2] not in ca}
        B = {t for t in B if t[0] not in cb and t[2] not in cb}
    if "F15k" in tr:
        inputs = {x[1] for t in A for x in t if x[0] == "I"}
        A = {t for t in A if not (t[1][1] == TYPE and t[2][0] == "I" and type_object_unsafe([[list(t[0]), list(t[1]), list(t[2])]]))}
        B = {t for t in B if not (t[1][1] == TYPE and t[2][0] == "I" and
                                  (t[2][1] not in inputs or type_object_unsafe([[list(t[0]), list(t[1]), list(t[2])]])))}
    if "F15t" in tr or "F15u" in tr:
        # literals the active-context writer renders as native JSON values, and plain literals on the way back
        def nat(k):
            return k[0] == "L" and k[2] is None and (k[3] in JSONLD_NATIVE or k[3] in (None, ""))
        A = {t for t in A if not nat(t[2])}
        B = {t for t in B if not nat(t[2])}
    if "F15p" in tr:
        A = {t for t in A if not (t[2][0] == "L" and t[2][3] == RDFNS + "XMLLiteral")}
        B = {t for t in B if not (t[2][0] == "L" and t[2][3] == RDFNS + "XMLLiteral")}
    return isomorphic(A, B)


# ================================================================= suites
import itertools  # noqa: E402
import json  # noqa: E402

from rdflib.plugins.parsers import notation3 as _n3  # noqa: E402
from rdflib.plugins.parsers import ntriples as _nt  # noqa: E402
from rdflib.plugins.serializers import nt as _ntser  # noqa: E402

from .core import Suite, cN, cbool, clist, copt, cstr, ctuple  # noqa: E402


def small_strings(maxlen):
    for n in range(maxlen + 1):
        for tup in itertools.product(ALPHABET, repeat=n):
            yield "".join(tup)


SMALL2 = list(small_strings(2))


def rand_unicode(rng, n):
    out = []
    for _ in range(n):
        r = rng.random()
        if r < 0.5:
            out.append(rng.choice(ALPHABET))
        elif r < 0.8:
            out.append(chr(rng.randrange(0x20, 0x7F)))
        elif r < 0.9:
            out.append(chr(rng.choice([0, 1, 8, 0x0B, 0x0C, 0x1F, 0x7F, 0x85, 0x2029, 0xFEFF, 0xFFFD, 0xFFFF, 0x10FFFF])))
        else:
            c = rng.randrange(0x80, 0x110000)
            out.append(chr(c if not 0xD800 <= c <= 0xDFFF else 0xE000))
    return "".join(out)


# ---- Coq text of terms
def c_node(n):
    return f"(Iri {cstr(n[1])})" if n[0] == "I" else f"(Bnode {cstr(n[1])})"


def c_obj(o):
    if o[0] == "L":
        return f"(OLit {cstr(o[1])} {copt(o[2], cstr)} {copt(o[3], cstr)})"
    return f"(ONode {c_node(o)})"


def c_triple(t):
    return ctuple(c_node(t[0]), cstr(t[1][1]), c_obj(t[2]))


def c_triples(ts):
    return copt(ts, lambda l: clist(c_triple(t) for t in l))


# ---------------------------------------------------------------- K1: N-Triples text
NT_IRIS_OK = ["http://e/a", "http://e/b", "urn:x:y", "a:b", "http://e/\u00e9", "http://e/a:b?c#d", "x:", "http://e/\U0001F600",
              "h:'", "http://e/a.b", "http://e/%20"]
NT_IRIS_EDGE = ["http://e/a\u00a0b", "http://e/a\u2028b", "http://e/a\tb", "http://e/a\nb", "a\nb:c", "a\rb:c", "a\u00a0b:c",
                "a\tb:c", "http://e/a\u0085b", "http://e/a\u3000", "abc", ":a", "", "http://e/a b", "http://e/a>b", "http://e/a\\b",
                "http://e/a\\u0041", "http://e/{a}", "http://e/a\"b", "a b:c", "http://e/a\x0bb", "http://e/a\x1fb"]
NT_LABELS = ["b1", "N0af3", "a.b", "a-b", "a:b", "_x", "a..b", "1", "a.", "-a", "a b", ".a", "", "a\u00e9", "a.-"]
NT_LANGS = ["en", "en-US", "x-1", "a-b-c", "EN", "de-1996-x"]
NT_DTS = ["http://e/dt", "urn:x:dt", "http://e/dt\u00a0x", "dt"]


class NtText(Suite):
    name = "nt_text"
    imports = "From RV Require Import Codec.Model."
    case_ty = "nt_case"
    obs_ty = "nt_obs"
    model = "nt_model"
    oeq = "nt_obs_eqb"
    spec = "nt_spec"
    kf = "nt_kf"
    kf_ids = {}     # F15b (reader refusing \\s inside IRIs) was repaired by 4d2427e4; nt_kf is provably 0 now
    corr = "serializers/nt.py:_nt_row,_quoteLiteral,_quote_encode; parsers/ntriples.py:W3CNTriplesParser.parsestring,unquote; compat.decodeUnicodeEscape"
    quick_n = 900
    thorough_n = 12000
    timeout_s = 5.0

    # case = {"mode": "triple", "t": [s, p, o]} | {"mode": "unquote", "s": str} | {"mode": "doc", "s": str}
    def gen_node(self, rng, edge):
        r = rng.random()
        if r < 0.65:
            return ["I", rng.choice(NT_IRIS_EDGE if edge and rng.random() < 0.5 else NT_IRIS_OK)]
        return ["B", rng.choice(NT_LABELS if edge else NT_LABELS[:8])]

    def gen_lex(self, rng):
        r = rng.random()
        if r < 0.4:
            return "".join(rng.choice(ALPHABET) for _ in range(rng.choice([0, 1, 2, 3, 4, 6])))
        if r < 0.5:
            return rng.choice(["x", "hello world", "\\u0041", "\\\\n", 'say "hi"', "a\\", "\\", '"', '\\"'])
        return rand_unicode(rng, rng.choice([1, 2, 4, 8, 16]))

    def gen_triple(self, rng):
        edge = rng.random() < 0.3
        s = self.gen_node(rng, edge)
        p = ["I", rng.choice(NT_IRIS_EDGE if edge and rng.random() < 0.3 else NT_IRIS_OK)]
        r = rng.random()
        if r < 0.3:
            o = self.gen_node(rng, edge)
        else:
            lex = self.gen_lex(rng)
            k = rng.random()
            if k < 0.4:
                o = ["L", lex, None, None]
            elif k < 0.7:
                o = ["L", lex, rng.choice(NT_LANGS), None]
            else:
                o = ["L", lex, None, rng.choice(NT_DTS if edge else NT_DTS[:2])]
        return [s, p, o]

    def gen(self, rng, i):
        if i < len(SMALL2):
            return {"mode": "triple", "t": [["I", "http://e/a"], ["I", "http://e/p"], ["L", SMALL2[i], None, None]]}
        if i < 2 * len(SMALL2):
            return {"mode": "unquote", "s": SMALL2[i - len(SMALL2)]}
        r = rng.random()
        if r < 0.55:
            return {"mode": "triple", "t": self.gen_triple(rng)}
        if r < 0.75:
            parts = []
            for _ in range(rng.choice([1, 2, 3, 5])):
                k = rng.random()
                if k < 0.35:
                    parts.append(rng.choice(["\\u00e9", "\\u0041", "\\U0001F600", "\\U00110000", "\\UFFFFFFFF", "\\uD800",
                                             "\\u00E", "\\U0001F60", "\\uzzzz", "\\n", "\\t", "\\b", "\\f", "\\r", "\\'", '\\"',
                                             "\\\\", "\\x", "\\a", "\\", "\\u", "\\U"]))
                else:
                    parts.append(rand_unicode(rng, rng.choice([1, 2, 3])))
            return {"mode": "unquote", "s": "".join(parts)}
        if r < 0.80:
            return self.gen_long_doc(rng)
        # documents: written rows, then damaged
        rows = []
        for _ in range(rng.choice([1, 1, 2, 3])):
            try:
                rows.append(_ntser._nt_row(tuple(to_term_nt(x) for x in self.gen_triple(rng))))
            except Exception:  # noqa: BLE001
                rows.append("<http://e/a> <http://e/p> \"x\" .\n")
        doc = "".join(rows)
        k = rng.random()
        if k < 0.25:
            pass
        elif k < 0.4:
            doc = rng.choice(["", "\n", "  \n", "# c\n", " # c", "\r\n", "\r", " \t ", "\u00a0", "\u00a0\n", ".\n"]) + doc + \
                rng.choice(["", "# end", "   ", "\r", "\u2028", "<a:b> <a:b> <a:b> .", "<a:b> <a:b> <a:b>", "<a:b> <a:b> <a:b> . # c"])
        else:
            for _ in range(rng.choice([1, 1, 2, 3])):
                pos = rng.randrange(len(doc) + 1)
                ch = rng.choice([" ", "\t", ".", "#", '"', "\\", "<", ">", "@", "^", "_", ":", "-", "\r", "\n", "a", "1", "\u00a0", ""])
                m = rng.random()
                if m < 0.4:
                    doc = doc[:pos] + ch + doc[pos:]
                elif m < 0.7:
                    doc = doc[:pos] + doc[pos + 1:]
                else:
                    doc = doc[:pos] + ch + doc[pos + 1:]
        return {"mode": "doc", "s": doc, "bin": rng.random() < 0.3}

    def gen_long_doc(self, rng):
        """documents longer than the reader's 2048-character buffer: rows padded with multi-byte characters, line ends
        LF / CR / CRLF placed on and around the multiples of 2048, blank and comment lines, an unterminated last line"""
        doc = ""
        nrows = rng.choice([2, 3, 4, 6])
        for _ in range(nrows):
            t = self.gen_triple(rng)
            if t[2][0] != "L" or rng.random() < 0.3:
                t = [t[0], t[1], ["L", "x", None, None]]
            pad = "".join(rng.choice(PAD_CHARS + ["x"]) * rng.randrange(1, 300) for _ in range(rng.choice([1, 2, 3])))
            t = [t[0], t[1], ["L", t[2][1] + pad, t[2][2], t[2][3]]]
            try:
                row = _ntser._nt_row(tuple(to_term_nt(x) for x in t))[:-1]
            except Exception:  # noqa: BLE001
                row = '<http://e/a> <http://e/p> "' + pad + '" .'
            eol = rng.choice(["\n", "\n", "\r", "\r\n", "\r\n"])
            if rng.random() < 0.6:
                # stretch the row with a trailing comment so that its line end sits at a multiple of 2048 (+-1)
                want = ((len(doc) + len(row)) // 2048 + 1) * 2048 + rng.choice([-2, -1, -1, 0, 0, 1]) - len(doc) - len(row)
                if want > 2:
                    row += " #" + "c" * (want - 2)
            doc += row + eol
            if rng.random() < 0.2:
                doc += rng.choice(["", "\n", "  \r\n", "# comment\n", "\u00a0", "\r"])
        if rng.random() < 0.3:
            doc = doc.rstrip("\r\n") + rng.choice(["", " ", "\u00a0", "\t# c"])
        return {"mode": "doc", "s": doc, "bin": rng.random() < 0.5}

    # ---- implementation
    @staticmethod
    def parse(text, binary=False):
        out = []

        class Sink:
            def triple(self, s, p, o):
                out.append((s, p, o))

        parser = _nt.W3CNTriplesParser(Sink())
        try:
            if binary:     # a byte stream: goes through the UTF-8 stream reader, 2048 bytes at a time
                parser.parse(io_mod.BytesIO(text.encode("utf-8")))
            else:          # StringIO: 2048 characters at a time
                parser.parsestring(text)
        except CaseTimeout:
            raise
        except Exception:  # noqa: BLE001
            return None
        back = {str.__str__(v): k for k, v in parser._bnode_ids.items()}

        def conv(x):
            if isinstance(x, BNode):
                return ["B", back.get(str.__str__(x), "?" + str.__str__(x))]
            if isinstance(x, Literal):
                return ["L", str.__str__(x), None if x.language is None else str.__str__(x.language),
                        None if x.datatype is None else str.__str__(x.datatype)]
            return ["I", str.__str__(x)]
        return [[conv(s), conv(p), conv(o)] for s, p, o in out]

    def run_impl(self, case):
        if case["mode"] == "unquote":
            try:
                return {"u": _nt.unquote(case["s"])}
            except CaseTimeout:
                raise
            except Exception:  # noqa: BLE001
                return {"u": None}
        if case["mode"] == "doc":
            return {"d": self.parse(case["s"], case.get("bin", False))}
        try:
            text = _ntser._nt_row(tuple(to_term_nt(x) for x in case["t"]))
        except CaseTimeout:
            raise
        except Exception:  # noqa: BLE001
            return {"text": None, "back": None}
        return {"text": text, "back": self.parse(text, case.get("bin", False))}

    def coq_case(self, case):
        if case["mode"] == "unquote":
            return f"NtUnquote {cstr(case['s'])}"
        if case["mode"] == "doc":
            return f"NtDoc {cstr(case['s'])}"
        return f"NtTriple {c_triple(case['t'])}"

    def coq_obs(self, obs):
        if "u" in obs:
            return f"ObsUnquote {copt(obs['u'], cstr)}"
        if "d" in obs:
            return f"ObsDoc {c_triples(obs['d'])}"
        return f"ObsTriple {copt(obs['text'], cstr)} {c_triples(obs['back'])}"

    def nontrivial(self, case, obs):
        if case["mode"] == "triple":
            return obs.get("text") is not None
        return True

    def features(self, case, obs):
        f = {"mode_" + case["mode"]: 1}
        if case["mode"] == "triple":
            f["written"] = int(obs.get("text") is not None)
            f["read_back_one"] = int(bool(obs.get("back")) and len(obs["back"]) == 1)
            if case["t"][2][0] == "L":
                f["literal_object"] = 1
                f["lex_has_escape_char"] = int(any(c in case["t"][2][1] for c in '\\"\n\r'))
        elif case["mode"] == "doc":
            f["doc_accepted"] = int(obs.get("d") is not None)
            f["doc_longer_than_buffer"] = int(len(case["s"]) > 2048)
            f["doc_binary_source"] = int(bool(case.get("bin")))
        else:
            f["unquote_raises"] = int(obs.get("u") is None)
        return f

    def shrink(self, case):
        if case["mode"] == "triple":
            s, p, o = case["t"]
            if o[0] == "L":
                for i in range(len(o[1])):
                    yield {"mode": "triple", "t": [s, p, ["L", o[1][:i] + o[1][i + 1:], o[2], o[3]]]}
                if o[2] or o[3]:
                    yield {"mode": "triple", "t": [s, p, ["L", o[1], None, None]]}
            if s != ["I", "http://e/a"]:
                yield {"mode": "triple", "t": [["I", "http://e/a"], p, o]}
            if p != ["I", "http://e/p"]:
                yield {"mode": "triple", "t": [s, ["I", "http://e/p"], o]}
        else:
            s = case["s"]
            for i in range(len(s)):
                yield dict(case, s=s[:i] + s[i + 1:])

    def sweep(self):
        for s in small_strings(3):
            yield {"mode": "triple", "t": [["I", "http://e/a"], ["I", "http://e/p"], ["L", s, None, None]]}
            yield {"mode": "unquote", "s": s}
        for u in NT_IRIS_OK + NT_IRIS_EDGE:
            for o in (["I", u], ["L", "x", None, u], ["B", "b"]):
                yield {"mode": "triple", "t": [["I", u], ["I", u], o]}
        for lab in NT_LABELS:
            yield {"mode": "triple", "t": [["B", lab], ["I", "http://e/p"], ["B", lab]]}


def to_term_nt(x):
    if x[0] == "I":
        return URIRef(x[1])
    if x[0] == "B":
        return BNode(x[1])
    return Literal(x[1], lang=x[2], datatype=None if x[3] is None else URIRef(x[3]), normalize=False)


# ---------------------------------------------------------------- K2: Turtle string text
class TtlString(Suite):
    name = "ttl_string"
    imports = "From RV Require Import Codec.Model."
    case_ty = "ttl_case"
    obs_ty = "ttl_obs"
    model = "ttl_model"
    oeq = "ttl_obs_eqb"
    spec = "ttl_spec"
    corr = "term.py:Literal._quote_encode; parsers/notation3.py:SinkParser.strconst,_unicodeEscape (directly and through Graph.parse)"
    quick_n = 1000
    thorough_n = 12000
    timeout_s = 5.0

    # case = {"mode": "string", "s": str} | {"mode": "raw", "triple": bool, "s": str}
    def gen(self, rng, i):
        if i < len(SMALL2):
            return {"mode": "string", "s": SMALL2[i]}
        if i < 2 * len(SMALL2):
            return {"mode": "string", "s": "\n" + SMALL2[i - len(SMALL2)]}
        r = rng.random()
        if r < 0.5:
            k = rng.random()
            if k < 0.5:
                s = "".join(rng.choice(ALPHABET + ['"', '"', "\\", "\n"]) for _ in range(rng.choice([1, 2, 3, 4, 5, 6, 8])))
            elif k < 0.7:
                s = rng.choice(["\n", "", "x\n"]) + rng.choice(['"', '""', '"""', '""""', '"""""', '""""""', '\\"', '\\""', '\\"""', 'a"', '"a',
                                                                '\\', '\\\\', '"\\', '"\\"', '""\\"', "\r", "\r\n", '"\r', '\r"'])
                if rng.random() < 0.5:
                    s = s + rng.choice(["\n", "x", ""])
            else:
                s = rand_unicode(rng, rng.choice([1, 2, 4, 8, 16]))
            return {"mode": "string", "s": s}
        parts = []
        for _ in range(rng.choice([1, 2, 3, 5, 7])):
            k = rng.random()
            if k < 0.3:
                parts.append(rng.choice(['"', '""', '"""', '""""', '"""""', '""""""', "'", "'''"]))
            elif k < 0.55:
                parts.append(rng.choice(["\\u00e9", "\\u0041", "\\U0001F600", "\\U00110000", "\\UFFFFFFFF", "\\uD800", "\\u00E",
                                         "\\U0001F60", "\\uzzzz", "\\Uzzzzzzzz", "\\n", "\\t", "\\b", "\\f", "\\r", "\\'", '\\"', "\\\\",
                                         "\\x", "\\a", "\\v", "\\", "\\u", "\\U", "\\e", "\\0"]))
            elif k < 0.65:
                parts.append(rng.choice(["\n", "\r", "\r\n"]))
            else:
                parts.append(rand_unicode(rng, rng.choice([1, 2, 3])))
        s = "".join(parts)
        if rng.random() < 0.5:
            s += rng.choice(['"', '"""', '" .', '""" .', '"""" .'])
        return {"mode": "raw", "triple": rng.random() < 0.6, "s": s}

    _parser = None

    def run_impl(self, case):
        if case["mode"] == "raw":
            if TtlString._parser is None:
                TtlString._parser = _n3.SinkParser(_n3.RDFSink(Graph()), baseURI="http://e/", turtle=True)
            p = TtlString._parser
            try:
                j, v = p.strconst(case["s"], 0, '"""' if case["triple"] else '"')
                return {"raw": [v, case["s"][j:]]}
            except CaseTimeout:
                raise
            except BaseException:  # noqa: BLE001  (AssertionError, IndexError, BadSyntax)
                return {"raw": None}
        text = Literal(case["s"])._quote_encode()
        try:
            g = Graph()
            g.parse(data="<http://e/s> <http://e/p> " + text + " .", format="turtle")
            (o,) = [o for _, _, o in g]
            back = str.__str__(o) if isinstance(o, Literal) and o.datatype is None and o.language is None else None
        except CaseTimeout:
            raise
        except Exception:  # noqa: BLE001
            back = None
        # the same text as Literal.n3() and the Turtle serialiser print it
        assert Literal(case["s"]).n3() == text
        return {"text": text, "back": back}

    def coq_case(self, case):
        if case["mode"] == "raw":
            return f"TtlRaw {cbool(case['triple'])} {cstr(case['s'])}"
        return f"TtlString {cstr(case['s'])}"

    def coq_obs(self, obs):
        if "raw" in obs:
            return "ObsRaw " + copt(obs["raw"], lambda p: ctuple(cstr(p[0]), cstr(p[1])))
        return f"ObsString {cstr(obs['text'])} {copt(obs['back'], cstr)}"

    def features(self, case, obs):
        f = {"mode_" + case["mode"]: 1}
        if case["mode"] == "string":
            f["triple_quoted_branch"] = int("\n" in case["s"])
            f["has_quote"] = int('"' in case["s"])
            f["ends_with_quote"] = int(case["s"].endswith('"'))
        else:
            f["raw_accepted"] = int(obs.get("raw") is not None)
        return f

    def shrink(self, case):
        s = case["s"]
        for i in range(len(s)):
            yield dict(case, s=s[:i] + s[i + 1:])

    def sweep(self):
        for s in small_strings(3):
            yield {"mode": "string", "s": s}
            yield {"mode": "string", "s": "\n" + s}
            yield {"mode": "raw", "triple": False, "s": s + '"'}
            yield {"mode": "raw", "triple": True, "s": s + '"""'}
        # the part of K2 that is not proved (three-quote form with quotes inside): every string of length <= 6
        # over quote, backslash, line feed, 'a'
        for n in range(1, 7):
            for tup in itertools.product('"\\\na', repeat=n):
                if "\n" in tup and '"' in tup:
                    yield {"mode": "string", "s": "".join(tup)}


# ---------------------------------------------------------------- graph level: conformance only
TRIGGER_NUM = {"F15": 1, "F15b": 2, "F15c": 3, "F15d": 4, "F15e": 5, "F15f": 6, "F15g": 7, "F15h": 8,
               "F15i": 9, "F15j": 10, "F15k": 11, "F15l": 12, "F15m": 13, "F15n": 14, "F15o": 15, "F15p": 16, "F15r": 17, "F15s": 18, "F15t": 19, "F15u": 20}
FIXED_FINDINGS = {"F15b", "F15e", "F15f", "F15h", "F15m", "F15o", "F15r", "F15u"}   # repaired in /repo
BINDS = [None, None, [["ex", "http://e/"], ["ns", "http://e/ns#"]], [["", "http://e/"]], [["ex", "http://e/ns#"]]]
BASES = [None, None, None, "http://e/", "http://e/", "http://other.org/"]


class RoundTrip(Suite):
    """serialise -> parse -> compare up to blank-node renaming, all eight serialisers.  There is NO Coq model of
    the serialisers behind this suite: the Coq side only records 'round trip fine' and the number of the known
    finding whose input-side trigger holds (harness: triggers()).  Conformance testing."""
    name = "roundtrip"
    imports = "From RV Require Import Codec.Model."
    case_ty = "rt_case"
    obs_ty = "N"
    model = "rt_model"
    oeq = "rt_obs_eqb"
    spec = "rt_spec"
    kf = "rt_kf"
    kf_ids = {v: k for k, v in TRIGGER_NUM.items() if k not in FIXED_FINDINGS}
    corr = "Graph.serialize / Graph.parse for nt, turtle, longturtle, n3, xml, pretty-xml, json-ld, hext (conformance, no model)"
    quick_n = 1600
    thorough_n = 16000
    timeout_s = 2.0

    def gen(self, rng, i):
        graph, tags = gen_graph(rng)
        case = {"fmt": FORMATS[i % len(FORMATS)], "graph": graph, "base": rng.choice(BASES), "bind": rng.choice(BINDS),
                "tags": tags, "io": None}
        if case["fmt"] == "json-ld" and rng.random() < 0.35 and not any(t[1][1] == TYPE and t[2][0] != "I" for t in graph):
            # (rdf:type with a literal / blank-node object under an active context is left out: "@type" values are read
            #  back as IRIs - a further defect region of the compacting writer that is not examined here)
            # serialiser options: an active context (native JSON values, compaction)
            case["extra"] = rng.choice([{"auto_compact": True}, {"context": {"@vocab": "http://e/"}},
                                        {"context": {"ex": "http://e/", "ns": "http://e/ns#"}}])
            case["tags"] = tags + ["jsonld_context"]
        if case["fmt"] == "longturtle" and rng.random() < 0.4:
            case["extra"] = {"canon": True}      # the serialiser's own option: canonicalise before writing
            case["tags"] = tags + ["canon"]
        # a quarter of the cases go through a real file of 3-10 kB and a binary source
        if (i // len(FORMATS)) % 4 == 3:
            case["graph"] = pad_graph(rng, graph)
            case["io"] = IO_MODES[(i // (4 * len(FORMATS))) % len(IO_MODES)]
            case["tags"] = tags + ["io_" + case["io"]]
        return case

    def run_impl(self, case):
        if case["fmt"] in XML_FAMILY and xml_inexpressible(case["graph"]):
            return 1   # RDF/XML cannot express a predicate that is no XML name: outside the property
        v, _ = roundtrip(case["graph"], case["fmt"], case["base"], case["bind"], extra=case.get("extra"), io=case.get("io"))
        if v == "ok":
            return 1
        tr = triggers(case["graph"], case["fmt"], case["base"], case["bind"], case.get("extra"))
        if tr and residual_ok(case["graph"], case["fmt"], case["base"], case["bind"], tr, _last["A"], _last["B"], _last["exc"]):
            return 3    # not exact, but everything outside the known findings is intact / the damage is the predicted one
        return 0

    def on_timeout(self, case):
        return 0

    def coq_case(self, case):
        tr = triggers(case["graph"], case["fmt"], case["base"], case["bind"], case.get("extra"))
        return cN(TRIGGER_NUM[tr[0]] if tr else 0)

    def coq_obs(self, obs):
        return cN(obs)

    def nontrivial(self, case, obs):
        return len(case["graph"]) >= 2

    def features(self, case, obs):
        f = {"fmt_" + case["fmt"]: 1, "triples": len(case["graph"]), "ok": int(obs == 1),
             "base_given": int(case["base"] is not None), "prefixes_bound": int(case["bind"] is not None)}
        tr = triggers(case["graph"], case["fmt"], case["base"], case["bind"], case.get("extra"))
        f["trigger_free"] = int(not tr)
        fm = case["fmt"]
        # how each case was judged (per format): exact round trip demanded and met / inside a trigger and exact anyway /
        # inside a trigger and judged by the residual comparison (harness: residual_ok) / skipped as inexpressible
        if fm in XML_FAMILY and xml_inexpressible(case["graph"]):
            f["judged_%s_skipped_inexpressible" % fm] = 1
        elif not tr:
            f["judged_%s_exact" % fm] = 1
        elif obs == 1:
            f["judged_%s_in_trigger_exact" % fm] = 1
        elif obs == 3:
            f["judged_%s_in_trigger_residual" % fm] = 1
        f["unjudged"] = 0
        for t in tr[:1]:
            f["trigger_" + t] = 1
        for t in set(case.get("tags", [])):
            f["shape_" + t] = 1
        return f

    def shrink(self, case):
        g = case["graph"]
        for i in range(len(g)):
            if len(g) > 1:
                yield dict(case, graph=g[:i] + g[i + 1:])
        for i, t in enumerate(g):          # long (padded) literals: cut runs out of the middle first
            x = t[2]
            if x[0] == "L" and len(x[1]) > 40:
                n = len(x[1])
                for a, b in ((n // 4, n // 2), (n // 2, 3 * n // 4), (n // 8, n // 4), (0, n // 8), (7 * n // 8, n)):
                    yield dict(case, graph=g[:i] + [[t[0], t[1], ["L", x[1][:a] + x[1][b:], x[2], x[3]]]] + g[i + 1:])
        if case["base"] is not None:
            yield dict(case, base=None)
        if case["bind"] is not None:
            yield dict(case, bind=None)
        for i, t in enumerate(g):
            for j, x in enumerate(t):
                if x[0] == "L" and 1 < len(x[1]) <= 40:
                    for k in range(len(x[1])):
                        t2 = list(t)
                        t2[j] = ["L", x[1][:k] + x[1][k + 1:], x[2], x[3]]
                        yield dict(case, graph=g[:i] + [t2] + g[i + 1:])

    def sweep(self):
        """every format x every single-triple graph over a literal pool that covers the alphabet, and the fixed
        structural shapes"""
        s, p = I("http://e/a"), I("http://e/p")
        lits = [L(x) for x in small_strings(2)] + [L(x, lang="en") for x in small_strings(1)]
        for dt, pool in sorted(TYPED.items()):
            for lex in (pool or ["x", "", "a\nb", '"'] ):
                lits.append(L(lex, dt=dt))
        shapes = [[[s, p, o]] for o in lits]
        b1, b2, b3 = Bn("b1"), Bn("b2"), Bn("b3")
        shapes += [
            [[s, p, b1], [b1, p, b2], [b2, p, L("x")]],
            [[b1, p, b2], [b2, p, b1]],
            [[b1, p, b1]],
            [[s, p, b1], [I("http://e/b"), p, b1], [b1, p, L("x")]],
            [[s, p, b1], [b1, I(FIRST), L("x")], [b1, I(REST), b2], [b2, I(FIRST), I("http://e/b")], [b2, I(REST), I(NIL)]],
            [[s, p, I(NIL)]],
            [[b1, I(FIRST), s], [b1, I(REST), I(NIL)]],
            [[b1, I(FIRST), s], [b1, I(REST), b2], [b2, I(FIRST), s], [b2, I(REST), b1]],
            [[b1, I(FIRST), s], [b1, I(REST), b1]],
            [[s, p, b1], [b1, I(FIRST), s], [b1, I(REST), b2], [b2, I(FIRST), s], [b2, I(REST), b1]],
            [[s, p, b1], [b1, I(FIRST), s]],
            [[s, p, b1], [b1, I(REST), I(NIL)]],
            [[s, p, b1], [b1, I(FIRST), s], [b1, I(REST), b3], [b2, I(FIRST), s], [b2, I(REST), b3], [s, p, b2],
             [b3, I(FIRST), s], [b3, I(REST), I(NIL)]],
            [[b1, p, L("x")]],
            [[s, I(TYPE), b1]],
            [[s, I(TYPE), L("x")]],
        ]
        for u in EXOTIC_IRIS:
            shapes.append([[I(u), p, I(u)]])
        for q, _ in EXOTIC_PREDS:
            shapes.append([[s, I(q), s]])
        for fmt in FORMATS:
            for g in shapes:
                for base, bind in ((None, None), ("http://e/", [["ex", "http://e/"]])):
                    yield {"fmt": fmt, "graph": g, "base": base, "bind": bind, "tags": ["sweep"]}



# ---------------------------------------------------------------- K3: one HexTuples row
from rdflib.plugins.serializers.hext import HextuplesSerializer as _HextSer  # noqa: E402

HX_IRIS = ["http://e/a", "urn:x:y", "http://e/\u00e9", "a:b", "_x:y", "globalId", "http://e/_:x"]
HX_LABELS = ["b1", "N0af3", "a_:b", "ab", "x_", "_:_:a", "a:_b", "_"]
HX_FIELDS = ["", "_:b1", "_b", "_", "_:", "http://e/a", "globalId", "localId", "x", "en", "e n", "EN-us", XSD + "string",
             RDFNS + "langString", "http://e/dt", "dt", "_:a_:b", "a b", "urn:g"]


def c_res(r):
    return copt(r, lambda x: ctuple(c_triple(x[0]), copt(x[1], c_node)))


class HextRow(Suite):
    name = "hext_row"
    imports = "From RV Require Import Codec.Model Codec.Hext."
    case_ty = "hx_case"
    obs_ty = "hx_obs"
    model = "hx_model"
    oeq = "hx_obs_eqb"
    spec = "hx_spec"
    kf = "hx_kf"
    kf_ids = {1: "F15q"}
    corr = "serializers/hext.py:HextuplesSerializer._hex_line,_iri_or_bn; parsers/hext.py:HextuplesParser.parse (line post-processing),_parse_hextuple"
    quick_n = 500
    thorough_n = 6000
    timeout_s = 5.0

    def gen(self, rng, i):
        if rng.random() < 0.55:
            def node():
                return ["I", rng.choice(HX_IRIS)] if rng.random() < 0.6 else ["B", rng.choice(HX_LABELS)]
            r = rng.random()
            if r < 0.35:
                o = node()
            else:
                lex = rng.choice(["x", "", "a b", "_:b", "\u00e9\n\"", "globalId"])
                k = rng.random()
                o = ["L", lex, None, None] if k < 0.35 else ["L", lex, rng.choice(["en", "EN-us", "x-1"]), None] if k < 0.65 else \
                    ["L", lex, None, rng.choice(["http://e/dt", XSD + "string", RDFNS + "langString", "urn:x:dt"])]
            return {"mode": "row", "t": [node(), ["I", rng.choice(HX_IRIS[:4])], o]}
        row = [rng.choice(HX_FIELDS) for _ in range(6)]
        if rng.random() < 0.7:
            row[0] = rng.choice(["http://e/a", "_:b1", "_:a_:b", "_x"])
            row[1] = "http://e/p"
            row[3] = rng.choice(["globalId", "localId", XSD + "string", RDFNS + "langString", "http://e/dt"])
            if rng.random() < 0.6:
                row[5] = ""
        if row[5] == "_:":
            row[5] = "_:g"   # an empty blank-node graph name is replaced by a fresh one in Dataset.get_context: not a row matter
        return {"mode": "parse", "row": row}

    @staticmethod
    def read(line):
        g = Graph()
        try:
            g.parse(data=line, format="hext")
        except CaseTimeout:
            raise
        except Exception:  # noqa: BLE001
            return None
        out = []
        for (s_, p_, o_), ctxs in g.store.triples((None, None, None), None):
            for c in ctxs:
                ident = c.identifier if hasattr(c, "identifier") else c
                def conv(x):
                    if isinstance(x, BNode):
                        return ["B", str.__str__(x)]
                    if isinstance(x, Literal):
                        return ["L", str.__str__(x), None if x.language is None else str.__str__(x.language),
                                None if x.datatype is None else str.__str__(x.datatype)]
                    return ["I", str.__str__(x)]
                ctx = None if str.__str__(ident) == str.__str__(g.identifier) and type(ident) is type(g.identifier) else conv(ident)
                out.append([[conv(s_), conv(p_), conv(o_)], ctx])
        if len(out) != 1:
            return ["?", len(out)]
        return HextRow.relabel(out[0], line)

    _keeps_labels = None

    @staticmethod
    def relabel(res, line):
        """The model identifies a blank node by the label the reader computes from the document (str.replace of the
        marker).  If the reader under test hands out fresh BNodes per document instead of keeping that label (label
        scoping, C12), the labels themselves are unobservable: blank nodes of the answer are then named after the
        document column they came from, provided 'same computed label <-> same node' holds inside the row."""
        if HextRow._keeps_labels is None:
            g = Graph()
            g.parse(data='["_:zz", "http://e/p", "x", "http://www.w3.org/2001/XMLSchema#string", "", ""]\n', format="hext")
            HextRow._keeps_labels = [str.__str__(s_) for s_, _, _ in g] == ["zz"]
        if HextRow._keeps_labels:
            return res
        row = json.loads(line)
        (s_, p_, o_), ctx = res
        pairs = []   # (observed label, label computed from the column)
        if s_[0] == "B":
            pairs.append((s_[1], row[0].replace("_:", "")))
        if o_[0] == "B":
            pairs.append((o_[1], row[2].replace("_:", "")))
        if ctx is not None and ctx[0] == "B":
            pairs.append((ctx[1], row[5].replace("_:", "")))
        fwd, bwd = {}, {}
        for a, b in pairs:
            if fwd.setdefault(a, b) != b or bwd.setdefault(b, a) != a:
                return res    # not a function of the computed label: leave as observed (will disagree with the model)
        def fix(x):
            return ["B", fwd[x[1]]] if x is not None and x[0] == "B" else x
        return [[fix(s_), p_, fix(o_)], fix(ctx)]

    def run_impl(self, case):
        if case["mode"] == "parse":
            return {"p": self.read(json.dumps(case["row"]) + "\n")}
        t = tuple(to_term_nt(x) for x in case["t"])
        line = _HextSer(Graph())._hex_line(t, "")
        row = json.loads(line)
        return {"row": row, "back": self.read(line)}

    def coq_case(self, case):
        if case["mode"] == "parse":
            return "HxParse " + clist(cstr(x) for x in case["row"])
        return "HxRow " + c_triple(case["t"])

    def coq_obs(self, obs):
        def res(r):
            if r is not None and r[0] == "?":
                return "(Some ((Iri [], [], ONode (Iri [])), Some (Iri [63])))"   # never equal to a model answer
            return c_res(r)
        if "p" in obs:
            return "HxObsParse " + res(obs["p"])
        return "HxObsRow " + clist(cstr(x) for x in obs["row"]) + " " + res(obs["back"])

    def features(self, case, obs):
        f = {"mode_" + case["mode"]: 1}
        if case["mode"] == "parse":
            f["parse_accepted"] = int(obs["p"] is not None)
        return f

    def shrink(self, case):
        return []

    def sweep(self):
        for s_ in [["I", u] for u in HX_IRIS] + [["B", l_] for l_ in HX_LABELS]:
            for o in [["I", "http://e/a"], ["B", "a_:b"], ["B", "b1"], ["L", "", None, None], ["L", "x", "en", None],
                      ["L", "x", None, "http://e/dt"], ["L", "x", None, XSD + "string"]]:
                yield {"mode": "row", "t": [s_, ["I", "http://e/p"], o]}
        for f3 in HX_FIELDS:
            for f4 in ["", "en", "e n"]:
                for f2 in ["", "x", "_:b_:c"]:
                    for f5 in ["", "urn:g", "_:g", "_g"]:
                        yield {"mode": "parse", "row": ["http://e/a", "http://e/p", f2, f3, f4, f5]}



# ---------------------------------------------------------------- K4 (first part): isValidList / doList
from rdflib.plugins.serializers.turtle import TurtleSerializer as _TurtleSer  # noqa: E402
from rdflib.plugins.serializers.longturtle import LongTurtleSerializer as _LongTurtleSer  # noqa: E402

TL_TERMS = {1: URIRef(FIRST), 2: URIRef(REST), 3: URIRef(NIL), 4: URIRef("http://e/p"), 5: URIRef(TYPE)}
TL_TERMS.update({i: URIRef("http://e/n%d" % i) for i in range(10, 15)})
TL_TERMS.update({i: BNode("b%d" % i) for i in range(20, 26)})
TL_TERMS.update({30: Literal(""), 31: Literal("x"), 32: Literal(0), 33: Literal(1)})
TL_FALSY = [30, 32]
TL_BACK = {tkey_: i for i, tkey_ in ((i, key(t)) for i, t in TL_TERMS.items())}


class TtlList(Suite):
    name = "ttl_islist"
    imports = "From RV Require Import Codec.TurtleList."
    case_ty = "tl_case"
    obs_ty = "tl_obs"
    model = "tl_model"
    oeq = "tl_obs_eqb"
    spec = "tl_spec"
    kf = "tl_kf"
    kf_ids = {}      # F15r repaired by 0dee69e9: tl_kf is 0
    corr = "serializers/turtle.py + longturtle.py: isValidList, doList (with RecursiveSerializer.preprocess reference counts)"
    quick_n = 600
    thorough_n = 8000
    timeout_s = 1.0

    # case = {"g": [[s,p,o]...], "ser": [ids], "head": id, "long": bool}
    def gen(self, rng, i):
        g = []
        cells = rng.sample(range(20, 26), rng.choice([1, 2, 3, 4]))
        members = [10, 11, 12, 20, 21, 31, 30, 33, 3]
        for k, c in enumerate(cells):
            g.append([c, 1, rng.choice(members)])
            r = rng.random()
            nxt = cells[k + 1] if k + 1 < len(cells) else 3
            if r < 0.70:
                g.append([c, 2, nxt])
            elif r < 0.80:
                g.append([c, 2, rng.choice(cells)])            # cycle / shared
            elif r < 0.88:
                g.append([c, 2, rng.choice([30, 31, 32, 10, 11])])   # odd tail
            elif r < 0.94:
                g.append([c, 4, rng.choice(members)])          # a property instead of rdf:rest
            # else: no rest at all
        for _ in range(rng.choice([0, 0, 1, 2, 3])):
            k = rng.random()
            if k < 0.35:
                g.append([rng.choice([10, 11, 12]), 4, rng.choice(cells)])       # references
            elif k < 0.5:
                g.append([rng.choice(cells), rng.choice([1, 2, 4, 5]), rng.choice(members)])   # extra property on a cell
            elif k < 0.62:
                g.append([3, rng.choice([1, 2, 4]), rng.choice(cells + [10, 3])])  # rdf:nil with properties
            elif k < 0.8:
                g.append([rng.choice([10, 11]), rng.choice([1, 2, 4]), rng.choice(members + cells)])
            else:
                g.append([rng.choice(cells), 2, rng.choice(cells)])
        if rng.random() < 0.3:
            rng.shuffle(g)
        seen, gg = set(), []
        for t in g:
            if tuple(t) not in seen:
                seen.add(tuple(t))
                gg.append(t)
        ser = [c for c in cells if rng.random() < 0.12]
        return {"g": gg, "ser": ser, "head": rng.choice(cells + cells + [10, 3]), "long": rng.random() < 0.3}

    def run_impl(self, case):
        g = Graph()
        for t in case["g"]:
            g.add(tuple(TL_TERMS[x] for x in t))
        ser = (_LongTurtleSer if case["long"] else _TurtleSer)(g)
        ser.preprocess()
        for x in case["ser"]:
            ser._serialized[TL_TERMS[x]] = True
        v = bool(ser.isValidList(TL_TERMS[case["head"]]))
        if not v:
            return [False, []]
        pairs, pending = [], []
        ser.path = lambda item, position, newline=False: pending.append(item)
        ser.subjectDone = lambda cell: pairs.append([TL_BACK[key(cell)], TL_BACK[key(pending.pop())]])
        ser.write = lambda text: None
        ser.doList(TL_TERMS[case["head"]])
        return [True, pairs]

    def on_timeout(self, case):
        return [True, None]

    def coq_case(self, case):
        g = clist(ctuple(cN(a), cN(b), cN(c)) for a, b, c in case["g"])
        return "{| tg := %s; tser := %s; tfalsy := %s; thead := %s |}" % (
            g, clist(cN(x) for x in case["ser"]), clist(cN(x) for x in TL_FALSY), cN(case["head"]))

    def coq_obs(self, obs):
        return ctuple("Some " + cbool(obs[0]), copt(obs[1], lambda l: clist(ctuple(cN(a), cN(b)) for a, b in l)))

    def nontrivial(self, case, obs):
        return len(case["g"]) >= 2

    def features(self, case, obs):
        return {"accepted_as_list": int(obs[0]), "members_written": len(obs[1] or []), "doList_timeout": int(obs[1] is None),
                "longturtle": int(case["long"])}

    def shrink(self, case):
        for i in range(len(case["g"])):
            yield dict(case, g=case["g"][:i] + case["g"][i + 1:])
        if case["ser"]:
            yield dict(case, ser=[])

    def sweep(self):
        """all graphs of at most 3 triples over two cells, two predicates (first, rest) + p, objects cell/nil/IRI/falsy literal"""
        trip = [[s_, p_, o] for s_ in (20, 21, 3) for p_ in (1, 2, 4) for o in (20, 21, 3, 10, 30)]
        for n in (1, 2, 3):
            for combo in itertools.combinations(trip, n):
                if n == 3 and sum(1 for t in combo if t[0] == 3) > 1:
                    continue
                for ser in ([], [21]):
                    yield {"g": [list(t) for t in combo], "ser": ser, "head": 20, "long": False}



# ---------------------------------------------------------------- K4 statement layer: Turtle text for graphs without blank nodes
TS_IRIS = ["http://e/a", "http://e/b", "http://e/ns#x", "urn:x:y", "http://e/", "http://e/a.b", "http://e/a.", "http://e/1",
           "http://e/a-b", "http://e/\u00e9", "http://other.org/x", NIL, "http://e/ns#", "http://e/a/b/", "http://e/(x)",
           "http://e/a,b", "http://e/a;b", "http://e/_a", RDFNS + "List", XSD + "integer", "http://e/a%20b", "mailto:x@y",
           TYPE, TYPE]
TS_PREDS = ["http://e/p", "http://e/q", TYPE, "http://e/ns#r", "http://e/p.", "http://e/", "http://other.org/p", "urn:x:p",
            RDFNS + "value", "http://e/1p", "http://e/p-q", NIL]
TS_BINDS = [None, None, [["ex", "http://e/"]], [["", "http://e/"], ["ns", "http://e/ns#"]], [["_u", "http://e/"]],
            [["ex", "http://e/ns#"], ["o", "http://other.org/"]], [["rdf", "http://e/"]]]


def c_tterm(x):
    if x[0] == "I":
        return f"(TIri {cstr(x[1])})"
    if x[0] == "B":
        return f"(TBn {cstr(x[1])})"
    return f"(TLit {cstr(x[1])} {copt(x[2], cstr)} {copt(x[3], cstr)})"


def c_ttriple(t):
    return ctuple(c_tterm(t[0]), cstr(t[1][1]), c_tterm(t[2]))


class TtlStmt(Suite):
    name = "ttl_stmt"
    imports = "From RV Require Import Codec.Model Codec.TurtleStmt."
    case_ty = "ts_case"
    obs_ty = "ts_obs"
    model = "ts_model"
    oeq = "ts_obs_eqb"
    spec = "ts_spec"
    corr = ("serializers/turtle.py: TurtleSerializer.serialize, startDocument, statement, s_default, predicateList, verb, "
            "objectList, path, p_default, label; term.py: Literal._literal_n3(use_plain=True); read back by the turtle parser")
    quick_n = 350
    thorough_n = 6000
    timeout_s = 5.0

    def gen_obj(self, rng):
        r = rng.random()
        if r < 0.35:
            return ["I", rng.choice(TS_IRIS)]
        lex = gen_string(rng) if rng.random() < 0.7 else rng.choice(["x", "5", "true", "-12", "a b", ""])
        k = rng.random()
        if k < 0.3:
            return ["L", lex, None, None]
        if k < 0.5:
            return ["L", lex, rng.choice(["en", "en-US", "x-1"]), None]
        if k < 0.65:
            return ["L", rng.choice(["0", "5", "-12", "12345678901234567890", "7"]), None, XSD + "integer"]
        if k < 0.75:
            return ["L", rng.choice(["true", "false"]), None, XSD + "boolean"]
        return ["L", lex, None, rng.choice(["http://e/dt", XSD + "string", "http://e/ns#dt", "urn:x:dt", XSD + "token2", "http://e/dt."])]

    def gen(self, rng, i):
        subs = [["I", u] for u in rng.sample(TS_IRIS, rng.choice([1, 1, 2, 3]))]
        # blank nodes that are written as labels: every one is referenced (as an object) at least twice
        bns = [["B", x] for x in rng.sample(["b1", "b2", "N0af3", "x-1", "a.b", "b_2"], rng.choice([0, 0, 1, 2]))]
        g, seen = [], set()

        def add(t):
            if repr(t) not in seen:
                seen.add(repr(t))
                g.append(t)

        def pred():
            return ["I", rng.choice(TS_PREDS[:4] if rng.random() < 0.7 else TS_PREDS)]
        for _ in range(rng.choice([1, 2, 3, 4, 6])):
            add([rng.choice(subs + bns), pred(), self.gen_obj(rng)])
        for b in bns:
            refs = 0
            while refs < 2:
                before = len(g)
                add([rng.choice(subs + bns), pred(), b])
                refs += len(g) - before
        # blank nodes that are written nested, [ ... ]: referenced exactly once, by an IRI subject; their own statements
        # have IRI / literal / labelled-blank-node objects only (one level); some have no statement at all ([ ])
        for x in rng.sample(["n1", "n2", "n3"], rng.choice([0, 0, 1, 1, 2])):
            nb = ["B", x]
            add([rng.choice(subs), pred(), nb])
            for _ in range(rng.choice([0, 1, 2, 3])):
                o = rng.choice(bns) if bns and rng.random() < 0.2 else self.gen_obj(rng)
                add([nb, pred(), o])
        return {"graph": g, "bind": rng.choice(TS_BINDS)}

    _memo = {}

    def analyse(self, case):
        k = json.dumps(case, sort_keys=True)
        if k in self._memo:
            return self._memo[k]
        g = build(case["graph"], case["bind"])
        ser = _TurtleSer(g)
        stream = io_mod.BytesIO()
        top = []
        orig_statement = ser.statement

        def rec_statement(subject):
            top.append(subject)
            return orig_statement(subject)
        ser.statement = rec_statement
        try:
            ser.serialize(stream)
            text = stream.getvalue().decode("utf-8")
        except CaseTimeout:
            raise
        except Exception as e:  # noqa: BLE001
            res = {"error": type(e).__name__}
            self._memo[k] = res
            return res

        def ab(x, parsed=False):
            if isinstance(x, Literal):
                return ["L", str.__str__(x), None if x.language is None else str.__str__(x.language),
                        None if x.datatype is None else str.__str__(x.datatype)]
            if isinstance(x, BNode):
                lab = str.__str__(x)
                if parsed:
                    # the Turtle reader renames the k-th distinct _:label of the document to <letter><32 hex digits>b<k>;
                    # the model keeps the label, so the document's own label is put back here (renaming is C12's subject)
                    m = re.match(r"^[a-z][0-9a-f]{32}b([0-9]+)$", lab)
                    k = int(m.group(1)) if m else 0
                    lab = doc_labels[k - 1] if 0 < k <= len(doc_labels) else "?" + lab
                return ["B", lab]
            return ["I", str.__str__(x)]
        def plist(s_):
            props = ser.buildPredicateHash(s_)
            return [[str.__str__(p_), [ab(o) for o in props[p_]]] for p_ in ser.sortProperties(props)]
        # the observed plan: the subjects statement() was called for, in that order; every other blank node that has been
        # written (or has nothing to write) and is referenced at most once is a nested one
        plan = [[ab(s_), plist(s_)] for s_ in top]
        topset = {str.__str__(x) for x in top if isinstance(x, BNode)}
        nests = {}
        for _, pl_ in plan:
            for _, os in pl_:
                for o in os:
                    if o[0] == "B" and o[1] not in topset and ser._references[BNode(o[1])] <= 1:
                        nests[o[1]] = plist(BNode(o[1]))
        sup = [o[1] for _, pl_ in plan for _, os in pl_ for o in os if o[0] == "B" and o[1] in nests]
        # labels in the order in which the reader creates nodes: the k-th distinct _:label or opening bracket
        doc_labels, k_sup = [], 0
        for m_ in re.finditer(r"(?:^|[ \n])(_:[^ \n,]+|\[)", text):
            tok = m_.group(1)
            if tok == "[":
                doc_labels.append(sup[k_sup] if k_sup < len(sup) else "?")
                k_sup += 1
            elif tok[2:] not in doc_labels:
                doc_labels.append(tok[2:])
        ns = [[str(a), str.__str__(b)] for a, b in sorted(ser.namespaces.items())]   # the header, before any further query
        q = []
        iris = set()
        for s_, plist_ in plan + [[["B", k_], v_] for k_, v_ in nests.items()]:
            if s_[0] == "I":
                iris.add((False, s_[1]))
            for p_, os in plist_:
                iris.add((True, p_))
                for o in os:
                    if o[0] == "I":
                        iris.add((False, o[1]))
                    elif o[0] == "L" and o[3] is not None:
                        iris.add((False, o[3]))
        for verb, u in sorted(iris):
            if u == NIL or (verb and u == TYPE):
                continue        # written as () / a: label() does not ask getQName
            r = ser.getQName(URIRef(u), verb)
            if r is not None:
                pre, loc = r.split(":", 1)
                q.append([verb, u, pre, loc])
        # read the text back with rdflib's own parser
        try:
            g2 = Graph().parse(data=text, format="turtle")
            got = {json.dumps([ab(x, True) for x in t]) for t in g2}
            want = []
            for s_, plist_ in plan:
                for p_, os in plist_:
                    for o in os:
                        want.append([s_, ["I", p_], o])
                        if o[0] == "B" and o[1] in nests:
                            want += [[o, ["I", p2], o2] for p2, os2 in nests[o[1]] for o2 in os2]
            back = [t for t in want if json.dumps(t) in got]
            extra = sorted(got - {json.dumps(t) for t in want})
            back += [json.loads(x) for x in extra]
        except CaseTimeout:
            raise
        except Exception:  # noqa: BLE001
            back = None
        res = {"text": text, "plan": plan, "q": q, "ns": ns, "back": back, "nests": [[k_, v_] for k_, v_ in nests.items()]}
        self._memo[k] = res
        if len(self._memo) > 3000:
            self._memo.clear()
        return res

    def run_impl(self, case):
        a = self.analyse(case)
        if "error" in a:
            return {"text": "!" + a["error"], "back": None}
        return {"text": a["text"], "back": a["back"]}

    def coq_case(self, case):
        a = self.analyse(case)
        if "error" in a:
            a = {"plan": [], "q": [], "ns": [], "nests": []}

        def c_plist(pl_):
            return clist(ctuple(cstr(p_), clist(c_tterm(o) for o in os)) for p_, os in pl_)
        plan = clist(ctuple(c_tterm(s_), c_plist(pl_)) for s_, pl_ in a["plan"])
        nest = clist(ctuple(cstr(k_), c_plist(v_)) for k_, v_ in a["nests"])
        q = clist(ctuple(ctuple(cbool(v), cstr(u)), ctuple(cstr(pre), cstr(loc))) for v, u, pre, loc in a["q"])
        ns = clist(ctuple(cstr(x), cstr(y)) for x, y in a["ns"])
        gtr = clist(c_ttriple(t) for t in case["graph"])
        return "{| ts_g := %s; ts_ns := %s; ts_q := %s; ts_nest := %s; ts_plan := %s |}" % (gtr, ns, q, nest, plan)

    def coq_obs(self, obs):
        return ctuple(cstr(obs["text"]), copt(obs["back"], lambda l: clist(c_ttriple(t) for t in l)))

    def features(self, case, obs):
        a = self.analyse(case)
        return {"triples": len(case["graph"]), "prefixes_in_header": len(a.get("ns", [])), "prefixed_names": len(a.get("q", [])),
                "serialiser_raised": int("error" in a), "read_back_ok": int(obs["back"] is not None)}

    def shrink(self, case):
        g = case["graph"]
        for i in range(len(g)):
            if len(g) > 1:
                yield dict(case, graph=g[:i] + g[i + 1:])
        if case["bind"]:
            yield dict(case, bind=None)


SUITES = [NtText(), TtlString(), HextRow(), TtlList(), TtlStmt(), RoundTrip()]

TRUSTED = [
    "Coq 8.16.1 kernel and standard library; coqc -Q coq RV",
    "harness/c03.py drivers and the reading of Python objects into code-point lists (str.__str__, never __eq__/__hash__)",
    "K1/K2/K3 models (coq/Codec/Model.v, Hext.v) are tied to rdflib only by the differential suites nt_text, ttl_string, hext_row "
    "(all strings of length <= 2 (quick) / <= 3 (thorough) over the alphabet \\ \" ' LF CR TAB u U 0 a e-acute U+1F600 U+00A0 "
    "U+2028, random strings, damaged documents, documents longer than the 2048-character read buffer with line ends on the chunk "
    "boundaries, arbitrary six-column rows) and by the reflected tables coq/Gen/Tables_codec.v",
    "Literal.__new__ / URIRef / BNode constructors are outside the text-level models: the reader models end at the constructor "
    "arguments (covered by C07/C09); generated datatypes in nt_text / hext_row are ones rdflib does not normalise",
    "K1 models characters: readline's 2048-CHARACTER buffer is modelled (parse_doc_buf), the UTF-8 decoding of a byte source "
    "(codecs.StreamReader) is not - binary sources are exercised by conformance only (nt_text documents read from BytesIO, "
    "roundtrip cases through real files)",
    "K3: json.dumps / json.loads of a list of six str (CPython or orjson) is not modelled; the model is the six strings",
    "K4 statement layer (coq/Codec/TurtleStmt.v): blank nodes in the label form _:id and in the ONE-LEVEL nested form "
    "[ p o ; ... ] / [ ] (objects inside a bracket are IRIs, literals or labelled blank nodes); which blank nodes are written "
    "as labels and which are nested (the nest table) is part of the observed plan; deeper nesting and ( ) are not modelled. "
    "The reader model takes the labels of the bracketed nodes from a supply that is a parameter; the theorem and the suite "
    "use the supply that hands out the plan's labels in the order of the opening brackets (round trip up to the renaming of "
    "the bracketed nodes). The model keeps written labels, rdflib's Turtle reader "
    "renames the k-th distinct label or bracket of a document to <letter><32 hex>b<k> and harness ttl_stmt maps it back by "
    "order of appearance in the text before comparing; the plan (orderSubjects / buildPredicateHash / sortProperties incl. Python's "
    "ordering of terms), the prefixed-name decisions getQName -> NamespaceManager.compute_qname / split_uri and the final prefix "
    "table are INPUTS observed from the serialiser under test by harness ttl_stmt (the theorems quantify over all of them); that "
    "the plan covers the graph is checked per case, not proved. The reader model of that layer is a reader for the writer's "
    "sub-language, not a model of notation3.py: it is tied to notation3.py by comparing its triples with rdflib's parse of the "
    "same text. Python's value parsing behind the bare integer/boolean forms (Literal.value is not None) is not modelled: the "
    "generator uses -?[0-9]+ and true/false only; xsd:decimal / xsd:double shorthand (open findings F15, F15d) is not modelled",
    "suite roundtrip is DIFFERENTIAL TESTING WITH A PYTHON ORACLE, NOT PROOF: there is no Coq model of the eight serialisers / "
    "six parsers at graph level; the verdict is computed by harness/c03.py:isomorphic (backtracking blank-node bijection search), "
    "the trigger predicates harness/c03.py:triggers and, inside a trigger, harness/c03.py:residual_ok (Python); the Coq side "
    "(rt_model / rt_spec, lemma C03_rt_spec_glue) only compares two numbers and carries no obligation",
]
ASSUMPTIONS = [
    "strings are Python str values: every code point < 0x110000 (pystr_triple); lone surrogates are not generated (UTF-8 output)",
    "IRIs in wf_triple have a scheme (a ':' not in first position) and pass rdflib's own _is_valid_uri; blank-node labels have "
    "the shape of the reader's r_nodeid; language tags match the language-tag pattern on the whole string",
    "round trips with a base pass the same base to the parser (publicID), as a user reading back his own file would",
    "a predicate that cannot be written as an XML QName makes a graph inexpressible in RDF/XML (skipped for xml, pretty-xml)",
    "known-finding triggers (F15..F15s) are input-side predicates that over-approximate where each defect can manifest; inside a "
    "trigger the case is still judged: no exception other than the documented one (pretty-xml: SAXParseException for F15k, "
    "ValueError on a cyclic collection for F15l), no timeout, literals compared up to Literal() normalisation of the input (F15c), "
    "the predicted literal for F15 / F15d / F15s, exactly the unreachable blank nodes missing for F15i, and for F15g / F15j / F15n / "
    "F15l / F15k / F15p the graph minus the triples the finding concerns (IRIs that do not resolve back and their images; triples "
    "touching list cells, property-less blank-node objects and rdf:nil objects; rdf:type with an unsafe IRI; XMLLiterals) must "
    "round-trip - what is set aside there is NOT examined",
    "hext_row: if the reader under test scopes blank-node labels to the document (fresh BNodes), labels are compared as "
    "'function of the label computed from the column' instead of literally (HextRow.relabel)",
]
RULE = ("ttl_stmt: graphs of 1-6 triples over 23 IRIs and 0-2 blank nodes, each referenced at least twice so that the "
        "serialiser writes it as a label _:id (labels with '-', '.', '_'), plus 0-3 blank nodes referenced exactly once as "
        "the object of an IRI subject, with 0-3 own statements whose objects are IRIs / literals / labelled blank nodes, so that "
        "the serialiser writes them nested [ ... ] (about 60% of the cases have a bracket, some the empty [ ]); 23 IRIs (rdf:nil, rdf:type, IRIs with and without a "
        "prefixed form), 12 predicates, literals over the special alphabet with languages, custom / xsd:string datatypes, bare "
        "integers and booleans, 7 prefix-binding sets (empty prefix, '_' prefix, a prefix colliding with rdf); ttl_islist: list "
        "cells with cyclic / shared / odd tails; nt_text / ttl_string: all strings of length <= 2 over the 14-character alphabet first, then random triples, escape "
        "sequences, damaged documents and documents of 2-12 k characters with CR/LF/CRLF on the 2048-multiples (half of them read "
        "from a byte stream); hext_row: random triples over a vocabulary with '_' / '_:' inside labels and IRIs, and arbitrary "
        "six-column rows; distinct by full case content. roundtrip: a quarter of the cases is padded with runs of 2-, 3- and "
        "4-byte UTF-8 characters to 3-12 kB, written to a real file under build/c03_io and read back from the path / an open "
        "binary file / BytesIO / bytes; random graphs built from shapes (flat, tree, "
        "dag, blank-node cycle with/without IRI entry, self-loop, orphan, well-formed / nested / subject lists, 14 kinds of "
        "malformed lists) over a small IRI vocabulary plus up to 3 exotic IRIs, literals over the same alphabet, 22 datatypes with "
        "canonical and non-canonical lexical forms, language tags; one of 8 formats x base x prefix bindings per case; "
        "non-trivial = at least 2 triples")
