"""C12 - parsing only adds, and blank-node labels are scoped to one parse call.

Correspondence between coq/Parse/Model.v and Graph.parse / Dataset.parse with the
parsers nt, nquads, turtle, trig, xml, trix, json-ld, hext.  Documents are written
by the tiny writers below from abstract statement lists."""
from __future__ import annotations

import json
import random as _global_random
import warnings
from xml.sax.saxutils import escape, quoteattr

from .core import Suite, cN, cbool, clist, copt, ctuple, import_rdflib

rdflib = import_rdflib()
warnings.filterwarnings("ignore", category=DeprecationWarning)
from rdflib import BNode, Dataset, Graph, Literal, URIRef  # noqa: E402
from rdflib.graph import DATASET_DEFAULT_GRAPH_ID  # noqa: E402
from rdflib.namespace import XSD  # noqa: E402
from rdflib.plugins.stores.memory import Memory  # noqa: E402

# ------------------------------------------------------------------ vocabulary
# Terms cross the boundary as numbers (same numbering as coq/Parse/Model.v):
#   1..9     constants (IRIs and literals, the falsy literals "" and 0 included)
#   10       the tag predicate <http://e/tag>
#   100+L    the blank node whose id is the document label LABELS[L]  (BNode(label))
#   1001+2*(16*j+L)  the tag IRI <urn:tag:j:L> of label L in parse call j
#   1000+2*(16*j+L)  the blank node made for label L by parse call j (recognised by its tag triple)
#   900      a blank node that is neither (never produced by a correct parser on a tagged document)
# Graph ids: 0 = the dataset's default graph, 1..3 = <urn:g:k>, 50 = the identifier of the
# stand-alone Graph() of "plain" cases, 100+L / 1000+... = a blank-node-named graph.
CONSTS = {
    1: URIRef("http://e/a"),
    2: URIRef("http://e/b"),
    3: URIRef("http://e/p"),
    4: URIRef("http://e/q"),
    5: Literal(""),
    6: Literal("x", lang="en"),
    7: Literal(0),
    8: URIRef("http://e/c"),
    10: URIRef("http://e/tag"),
}
TAGP = 10
PREDS = (3, 4)
LITERALS = (5, 6, 7)
LABELS = ["b1", "x", "N0123456789abcdef0123456789abcdef", "n0123456789abcdef0123456789abcdefb1", "genid",
          "1", "2"]   # all-digit labels are legal in every syntax but RDF/XML (written "_1" there)
DIGIT_LABELS = (5, 6)
LABEL_IDX = {s: i for i, s in enumerate(LABELS)}
NLAB = 16
GRAPHS = {1: URIRef("urn:g:1"), 2: URIRef("urn:g:2"), 3: URIRef("urn:g:3")}
PLAIN = 50
FORMATS = ["nt", "nquads", "turtle", "trig", "xml", "trix", "json-ld", "hext", "n3"]
FMT_ID = {f: i for i, f in enumerate(FORMATS)}
QUAD_FORMATS = ("nquads", "trig", "trix", "json-ld", "hext")


def tag_id(j, lab):
    return 1001 + 2 * (NLAB * j + lab)


def fresh_id(j, lab):
    return 1000 + 2 * (NLAB * j + lab)


def is_tag(i):
    return i >= 1001 and i % 2 == 1


def _key(t):
    cls = type(t).__name__
    if isinstance(t, Literal):
        dt = None if t.datatype is None else str.__str__(t.datatype)
        if dt == str.__str__(XSD.string):
            dt = None
        lang = None if t.language is None else str.__str__(t.language).lower()
        return (cls, str.__str__(t), dt, lang)
    return (cls, str.__str__(t), None, None)


CONST_ID = {_key(t): i for i, t in CONSTS.items()}
MAXDOCS = 6
for _j in range(MAXDOCS):
    for _l in range(len(LABELS)):
        CONST_ID[("URIRef", f"urn:tag:{_j}:{_l}", None, None)] = tag_id(_j, _l)
GRAPH_ID = {_key(t): i for i, t in GRAPHS.items()}
GRAPH_ID[_key(DATASET_DEFAULT_GRAPH_ID)] = 0


def const_term(i):
    if i in CONSTS:
        return CONSTS[i]
    if 100 <= i < 100 + len(LABELS):
        return BNode(LABELS[i - 100])
    if is_tag(i):
        k = (i - 1001) // 2
        return URIRef(f"urn:tag:{k // NLAB}:{k % NLAB}")
    raise ValueError(i)


def graph_term(i):
    if i == 0:
        return DATASET_DEFAULT_GRAPH_ID
    if i in GRAPHS:
        return GRAPHS[i]
    if 100 <= i < 100 + len(LABELS):
        return BNode(LABELS[i - 100])
    raise ValueError(i)


# ------------------------------------------------------------------ document writers
# statement = [s, p, o, g]; s,o: n>0 constant n, n<0 label -(n)-1; p constant; g: 0 default graph,
# n>0 graph <urn:g:n>, n<0 the graph named by label -(n)-1.
def _lab(n):
    return LABELS[-n - 1]


def _nt_term(n):
    if n < 0:
        return "_:" + _lab(n)
    t = const_term(n)
    if isinstance(t, URIRef):
        return f"<{t}>"
    s = '"' + str(t).replace("\\", "\\\\").replace('"', '\\"') + '"'
    if t.language:
        return s + "@" + t.language
    if t.datatype is not None:
        return s + f"^^<{t.datatype}>"
    return s


def _nt_graph(g):
    return "_:" + _lab(g) if g < 0 else f"<{GRAPHS[g]}>"


def write_nt(stmts, variant=0):
    return "".join(f"{_nt_term(s)} {_nt_term(p)} {_nt_term(o)} .\n" for s, p, o, g in stmts)


def write_nquads(stmts, variant=0):
    out = []
    for s, p, o, g in stmts:
        gs = "" if g == 0 else " " + _nt_graph(g)
        out.append(f"{_nt_term(s)} {_nt_term(p)} {_nt_term(o)}{gs} .\n")
    return "".join(out)


def _ttl_term(n):
    if n > 0:
        t = const_term(n)
        if isinstance(t, URIRef) and str(t).startswith("http://e/"):
            return "e:" + str(t)[len("http://e/"):]
    return _nt_term(n)


def anon_plan(stmts, anon):
    """The labels (indexes) of [anon] that this document can write as an anonymous node
    [ p o ; ... ]: never a graph name, all occurrences in one graph, object of at most one statement
    (not of its own), no nesting of anonymous nodes."""
    cand = {-lab - 1 for lab in anon}
    ok = []
    for lab in anon:
        n = -lab - 1
        subj = [st for st in stmts if st[0] == n]
        objs = [st for st in stmts if st[2] == n]
        if not subj or len(objs) > 1 or any(st[3] == n for st in stmts):
            continue
        if any(st[3] != subj[0][3] for st in subj + objs):
            continue
        if any(st[2] in cand for st in subj) or any(st[0] in cand for st in objs):
            continue
        if lab not in ok:
            ok.append(lab)
    return ok


def _ttl_items(stmts, anon):
    """Statements as (graph, subject key, subject text, predicate text, object text); a label of
    anon_plan is written as a blank node property list at the place of the statement that has it
    as object (or, when there is none, as a statement of its own)."""
    plan = anon_plan(stmts, anon) if anon else []
    inner = {-lab - 1: [st for st in stmts if st[0] == -lab - 1] for lab in plan}

    def bracket(n):
        return "[ " + " ; ".join(f"{_ttl_term(p)} {_ttl_term(o)}" for _, p, o, _ in inner[n]) + " ]"

    items, done = [], set()
    for s, p, o, g in stmts:
        if s in inner:
            if not any(st[2] == s for st in stmts) and s not in done:
                done.add(s)
                items.append((g, ("anon", s), bracket(s), None, None))
            continue
        items.append((g, s, _ttl_term(s), _ttl_term(p), bracket(o) if o in inner else _ttl_term(o)))
    return items


def _ttl_block(items, variant):
    """Turtle statements; consecutive statements with the same subject are joined with ';'
    when variant is odd."""
    out, i = [], 0
    while i < len(items):
        key = items[i][1]
        k = i + 1
        if items[i][3] is None:
            out.append(f"{items[i][2]} .\n")
            i = k
            continue
        if variant & 1:
            while k < len(items) and items[k][1] == key and items[k][3] is not None:
                k += 1
        body = " ;\n    ".join(f"{pt} {ot}" for _, _, _, pt, ot in items[i:k])
        out.append(f"{items[i][2]} {body} .\n")
        i = k
    return "".join(out)


def path_plan(stmts, cand):
    """The labels (indexes) of [cand] that N3 path syntax can write: the label's only statements are its
    tag statement  L <tag> T  and one statement  x p L  of the same graph with x a constant; that statement
    is written  x p T^e:tag  (the node that has tag T)."""
    ok = []
    for lab in cand:
        n = -lab - 1
        subj = [st for st in stmts if st[0] == n]
        objs = [st for st in stmts if st[2] == n]
        if len(subj) == 1 and subj[0][1] == TAGP and len(objs) == 1 and objs[0][0] > 0 \
                and objs[0][3] == subj[0][3] and not any(st[3] == n for st in stmts):
            ok.append(lab)
    return ok


def write_n3(stmts, variant=0, anon=()):
    """Notation3: the Turtle text, with labels of [anon] written as [ ... ] or, where path_plan allows and
    variant & 2, with the N3 path operator ^ ."""
    paths = path_plan(stmts, anon) if variant & 2 else []
    rest = [lab for lab in anon if lab not in paths]
    pn = {-lab - 1 for lab in paths}
    tagof = {st[0]: st[2] for st in stmts if st[0] in pn}
    items = []
    for it in _ttl_items([st for st in stmts if st[0] not in pn], rest):
        items.append(it)
    # the object texts of the hosts of path nodes
    host = {}
    for st in stmts:
        if st[2] in pn:
            host[(st[0], st[1], st[2])] = f"{_ttl_term(tagof[st[2]])}^{_ttl_term(TAGP)}"
    out = []
    k = 0
    plain_stmts = [st for st in stmts if st[0] not in pn]
    # _ttl_items keeps one item per non-anonymous statement in order; patch the object text of path hosts
    plan = anon_plan(plain_stmts, rest) if rest else []
    inner = {-lab - 1 for lab in plan}
    j = 0
    for st in plain_stmts:
        if st[0] in inner:
            continue
        while items[j][3] is None:
            j += 1
        if (st[0], st[1], st[2]) in host:
            g, key, stext, ptext, _ = items[j]
            items[j] = (g, key, stext, ptext, host[(st[0], st[1], st[2])])
        j += 1
    return "@prefix e: <http://e/> .\n" + _ttl_block(items, variant)


def write_turtle(stmts, variant=0, anon=()):
    return "@prefix e: <http://e/> .\n" + _ttl_block(_ttl_items(stmts, anon), variant)


def write_trig(stmts, variant=0, anon=()):
    """Graph blocks follow the statement order: the same graph may be opened several times."""
    items = _ttl_items(stmts, anon)
    out, i = ["@prefix e: <http://e/> .\n"], 0
    while i < len(items):
        g = items[i][0]
        k = i + 1
        while k < len(items) and items[k][0] == g:
            k += 1
        body = _ttl_block(items[i:k], variant)
        if g == 0 and not variant & 2:
            out.append(body)
        elif g == 0:
            out.append("{\n" + body + "}\n")
        else:
            kw = "GRAPH " if variant & 4 else ""
            out.append(f"{kw}{_nt_graph(g)} {{\n{body}}}\n")
        i = k
    return "".join(out)


def _xml_lab(n):
    """rdf:nodeID must be an NCName: an all-digit label gets an underscore in front"""
    s = _lab(n)
    return "_" + s if s[0].isdigit() else s


XML_BASES = ["http://a.example/x/", "http://b.example/", "http://a.example/y/z"]


def _xml_prop(p, o, base=""):
    q = "e:" + str(const_term(p))[len("http://e/"):]
    if o < 0:
        return f'<{q}{base} rdf:nodeID={quoteattr(_xml_lab(o))}/>'
    t = const_term(o)
    if isinstance(t, URIRef):
        return f'<{q}{base} rdf:resource={quoteattr(str(t))}/>'
    if t.language:
        return f'<{q}{base} xml:lang={quoteattr(t.language)}>{escape(str(t))}</{q}>'
    if t.datatype is not None:
        return f'<{q}{base} rdf:datatype={quoteattr(str(t.datatype))}>{escape(str(t))}</{q}>'
    return f"<{q}{base}>{escape(str(t))}</{q}>"


def write_xml(stmts, variant=0):
    """variant & 1: statements with the same subject share one node element; & 2: node elements carry
    their own xml:base (a different one from element to element); & 4: property elements too.
    Every IRI of the suite is absolute, so the bases change nothing in the graph described."""
    out = ['<?xml version="1.0" encoding="utf-8"?>\n<rdf:RDF xmlns:rdf="http://www.w3.org/1999/02/22-rdf-syntax-ns#" '
           'xmlns:e="http://e/"' + (' xml:base="http://base.example/doc"' if variant & 6 else "") + '>\n']
    i, n = 0, 0

    def base(flag):
        nonlocal n
        if not variant & flag:
            return ""
        n += 1
        return f" xml:base={quoteattr(XML_BASES[n % len(XML_BASES)])}"

    while i < len(stmts):
        s = stmts[i][0]
        k = i + 1
        if variant & 1:
            while k < len(stmts) and stmts[k][0] == s:
                k += 1
        subj = f"rdf:nodeID={quoteattr(_xml_lab(s))}" if s < 0 else f"rdf:about={quoteattr(str(const_term(s)))}"
        out.append(f"<rdf:Description{base(2)} {subj}>" + "".join(_xml_prop(p, o, base(4)) for _, p, o, _ in stmts[i:k])
                   + "</rdf:Description>\n")
        i = k
    out.append("</rdf:RDF>\n")
    return "".join(out)


def _trix_term(n):
    if n < 0:
        return f"<id>{escape(_lab(n))}</id>"
    t = const_term(n)
    if isinstance(t, URIRef):
        return f"<uri>{escape(str(t))}</uri>"
    if t.language:
        return f'<plainLiteral xml:lang={quoteattr(t.language)}>{escape(str(t))}</plainLiteral>'
    if t.datatype is not None:
        return f'<typedLiteral datatype={quoteattr(str(t.datatype))}>{escape(str(t))}</typedLiteral>'
    return f"<plainLiteral>{escape(str(t))}</plainLiteral>"


def write_trix(stmts, variant=0):
    out = ['<?xml version="1.0" encoding="utf-8"?>\n<TriX xmlns="http://www.w3.org/2004/03/trix/trix-1/">\n']
    i = 0
    while i < len(stmts):
        g = stmts[i][3]
        k = i + 1
        while k < len(stmts) and stmts[k][3] == g:
            k += 1
        assert g != 0, "TriX documents of this suite name every graph"
        name = f"<id>{escape(_lab(g))}</id>" if g < 0 else f"<uri>{escape(str(GRAPHS[g]))}</uri>"
        out.append("<graph>" + name + "\n")
        for s, p, o, _ in stmts[i:k]:
            out.append(f" <triple>{_trix_term(s)}{_trix_term(p)}{_trix_term(o)}</triple>\n")
        out.append("</graph>\n")
        i = k
    out.append("</TriX>\n")
    return "".join(out)


def _ld_id(n):
    return "_:" + _lab(n) if n < 0 else str(const_term(n))


def _ld_obj(o):
    if o < 0:
        return {"@id": "_:" + _lab(o)}
    t = const_term(o)
    if isinstance(t, URIRef):
        return {"@id": str(t)}
    d = {"@value": str(t)}
    if t.language:
        d["@language"] = t.language
    elif t.datatype is not None:
        d["@type"] = str(t.datatype)
    return d


def _ld_nodes(stmts, variant):
    nodes = []
    for s, p, o, _ in stmts:
        sid = _ld_id(s)
        if variant & 1 and nodes and nodes[-1]["@id"] == sid:
            nodes[-1].setdefault(str(const_term(p)), []).append(_ld_obj(o))
        else:
            nodes.append({"@id": sid, str(const_term(p)): [_ld_obj(o)]})
    return nodes


def write_jsonld(stmts, variant=0):
    top, i = [], 0
    while i < len(stmts):
        g = stmts[i][3]
        k = i + 1
        while k < len(stmts) and stmts[k][3] == g:
            k += 1
        nodes = _ld_nodes(stmts[i:k], variant)
        if g == 0:
            top.extend(nodes)
        else:
            top.append({"@id": "_:" + _lab(g) if g < 0 else str(GRAPHS[g]), "@graph": nodes})
        i = k
    return json.dumps(top, indent=None if variant & 2 else 1)


def write_hext(stmts, variant=0):
    out = []
    for s, p, o, g in stmts:
        ss = "_:" + _lab(s) if s < 0 else str(const_term(s))
        gs = "" if g == 0 else ("_:" + _lab(g) if g < 0 else str(GRAPHS[g]))
        if o < 0:
            val, dt, lang = "_:" + _lab(o), "localId", ""
        else:
            t = const_term(o)
            if isinstance(t, URIRef):
                val, dt, lang = str(t), "globalId", ""
            elif t.language:
                val, dt, lang = str(t), str(rdflib.RDF.langString), t.language
            else:
                val, dt, lang = str(t), str(t.datatype or XSD.string), ""
        out.append(json.dumps([ss, str(const_term(p)), val, dt, lang, gs]) + "\n")
    return "".join(out)


WRITERS = {"n3": write_n3, "nt": write_nt, "nquads": write_nquads, "turtle": write_turtle, "trig": write_trig, "xml": write_xml,
           "trix": write_trix, "json-ld": write_jsonld, "hext": write_hext}


def write_doc(fmt, stmts, variant=0, anon=()):
    if fmt in ("turtle", "trig", "n3"):
        return WRITERS[fmt](stmts, variant, anon)
    return WRITERS[fmt](stmts, variant)


# ------------------------------------------------------------------ running rdflib
def _store_quads(store):
    for (s, p, o), ctxs in store.triples((None, None, None), None):
        for c in ctxs:
            if c is None:
                continue
            yield s, p, o, (c.identifier if isinstance(c, Graph) else c)


def snapshot(store, plain_id=None, tags=None):
    """The store content with terms numbered as described at the top; a blank node that is not
    BNode(<a label>) is recognised by the tag triples it carries (smallest (call, label) pair) or
    carried in an earlier snapshot of the same run ([tags] persists over the run: a node keeps its
    number when its tag triple is deleted later)."""
    quads = list(_store_quads(store))
    if tags is None:
        tags = {}
    for s, p, o, g in quads:
        if isinstance(s, BNode) and _key(p) == _key(CONSTS[TAGP]) and isinstance(o, URIRef):
            i = CONST_ID.get(_key(o), 0)
            if is_tag(i):
                k = str.__str__(s)
                tags[k] = min(tags.get(k, 10**6), i)

    def node(t):
        if isinstance(t, BNode):
            k = str.__str__(t)
            if k in LABEL_IDX:
                return 100 + LABEL_IDX[k]
            if k in tags:
                return tags[k] - 1
            return 900
        return CONST_ID.get(_key(t), 998)

    def gid(g):
        if plain_id is not None and type(g) is type(plain_id) and str.__str__(g) == str.__str__(plain_id):
            return PLAIN
        if isinstance(g, BNode):
            return node(g)
        return GRAPH_ID.get(_key(g), 997)

    out = {(node(s), node(p), node(o), gid(g)) for s, p, o, g in quads}
    return sorted(list(q) for q in out)


def run_docs(case, hook=None):
    """case["reseed"] = k: the program calls random.seed(k) before every parse call (what a
    reproducible-experiment script does at the top of each iteration); the property holds whatever
    the program does between two parse calls."""
    state = _global_random.getstate()
    try:
        return _run_docs(case, hook)
    finally:
        _global_random.setstate(state)


def malformed(fmt, prefix, rest, variant=0, anon=()):
    """A document that is well-formed up to and including the statements [prefix], then broken
    (in a way that fails before any further blank-node label is read), then - where the syntax can
    carry on after the broken place - the well-formed statements [rest]."""
    if fmt in ("nt", "nquads"):
        return (write_doc(fmt, prefix) + "@@@ this is not a statement .\n" + write_doc(fmt, rest))
    if fmt == "hext":
        return write_doc(fmt, prefix) + '["http://e/a", "http://e/p", \n' + write_doc(fmt, rest)
    if fmt in ("turtle", "trig", "n3"):
        more = write_doc(fmt, rest, variant).replace("@prefix e: <http://e/> .\n", "")
        return write_doc(fmt, prefix, variant, anon) + "e:a e:p .\n" + more
    if fmt == "xml":
        text = write_doc(fmt, prefix, variant)
        return text.replace("</rdf:RDF>\n", '<rdf:Description rdf:about="http://e/a"><e:p>')
    if fmt == "trix":
        text = write_doc(fmt, prefix, variant)
        return text.replace("</TriX>\n", "<graph><uri>urn:g:1</uri><triple><uri>http://e/a</uri>")
    if fmt == "json-ld":
        assert not prefix, "a malformed JSON-LD document adds nothing"
        return write_doc(fmt, rest or [[1, 3, 2, 0]], variant)[:-1]
    raise ValueError(fmt)


def _run_docs(case, hook=None):
    from io import StringIO

    from rdflib.parser import create_input_source
    from rdflib.plugins.parsers.nquads import NQuadsParser
    from rdflib.plugins.parsers.ntriples import NTGraphSink, W3CNTriplesParser

    from rdflib import ConjunctiveGraph
    from rdflib.plugins.stores.auditable import AuditableStore

    reseed = case.get("reseed")
    kind = case.get("store") or {}
    inner = Memory()
    # the store the front ends write through: the Memory store itself, or an AuditableStore over it
    # (a transaction is open from the first write on; nothing commits unless the case says so)
    store = AuditableStore(inner) if kind.get("auditable") else inner
    plain = Graph(store=store) if case.get("plain") else None
    if kind.get("front") == "cg":
        ds = ConjunctiveGraph(store=store, identifier=DATASET_DEFAULT_GRAPH_ID)
        ds.graph = ds.get_context
    else:
        ds = Dataset(store=store)

    def graph_of(cid):
        if cid == PLAIN:
            return plain
        return Graph(store, identifier=graph_term(cid))

    for s, p, o, g in case["init"]:
        graph_of(g).add((const_term(s), const_term(p), const_term(o)))
    if kind.get("commit_init"):
        store.commit()
    pid = plain.identifier if plain is not None else None
    obs = []
    tags = {}
    contexts = {}   # the caller's bnode_context dicts
    objects = {}    # long-lived parser objects
    for j, d in enumerate(case["docs"]):
        fmt = d["fmt"]
        if d.get("fail") is not None:
            text = malformed(fmt, d["stmts"], d["fail"].get("rest", []), d.get("variant", 0), d.get("anon", ()))
        else:
            text = write_doc(fmt, d["stmts"], d.get("variant", 0), d.get("anon", ()))
        tgt = d["target"]
        kwargs = {}
        if d.get("ctx") is not None:
            kwargs["bnode_context"] = contexts.setdefault(d["ctx"], {})
        if d.get("keep"):
            kwargs["preserve_bnode_ids"] = True
        if d.get("pub") is not None:
            kwargs["publicID"] = d["pub"]
        raised = False
        try:
            if reseed is not None:
                _global_random.seed(reseed)
            if d.get("obj") is not None:
                # direct use of a parser object that outlives the call
                sink = ds.default_context if tgt == 0 else plain if tgt == PLAIN else ds.graph(graph_term(tgt))
                kwargs.pop("publicID", None)
                if fmt == "nt":
                    po = objects.get(("nt", d["obj"]))
                    if po is None:
                        po = objects[("nt", d["obj"])] = W3CNTriplesParser(NTGraphSink(sink))
                    else:
                        po.sink = NTGraphSink(sink)
                    po.parse(StringIO(text), **kwargs)
                elif fmt == "nquads":
                    po = objects.get(("nquads", d["obj"]))
                    if po is None:
                        po = objects[("nquads", d["obj"])] = NQuadsParser()
                    po.parse(create_input_source(data=text), sink, **kwargs)
                else:
                    raise ValueError("parser objects are driven directly for nt and nquads only")
            elif tgt == 0:
                ds.parse(data=text, format=fmt, **kwargs)
            elif tgt == PLAIN:
                plain.parse(data=text, format=fmt, **kwargs)
            else:
                ds.graph(graph_term(tgt)).parse(data=text, format=fmt, **kwargs)
        except Exception as e:  # noqa: BLE001
            raised = True
            if hook:
                hook(j, e)
        obs.append([raised, snapshot(inner, pid, tags)])
    return obs


# ------------------------------------------------------------------ cases
def stmt_labels(st):
    s, p, o, g = st
    return [-x - 1 for x in (s, o, g) if x < 0]


def doc_labels(stmts):
    out = []
    for st in stmts:
        for lab in stmt_labels(st):
            if lab not in out:
                out.append(lab)
    return out


def retag(case):
    """Re-establish the tagging discipline after documents moved: the tag statements of call j are
    exactly one [label, TAGP, tag(j,label), g] per label used in document j."""
    docs = []
    for j, d in enumerate(case["docs"]):
        body = [st for st in d["stmts"] if st[1] != TAGP]
        old = {(-st[0] - 1): st[3] for st in d["stmts"] if st[1] == TAGP and st[0] < 0}
        labs = doc_labels(body)
        allowed = sorted({st[3] for st in body}) or [0]
        tags = [[-lab - 1, TAGP, tag_id(j, lab), old.get(lab, allowed[0])] for lab in labs]
        stmts = []
        # keep the original interleaving where possible: tags go where they were, new ones at the end
        seen = set()
        for st in d["stmts"]:
            if st[1] == TAGP:
                lab = -st[0] - 1
                if lab in labs and lab not in seen:
                    seen.add(lab)
                    stmts.append([st[0], TAGP, tag_id(j, lab), st[3]])
            else:
                stmts.append(st)
        for t in tags:
            if (-t[0] - 1) not in seen:
                stmts.append(t)
        docs.append(dict(d, stmts=stmts))
    return dict(case, docs=docs)


def c_dterm(n):
    return f"DL {cN(-n - 1)}" if n < 0 else f"DC {cN(n)}"


def c_dgraph(g):
    return "GD" if g == 0 else (f"GL {cN(-g - 1)}" if g < 0 else f"GC {cN(g)}")


def c_quad(q):
    return ctuple(ctuple(cN(q[0]), cN(q[1]), cN(q[2])), cN(q[3]))


COQ_FMT = {"n3": "N3", "nt": "NT", "nquads": "NQ", "turtle": "TTL", "trig": "TRIG", "xml": "XML", "trix": "TRIX",
           "json-ld": "JLD", "hext": "HEXT"}
IDENTITY = ("json-ld", "hext")   # only used to describe / count cases, never by the check


class C12(Suite):
    name = "parse_merge"
    imports = "From RV Require Import Parse.Model."
    case_ty = "case"
    obs_ty = "obs_t"
    kf = "kf"
    kf_ids = {1: "F9"}
    corr = ("Graph.parse / Dataset.parse with NTParser, NQuadsParser, TurtleParser, TrigParser, RDFXMLParser, "
            "TriXParser, JsonLDParser, HextuplesParser")
    quick_n = 900
    thorough_n = 20000
    timeout_s = 20.0

    # case = {"plain": bool, "init": [[s,p,o,g]...], "reseed": k (optional),
    #         "store": {"auditable": True, "commit_init": bool, "front": "dataset"|"cg"} (optional: AuditableStore over Memory),
    #         "docs": [{"fmt", "target", "variant", "stmts": [[s,p,o,g]...], and optionally
    #                   "anon": [labels written as [...]], "ctx": k (bnode_context dict k), "obj": k (long-lived
    #                   parser object k), "keep": True (preserve_bnode_ids), "pub": publicID,
    #                   "fail": {"rest": [...]} (the document is broken after "stmts"; "rest" follows the break)}]}
    def gen(self, rng, i):
        plain = rng.random() < 0.2
        r = rng.random()
        if r < 0.45:
            fmts = ["nt", "turtle", "trig", "xml", "n3"]
        elif r < 0.6:
            fmts = ["nt", "nquads", "turtle", "trig", "xml"]
        elif r < 0.7:
            fmts = ["nt", "turtle", "trig", "xml", "trix", "json-ld"]
        else:
            fmts = list(FORMATS)
        labs = rng.sample(range(len(LABELS)), rng.choice([1, 2, 2, 3]))
        numeric = rng.random() < 0.12   # all-digit labels next to anonymous nodes, Turtle family
        if numeric:
            labs = [5, 6][: rng.choice([1, 2, 2])] + rng.sample(range(5), rng.choice([1, 2]))
            fmts = ["turtle", "trig", "trig", "n3", rng.choice(fmts)]
        n3twice = (not numeric) and rng.random() < 0.07   # one N3 document (same text layout) parsed again
        if n3twice:
            fmts = ["n3"]
        sharing = (not numeric) and (not n3twice) and rng.random() < 0.18   # long-lived label dicts: bnode_context=, parser objects
        if sharing:
            fmts = ["nt", "nt", "nquads", "nquads", rng.choice(fmts)]
        auditable = (not n3twice) and rng.random() < 0.15
        if auditable:
            # N-Quads / HexTuples need a graph-aware store and N3 a formula-aware one: they refuse an AuditableStore
            fmts = [f for f in fmts if f not in ("nquads", "hext", "n3")] or ["nt", "turtle"]
        subj_c, obj_c = [1, 2, 8], [1, 2, 5, 6, 7, 8]
        named = [1, 2, 3] + [100 + lab for lab in labs[:1]]
        init = []
        for _ in range(rng.choice([0, 1, 2, 3, 4])):
            s = rng.choice(subj_c + [100 + lab for lab in labs])
            o = rng.choice(obj_c + [100 + lab for lab in labs] * 2)
            if plain:
                g = PLAIN if rng.random() < 0.7 else rng.choice([0, 1])
            else:
                g = rng.choice([0, 0, 1, 2] + named[3:])
            init.append([s, rng.choice(PREDS), o, g])
        docs = []
        ndocs = rng.choice([1, 2, 2, 3, 3, 4])
        same = n3twice or rng.random() < 0.15  # the same document parsed again and again
        if n3twice:
            ndocs = rng.choice([2, 2, 3])
        proto = None
        for j in range(ndocs):
            fmt = rng.choice(fmts)
            quad = fmt in QUAD_FORMATS
            if plain:
                target = PLAIN
            else:
                target = 0 if rng.random() < 0.45 else rng.choice(named)
            if same and proto is not None and (quad or all(st[3] == 0 for st in proto)) \
                    and not (fmt == "trix" and any(st[3] == 0 for st in proto)):
                body = [list(st) for st in proto]
            else:
                body = []
                if not quad:
                    graphs = [0]
                elif fmt == "trix":
                    graphs = rng.sample([1, 2, 3] + [-lab - 1 for lab in labs], rng.choice([1, 2]))
                else:
                    graphs = [0] + rng.sample([1, 2] + [-lab - 1 for lab in labs], rng.choice([0, 1, 2]))
                for _ in range(rng.choice([1, 2, 3, 4])):
                    s = rng.choice(subj_c + [-lab - 1 for lab in labs] * 3)
                    o = rng.choice(obj_c + [-lab - 1 for lab in labs] * 4)
                    body.append([s, rng.choice(PREDS), o, rng.choice(graphs)])
                if proto is None:
                    proto = [list(st) for st in body]
            fail = None
            if rng.random() < 0.1:
                # the document breaks after the first k statements
                k = 0 if fmt == "json-ld" else rng.randrange(len(body) + 1)
                rest = [st for st in body[k:] if st[0] > 0 and st[2] > 0 and st[3] >= 0]
                fail = {"rest": [] if fmt in ("xml", "trix") else rest}
                body = body[:k]
            graphs = sorted({st[3] for st in body}) or [0]
            stmts = list(body)
            for lab in doc_labels(body):
                stmts.insert(rng.randrange(len(stmts) + 1), [-lab - 1, TAGP, tag_id(j, lab), rng.choice(graphs)])
            doc = {"fmt": fmt, "target": target, "variant": rng.randrange(8), "stmts": stmts}
            if fail is not None:
                doc["fail"] = fail
            if fmt in ("nt", "nquads") and (sharing and rng.random() < 0.8 or rng.random() < 0.03):
                r2 = rng.random()
                if r2 < 0.6:
                    doc["ctx"] = rng.choice([0, 0, 1])
                if r2 > 0.4:
                    doc["obj"] = rng.choice([0, 0, 2]) if fmt == "nt" else rng.choice([1, 1, 3])
            if fmt in ("xml", "trix") and rng.random() < 0.12 and not (
                    fmt == "xml" and any(lab in DIGIT_LABELS for lab in doc_labels(stmts))):
                doc["keep"] = True
            if "obj" not in doc and rng.random() < 0.15:
                doc["pub"] = rng.choice(["http://pub.example/doc", "http://pub.example/dir/", "urn:pub:1"])
            if n3twice and docs:
                # same statement order, same layout: only the tag IRIs differ (same length)
                first = docs[0]
                doc = {"fmt": "n3", "target": target, "variant": first["variant"],
                       "stmts": [[a, b, tag_id(j, -a - 1) if b == TAGP else c, g] for a, b, c, g in first["stmts"]]}
                if "anon" in first:
                    doc["anon"] = list(first["anon"])
                docs.append(doc)
                continue
            if fmt in ("turtle", "trig", "n3") and (numeric or n3twice or rng.random() < 0.3):
                cand = [lab for lab in doc_labels(stmts)
                        if (numeric and lab not in DIGIT_LABELS) or n3twice or rng.random() < 0.5]
                plan = anon_plan(stmts, cand)
                if fmt == "n3":
                    plan = plan + [lab for lab in path_plan(stmts, cand) if lab not in plan]
                if plan:
                    doc["anon"] = plan
            docs.append(doc)
        case = {"plain": plain, "init": init, "docs": docs}
        if auditable:
            # a transactional store: the content is written inside an open transaction (or committed first)
            case["store"] = {"auditable": True, "commit_init": rng.random() < 0.3,
                             "front": "cg"}
        if rng.random() < 0.25:
            case["reseed"] = rng.choice([0, 1, 20240101])
        return case

    def run_impl(self, case):
        return run_docs(case)

    def on_timeout(self, case):
        return [[False, [[995, 995, 995, 995]]] for _ in case["docs"]]

    # ------------------------------------------------------------ Coq text
    def coq_case(self, case):
        docs = []
        for d in case["docs"]:
            stmts = clist(ctuple(c_dterm(s), cN(p), c_dterm(o), c_dgraph(g)) for s, p, o, g in d["stmts"])
            docs.append("{| d_fmt := %s; d_target := %s; d_stmts := %s; d_obj := %s; d_ctx := %s; d_keep := %s; d_raised := %s |}"
                        % (COQ_FMT[d["fmt"]], cN(d["target"]), stmts, copt(d.get("obj"), cN), copt(d.get("ctx"), cN),
                           cbool(d.get("keep")), cbool(d.get("fail") is not None)))
        return "{| c_init := " + clist(c_quad(q) for q in case["init"]) + "; c_docs := " + clist(docs) + " |}"

    def coq_obs(self, obs):
        return clist(ctuple(cbool(r), clist(c_quad(q) for q in st)) for r, st in obs)

    # ------------------------------------------------------------ statistics
    @staticmethod
    def _reuse(case):
        """(label shared by two calls, label whose BNode(label) is in the store before the call)"""
        seen, across = set(), False
        for d in case["docs"]:
            labs = set(doc_labels(d["stmts"]))
            if labs & seen:
                across = True
            seen |= labs
        existing = {x - 100 for q in case["init"] for x in q if 100 <= x < 200}
        return across, bool(existing & seen)

    def nontrivial(self, case, obs):
        across, existing = self._reuse(case)
        return across or existing

    def features(self, case, obs):
        across, existing = self._reuse(case)
        f = {"docs_total": len(case["docs"]), "plain_graph": int(bool(case.get("plain"))),
             "label_shared_by_calls": int(across), "label_is_existing_node_id": int(existing),
             "init_nonempty": int(bool(case["init"]))}
        for d in case["docs"]:
            f["fmt_" + d["fmt"]] = f.get("fmt_" + d["fmt"], 0) + 1
            f["target_default" if d["target"] == 0 else "target_plain" if d["target"] == PLAIN else
              "target_bnode_graph" if d["target"] >= 100 else "target_named"] = 1
            if any(st[3] < 0 for st in d["stmts"]):
                f["label_named_graph"] = f.get("label_named_graph", 0) + 1
            if len({st[3] for st in d["stmts"] if st[1] != TAGP}) > 1 and doc_labels(d["stmts"]):
                f["multi_graph_doc"] = f.get("multi_graph_doc", 0) + 1
        if len({d["fmt"] for d in case["docs"]}) > 1:
            f["mixed_syntaxes"] = 1
        if case.get("reseed") is not None:
            f["random_reseeded_before_each_call"] = 1
        if case.get("store"):
            f["auditable_store"] = 1
            if any(d.get("fail") is not None for d in case["docs"][1:]) or (
                    case["init"] and not case["store"].get("commit_init") and any(d.get("fail") is not None for d in case["docs"])):
                f["failing_call_inside_open_transaction"] = 1
        keys = [("ctx", d["ctx"]) if d.get("ctx") is not None else ("obj", d["obj"]) if d.get("obj") is not None else None
                for d in case["docs"]]
        for j, d in enumerate(case["docs"]):
            for k in ("ctx", "obj", "keep", "fail", "pub"):
                if d.get(k) is not None and d.get(k) is not False:
                    f["call_with_" + k] = f.get("call_with_" + k, 0) + 1
            if keys[j] is not None and keys[j] in keys[:j] and set(doc_labels(d["stmts"])) & {
                    lab for i in range(j) if keys[i] == keys[j] for lab in doc_labels(case["docs"][i]["stmts"])}:
                f["label_shared_through_long_lived_dict"] = f.get("label_shared_through_long_lived_dict", 0) + 1
        for d in case["docs"]:
            labs = doc_labels(d["stmts"])
            if d.get("anon"):
                f["doc_with_anonymous_nodes"] = f.get("doc_with_anonymous_nodes", 0) + 1
                if any(lab in DIGIT_LABELS for lab in labs):
                    f["digit_label_next_to_anonymous_node"] = f.get("digit_label_next_to_anonymous_node", 0) + 1
            if d["fmt"] == "xml" and d.get("variant", 0) & 6 and labs:
                f["xml_inner_base_with_nodeID"] = f.get("xml_inner_base_with_nodeID", 0) + 1
        return f

    def shrink(self, case):
        docs = case["docs"]
        for i in range(len(docs)):
            if len(docs) > 1:
                yield retag(dict(case, docs=docs[:i] + docs[i + 1:]))
        for i in range(len(case["init"])):
            yield dict(case, init=case["init"][:i] + case["init"][i + 1:])
        for i, d in enumerate(docs):
            for k, st in enumerate(d["stmts"]):
                if st[1] != TAGP:
                    nd = dict(d, stmts=d["stmts"][:k] + d["stmts"][k + 1:])
                    yield retag(dict(case, docs=docs[:i] + [nd] + docs[i + 1:]))
            if d.get("variant"):
                yield dict(case, docs=docs[:i] + [dict(d, variant=0)] + docs[i + 1:])
            for opt in ("anon", "pub", "ctx", "obj", "keep"):
                if d.get(opt) is not None and d.get(opt) is not False:
                    nd = {k: v for k, v in d.items() if k != opt}
                    yield dict(case, docs=docs[:i] + [nd] + docs[i + 1:])
            if d.get("fail") is not None and d["fail"].get("rest"):
                yield dict(case, docs=docs[:i] + [dict(d, fail={"rest": []})] + docs[i + 1:])
        if case.get("reseed") is not None:
            yield {k: v for k, v in case.items() if k != "reseed"}
        if case.get("store"):
            yield {k: v for k, v in case.items() if k != "store"}

    def sweep(self):
        """every ordered pair of syntaxes x two targets x with/without an existing node whose id is the label:
        both documents say  _:b1 p _:x . a q _:b1 .  (+ tags; one named graph where the syntax has them)"""
        for f1 in FORMATS:
            for f2 in FORMATS:
                for tgt in (0, 1):
                    for init in ([], [[100, 3, 1, 1]], [[1, 3, 2, 0]]):
                        docs = []
                        for j, fmt in enumerate((f1, f2)):
                            if fmt not in QUAD_FORMATS:
                                gs = (0, 0)
                            elif fmt == "trix":
                                gs = (2, 1)
                            else:
                                gs = (0, 2)
                            stmts = [[-1, 3, -2, gs[0]], [-1, TAGP, tag_id(j, 0), gs[0]], [1, 4, -1, gs[1]],
                                     [-2, TAGP, tag_id(j, 1), gs[1]]]
                            docs.append({"fmt": fmt, "target": tgt, "variant": 0, "stmts": stmts})
                        yield {"plain": False, "init": init, "docs": docs}


class C12Machines(C12):
    """The same cases and the same observations of rdflib against the explicit-supply state machines of
    coq/Parse/Machines.v (uuid4 draws, N3 sink counter, long-lived dicts), renamed by tags."""
    name = "machines"
    imports = "From RV Require Import Parse.Model Parse.Machines."
    model = "machine_obs"
    quick_n = 500
    thorough_n = 8000

    def sweep(self):
        return []


SUITES = [C12(), C12Machines()]

TRUSTED = [
    "Coq 8.16.1 kernel and the vm_compute evaluator",
    "the document writers of harness/c12.py (abstract statement list -> nt/nquads/turtle/trig/n3/xml/trix/json-ld/hext text, "
    "incl. the malformed variants: a broken line / statement / unclosed element / truncated JSON after the listed statements)",
    "the snapshot of harness/c12.py: store content read through Store.triples, blank nodes recognised by id (labels) or by the tag triple they carry",
    "the driver of harness/c12.py: Graph.parse / Dataset.parse with bnode_context=, preserve_bnode_ids=, publicID=, and the direct use of "
    "long-lived W3CNTriplesParser / NQuadsParser objects",
    "the Python standard library XML/JSON readers used by the parsers",
]
ASSUMPTIONS = [
    "BNode() / uuid4 never returns an id twice and never an id already in the store (the [fresh] hypotheses of Parse/Proofs.v; "
    "in Parse/MachineProofs.v: distinct (uuid number, counter) pairs give distinct ids - hypothesis nid_inj, instance std_nid)",
    "every blank-node label of a document also occurs as subject of one tag statement (documents of the suite are written that way); labels that occur in no statement position do not exist in these syntaxes",
    "TriX documents of the suite name every graph (an unnamed TriX graph is stored under a new blank-node name: C06-F17)",
    "which parser follows which label discipline (Parse/Model.v disc_of, Parse/Machines.v alloc_of) is read off the code and re-established by every run of this check (suites parse_merge and machines); "
    "that the machines refine the abstract model under the supply their draws define is a theorem (C12_machines_refine_abstract*), the suite machines adds the comparison with rdflib; "
    "that the abstract run does not depend on the supply (std_fresh of the suite vs any proper supply) is a theorem (C12_run_supply_independent*, C12_suite_run_supply_independent)",
    "a malformed document of the suite breaks at a place where no further blank-node label has been read; a malformed JSON-LD document is malformed JSON (nothing is added: the model is given no statements for it)",
    "N3 formulas { ... } (labels scoped to the formula) and collections ( ... ) are not written by the suite",
    "transactional store = AuditableStore over Memory behind ConjunctiveGraph / Graph (Dataset, N-Quads, HexTuples and N3 refuse that store); "
    "the content is read from the inner Memory store",
]
RULE = ("a case is an initial store content plus 1-4 parse calls (syntax, target graph, statements over 1-4 labels out of 7 - all-digit "
        "labels included, Turtle/TriG labels optionally written as anonymous [...] nodes, RDF/XML with inner xml:base; options: "
        "bnode_context= dict shared between calls, long-lived parser object, preserve_bnode_ids, publicID, document broken after k statements, "
        "random.seed(k) before every call; store = Memory or AuditableStore with an open or committed transaction; N3 documents parsed "
        "twice with identical layout) made one after the other; distinct by full content; non-trivial when a label "
        "is shared by two calls or equals the id of a blank node already in the store")
