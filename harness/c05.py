"""C05 - parsers read every legal spelling of a graph; N-Triples/N-Quads output is valid.

Suites
  ntout    (proof tie)   coq/Grammar/Model.v  <->  serializers/nt.py, nquads.py, term.py n3():
                         the Coq writer model must produce exactly the lines rdflib produces and the Coq strict
                         W3C reader must read rdflib's actual lines/documents back to the terms of the case.
  langtag  (proof tie)   py_valid_langtag <-> term._is_valid_langtag
  ntread   (model tie, spec = Coq strict reader)  coq/Grammar/Reader.v <-> parsers/ntriples.py, nquads.py, compat.py:
                         documents in every legal N-Triples/N-Quads spelling (independent writer below) and the 157 files
                         of the W3C N-Triples/N-Quads syntax suites; the Coq strict reader decides what they mean.
  spell    (conformance) independent randomised writer for Turtle, TriG, RDF/XML, JSON-LD; Graph().parse must give the
                         graph the writer was given (brute-force isomorphism oracle, independent of rdflib.compare).
  sources  (conformance) the same document as str, bytes, StringIO, BytesIO, text file, binary file and path gives the
                         same graph; rdflib's XML and JSON outputs are well-formed.
  xmlout   (conformance) RDF/XML output well-formedness on and around the regions of findings C05j/C05k.
  join     (proof tie)   coq/Grammar/Resolve.v <-> notation3.join/_uri_split/_remove_dot_segments, directly and through @base;
                         specification: RFC 3986 section 5.2 in Coq.
  tstring  (proof tie)   coq/Grammar/TurtleStr.v <-> SinkParser.strconst/uEscape/UEscape, directly and through Graph.parse;
                         specification: the Turtle string productions [22]-[25].
  tterm    (proof tie)   coq/Grammar/TurtleIri.v <-> the IRIREF branch of SinkParser.uri_ref2 (two-pass unescaping, join), called directly;
                         specification: Turtle IRIREF production + RFC 3986 resolution.
  tpname   (proof tie)   coq/Grammar/TurtlePname.v <-> SinkParser.qname + the prefix lookup of uri_ref2, called directly;
                         specification: Turtle PNAME_NS / PNAME_LN (finding C05r, repaired by 981b2a74).
  relref   (conformance) one relative IRI reference per Turtle/TriG document, every RFC 3986 kind x every kind of base x
                         @base / BASE / publicID, against the harness's own RFC 3986 5.2 resolver (findings C05l-p, repaired by 2947bd7e).
"""
from __future__ import annotations

import io
import itertools
import json
import logging
import os
import tempfile
import warnings
import xml.sax

from .core import Suite, cN, cbool, clist, copt, cstr, ctuple, import_rdflib

rdflib = import_rdflib()
warnings.filterwarnings("ignore")
logging.getLogger("rdflib").setLevel(logging.CRITICAL)
logging.getLogger("rdflib.term").setLevel(logging.CRITICAL)

from rdflib import BNode, Dataset, Graph, Literal, URIRef  # noqa: E402
from rdflib.graph import DATASET_DEFAULT_GRAPH_ID  # noqa: E402
from rdflib.plugins.serializers.nquads import _nq_row  # noqa: E402
from rdflib.plugins.serializers.nt import _nt_row  # noqa: E402
from rdflib.term import _is_valid_langtag  # noqa: E402

TRUSTED = [
    "Coq 8.16.1 kernel and vm_compute",
    "the transcription of the W3C RDF 1.1 N-Triples/N-Quads EBNF in coq/Grammar/Model.v Part A (strict reader; reviewed "
    "production by production, and run on all W3C N-Triples/N-Quads positive and negative syntax tests by suite 'ntread')",
    "the transcription of RFC 3986 sections 5.2.1-5.2.4, 5.3 in coq/Grammar/Resolve.v Part S (checked on all 41 examples of "
    "RFC 3986 section 5.4 by Example C05_rfc3986_5_4_examples) and of the Turtle 1.1 string productions [22]-[25] in "
    "coq/Grammar/TurtleStr.v Part S",
    "the equivalence between each Python regular expression (r_uriref, r_nodeid, r_literal/litinfo, r_tail, r_line, _uri_parts, "
    "_turtle_escape_pattern, interesting, unicodeEscape4/8) under Python's backtracking matcher and the deterministic scanner that models "
    "it: an argument in comments next to each scanner (no shorter match of a greedy class can be followed by the required delimiter), "
    "not a theorem; the pattern sources are reflected and pinned, and the scanners are tied to the running code by the suites "
    "ntread / join / tstring (this is where finding C05h came from)",
    "harness/c05.py: conversion of rdflib terms to code-point lists (str.__str__, ord), the case generators, and the mapping of "
    "rdflib's fresh blank nodes back to document labels through bnode_context",
    "harness/reflect_c05.py: reflection of _invalid_uri_chars, DATASET_DEFAULT_GRAPH_ID, the regular expressions of the line "
    "reader, of _uri_parts and of strconst, Python's \\s / str.isspace classes, strconst's escape letters (probed), qname's "
    "character sets _notQNameChars / escapeChars",
    "for the conformance suites (spell, sources, xmlout, relref): the independent writers, the RFC 3986 resolver and the brute-force "
    "isomorphism oracle in this file, Python's xml.sax and json modules",
]
ASSUMPTIONS = [
    "strings are sequences of Unicode code points; lone surrogates are not generated (NTSerializer's .encode() raises on them, "
    "NQuadsSerializer replaces them by '?')",
    "subjects and graph names are IRIs or blank nodes, predicates are IRIs (Literal.n3() in those positions is outside the model)",
    "a strict reader requires absolute IRIs (scheme ':'), as the W3C negative tests nt-syntax-bad-uri-06..09 do; relative IRIs in a "
    "graph are outside the property's graphs ('as in C03': IRI has a scheme)",
    "the store's iteration order is not modelled: documents are compared up to the order of their lines",
    "readline's 2048-character buffering is not modelled",
    "join: the base has a scheme and at most one '#', and is hierarchical unless the reference is a same-document reference "
    "(join raises ValueError otherwise, documented behaviour); an absolute reference is returned as it is (RDF resolves relative "
    "references only)",
    "strconst / uri_ref2: errors are not distinguished (BadSyntax / AssertionError / IndexError = rejected); Turtle IRIREF: the "
    "denoted IRI contains no backslash (not a legal IRI; there the two unescaping passes of uri_ref2 differ from the grammar); the "
    "prefixed names: the theorem covers names whose local part does not end in a dot and that are followed by a character that "
    "cannot continue a name (a name directly followed by the statement's '.' is tested by suite tpname only); the "
    "Turtle statement grammar, numbers, language tags and blank node labels at Turtle level, RDF/XML and JSON-LD are "
    "exercised by conformance testing only (no Coq model)",
]
RULE = ("ntout/ntread: 1-4 rows over a small vocabulary of IRIs, labels, lexical forms, language tags and datatypes that contains "
        "every character class the proofs split on (control characters, each IRIREF-forbidden character, quote/backslash/CR/LF, "
        "non-ASCII and non-BMP, dots and dashes in labels); distinct by full case content, non-trivial when at least one row is "
        "well-formed and was written. spell: graphs of 1-6 triples rendered with random choices for every alternative form. "
        "join: base x reference over ten base shapes, the RFC 3986 5.4 references and random strings over ':/?#.ab'; non-trivial when "
        "the result differs from the reference. tstring: a value spelled in one of the four quotings with random escapes, 30% with "
        "one character dropped/inserted/replaced; non-trivial when accepted and containing an escape. tterm: an IRI or relative reference "
        "spelled as IRIREF with random \\u/\\U escapes against ten base shapes or no base, 25% damaged; non-trivial when accepted and escaped. "
        "tpname: prefix x local part spelled with random PN_LOCAL escapes, %HH, dots and colons, followed by one of 16 tails, 25% damaged; "
        "non-trivial when accepted.")

# ------------------------------------------------------------------ explicit terms <-> JSON
# term JSON: ["I", s] | ["B", s] | ["L", lex, None | ["lang", l] | ["dt", d]]


def mk_term(t):
    if t[0] == "I":
        return URIRef(t[1])
    if t[0] == "B":
        return BNode(t[1])
    k = t[2]
    if k is None:
        return Literal(t[1])
    if k[0] == "lang":
        return Literal(t[1], lang=k[1])
    return Literal(t[1], datatype=URIRef(k[1]), normalize=False)


def term_json(t):
    s = str.__str__(t)
    if isinstance(t, Literal):
        if t.language is not None:
            return ["L", s, ["lang", str.__str__(t.language)]]
        if t.datatype is not None:
            return ["L", s, ["dt", str.__str__(t.datatype)]]
        return ["L", s, None]
    if isinstance(t, BNode):
        return ["B", s]
    if isinstance(t, URIRef):
        return ["I", s]
    return ["?", s]


def c_term(t):
    if t[0] == "I":
        return f"(Iri {cstr(t[1])})"
    if t[0] == "B":
        return f"(Bn {cstr(t[1])})"
    k = t[2]
    kk = "LPlain" if k is None else f"(LLang {cstr(k[1])})" if k[0] == "lang" else f"(LDt {cstr(k[1])})"
    return f"(Lit {cstr(t[1])} {kk})"


def c_ostr(s):
    return copt(s, cstr)


E = "http://e/"
IRI_GOOD = [E + "a", E + "b", E + "p", "urn:x:y", E + "a#f", E + "é中", E + "a%20b", "a:", E + "\U0001F600", E + "a b",
            "urn:x-rdflib:default", E + "~!$&'()*+,;=:@/?-._"]
IRI_CTRL = [E + "a\nb", E + "a\tb", E + "\x00", E + "a\rb", E + "a\x1f"]           # refused by URIRef.n3() since ffbc1d81 (was finding C05a)
IRI_BAD = [E + "a b", E + "a>b", E + "a<b", E + 'a"b', E + "a{b", E + "a}b", E + "a|b", E + "a\\b", E + "a^b", E + "a`b"]  # n3() raises
IRI_REL = ["a", "", "/x", "#f", "1a:b"]                                               # not wf (no scheme)
DT_GOOD = ["http://www.w3.org/2001/XMLSchema#string", E + "dt", "urn:d", "http://www.w3.org/1999/02/22-rdf-syntax-ns#langString"]
DT_BAD = [E + "d>x", E + "d x", E + "d\nx", E + 'd"', E + "d\\u0041", E + "d<", E + "{d}", E + "d|", E + "d^", E + "d`"]  # refused by _quoteLiteral since 16a2b8eb (was finding C05b)
LABEL_GOOD = ["b1", "b", "N2d2a0cbe9eeb45f6b8eb551763cf3a3a", "a.b", "a-b", "_x", "1", "a:b", "é", "a·", "x..y", "0-", ":"]
LABEL_BAD = ["", "a b", "a.", "-a", ".a", "a\nb", "a<", "·a", "a..", "a#b", "×", "a\tb"]    # finding C05c
LEX = ["", "x", "0", 'a"b', "a\\b", "a\nb", "a\rb", "\r\n", "\\n", '\\"', "\t\x00\x0b\x7f", "é中\U0001F600", "'", " x ", "\\u0041",
       "a b\u0085", '"', "\\", "\n", "<>{}|^`", "@en", "^^<x>", "# c", " .", "\"\"\"", "\\\\n\"\r"]
LANG_GOOD = ["en", "EN-us", "x-1-2", "de-DE-1996", "a"]
LANG_NL = ["en\n", "a-1\n"]                                                           # refused by Literal() since d6b3ed8d (was finding C05d)


def gen_iri(rng, bad=0.12):
    r = rng.random()
    if r < bad * 0.4:
        return rng.choice(IRI_CTRL)
    if r < bad * 0.7:
        return rng.choice(IRI_BAD)
    if r < bad:
        return rng.choice(IRI_REL)
    return rng.choice(IRI_GOOD[:4]) if rng.random() < 0.6 else rng.choice(IRI_GOOD)


def gen_label(rng, bad=0.1):
    return rng.choice(LABEL_BAD) if rng.random() < bad else rng.choice(LABEL_GOOD)


def gen_node(rng, bad=0.1):
    return ["B", gen_label(rng, bad)] if rng.random() < 0.35 else ["I", gen_iri(rng, bad)]


def gen_lit(rng, bad=0.1):
    lex = rng.choice(LEX)
    if rng.random() < 0.25:
        lex = "".join(rng.choice(['"', "\\", "\n", "\r", "n", "r", "u", "a", "é", " ", "\t"]) for _ in range(rng.choice([1, 2, 3, 5])))
    r = rng.random()
    if r < 0.4:
        return ["L", lex, None]
    if r < 0.7:
        return ["L", lex, ["lang", rng.choice(LANG_NL) if rng.random() < bad else rng.choice(LANG_GOOD)]]
    return ["L", lex, ["dt", rng.choice(DT_BAD) if rng.random() < bad else rng.choice(DT_GOOD)]]


class NtOut(Suite):
    name = "ntout"
    imports = "From RV Require Import Grammar.Model."
    case_ty = "case"
    obs_ty = "obs"
    kf = "kf"
    kf_ids = {3: "C05c"}
    corr = "nt._nt_row/_quoteLiteral/_quote_encode, NTSerializer.serialize, nquads._nq_row, NQuadsSerializer.serialize, URIRef.n3, BNode.n3"
    quick_n = 700
    thorough_n = 20000

    # case = {"nq": bool, "rows": [[s, p, o, g], ...]}   (g ignored for N-Triples)
    def gen(self, rng, i):
        nq = rng.random() < 0.5
        bad = rng.choice([0.0, 0.0, 0.05, 0.15])
        rows, seen = [], set()
        for _ in range(rng.choice([1, 1, 2, 3, 4])):
            s = gen_node(rng, bad)
            p = ["I", gen_iri(rng, bad * 0.5)]
            o = gen_lit(rng, bad) if rng.random() < 0.6 else gen_node(rng, bad)
            if nq:
                r = rng.random()
                g = ["I", str(DATASET_DEFAULT_GRAPH_ID)] if r < 0.3 else ["B", "urn:x-rdflib:default"] if r < 0.35 else gen_node(rng, bad)
                if g[1] == "":   # Graph(identifier=<falsy>) mints a fresh blank node: no graph can have an empty name
                    g = ["B", "g"]
            else:
                g = ["I", ""]
            k = json.dumps([s, p, o, g])
            if k not in seen:
                seen.add(k)
                rows.append([s, p, o, g])
        return {"nq": nq, "rows": rows}

    def run_impl(self, case):
        nq = case["nq"]
        rows, quads = [], []
        unbuildable = False
        for s, p, o, g in case["rows"]:
            try:
                t = (mk_term(s), mk_term(p), mk_term(o))
                gi = mk_term(g)
            except ValueError:      # Literal.__new__ refuses the language tag: the term does not exist, nothing can be written
                rows.append(None)
                unbuildable = True
                continue
            quads.append((t, gi))
            try:
                rows.append(_nq_row(t, gi) if nq else _nt_row(t))
            except Exception:  # noqa: BLE001   URIRef.n3() refuses an invalid IRI: in-scope, correct behaviour
                rows.append(None)
        if unbuildable:
            return {"rows": rows, "doc": None}
        try:
            if nq:
                ds = Dataset()
                for t, gi in quads:
                    Graph(store=ds.store, identifier=gi).add(t)
                doc = ds.serialize(format="nquads")
            else:
                g_ = Graph()
                for t, _ in quads:
                    g_.add(t)
                doc = g_.serialize(format="nt")
            if isinstance(doc, bytes):
                doc = doc.decode("utf-8")
        except Exception:  # noqa: BLE001
            doc = None
        return {"rows": rows, "doc": doc}

    def coq_case(self, case):
        rows = clist(ctuple(ctuple(c_term(s), c_term(p), c_term(o)), c_term(g)) for s, p, o, g in case["rows"])
        return "{| c_nq := " + cbool(case["nq"]) + "; c_rows := " + rows + " |}"

    def coq_obs(self, obs):
        return ctuple(clist(c_ostr(r) for r in obs["rows"]), c_ostr(obs["doc"]))

    def nontrivial(self, case, obs):
        return obs["doc"] is not None and len(case["rows"]) > 0

    def features(self, case, obs):
        import re as _re3

        def rel(t):
            return t[0] == "I" and not _re3.match(r"^[A-Za-z][A-Za-z0-9+.-]*:", t[1])
        f = {"nq" if case["nq"] else "nt": 1, "rows": len(case["rows"]), "doc_written": int(obs["doc"] is not None),
             "row_raised": sum(1 for r in obs["rows"] if r is None),
             # share of cases in which well-formedness (a guard of the checker) switches something off
             "case_with_refused_row": int(any(r is None for r in obs["rows"])),
             "case_with_relative_iri_row": int(any(rel(x) for row in case["rows"] for x in row[:3] + ([row[3]] if case["nq"] else []))),
             "mixed_document_written": int(obs["doc"] is not None and any(
                 rel(x) for row in case["rows"] for x in row[:3] + ([row[3]] if case["nq"] else [])))}
        for s, p, o, g in case["rows"]:
            f["obj_" + o[0] + ("" if o[0] != "L" else "_plain" if o[2] is None else "_" + o[2][0])] = \
                f.get("obj_" + o[0] + ("" if o[0] != "L" else "_plain" if o[2] is None else "_" + o[2][0]), 0) + 1
            if case["nq"]:
                k = "graph_default" if g == ["I", str(DATASET_DEFAULT_GRAPH_ID)] else "graph_" + g[0]
                f[k] = f.get(k, 0) + 1
        return f

    def shrink(self, case):
        rows = case["rows"]
        for i in range(len(rows)):
            if len(rows) > 1:
                yield dict(case, rows=rows[:i] + rows[i + 1:])
        for i, r in enumerate(rows):
            for j, simple in enumerate((["I", E + "a"], ["I", E + "p"], ["L", "x", None], ["I", E + "g"])):
                if r[j] != simple and not (j == 3 and not case["nq"]):
                    r2 = list(r)
                    r2[j] = simple
                    yield dict(case, rows=rows[:i] + [r2] + rows[i + 1:])

    def sweep(self):
        """every vocabulary entry once in every position it can take, both formats"""
        s0, p0, o0 = ["I", E + "a"], ["I", E + "p"], ["L", "x", None]
        nodes = [["I", x] for x in IRI_GOOD + IRI_CTRL + IRI_BAD + IRI_REL] + [["B", x] for x in LABEL_GOOD + LABEL_BAD]
        lits = [["L", x, None] for x in LEX] + [["L", "x", ["lang", x]] for x in LANG_GOOD + LANG_NL] + \
               [["L", 'a"\n', ["dt", x]] for x in DT_GOOD + DT_BAD]
        for n in nodes:
            yield {"nq": False, "rows": [[n, p0, o0, ["I", ""]]]}
            yield {"nq": False, "rows": [[s0, p0, n, ["I", ""]]]}
            yield {"nq": True, "rows": [[s0, p0, o0, n if n[1] else ["B", "g"]], [n, p0, n, ["I", str(DATASET_DEFAULT_GRAPH_ID)]]]}
            if n[0] == "I":
                yield {"nq": False, "rows": [[s0, n, o0, ["I", ""]]]}
        for lit in lits:
            yield {"nq": False, "rows": [[s0, p0, lit, ["I", ""]]]}
            yield {"nq": True, "rows": [[s0, p0, lit, ["B", "g"]]]}


class LangTag(Suite):
    name = "langtag"
    imports = "From RV Require Import Grammar.Model."
    case_ty = "str"
    obs_ty = "bool"
    model = "py_valid_langtag"
    oeq = "Bool.eqb"
    spec = "(fun c o => Bool.eqb o (py_valid_langtag c))"
    corr = "term._is_valid_langtag"
    quick_n = 300
    thorough_n = 5000

    def gen(self, rng, i):
        if rng.random() < 0.3:
            return rng.choice(LANG_GOOD + LANG_NL + ["", "-", "en-", "-en", "en--us", "1a", "en\n\n", "\nen", "en\r", "en-\n", "e n", "é", "a1", "a-٣"])
        return "".join(rng.choice(["a", "Z", "1", "-", "-", "\n", "é", " "]) for _ in range(rng.choice([0, 1, 2, 3, 4, 6])))

    def run_impl(self, case):
        return bool(_is_valid_langtag(case))

    def coq_case(self, case):
        return cstr(case)

    def coq_obs(self, obs):
        return cbool(obs)

    def sweep(self):
        for n in range(0, 5):
            for t in itertools.product("aZ1-\n", repeat=n):
                yield "".join(t)



# ====================================================================== ntread
# Independent writer for the line syntaxes: every legal spelling of a statement.

def _hex(rng, n, width):
    h = f"{n:0{width}X}"
    return "".join(ch.lower() if rng.random() < 0.4 else ch for ch in h)


def uescape(rng, ch):
    o = ord(ch)
    if o <= 0xFFFF and rng.random() < 0.7:
        return "\\u" + _hex(rng, o, 4)
    return "\\U" + _hex(rng, o, 8)


ECHAR = {"\t": "\\t", "\b": "\\b", "\n": "\\n", "\r": "\\r", "\f": "\\f", '"': '\\"', "'": "\\'", "\\": "\\\\"}


def nt_string(rng, s, esc=0.15):
    out = ['"']
    for ch in s:
        must = ch in '"\\\n\r'
        if must or rng.random() < esc:
            out.append(ECHAR[ch] if ch in ECHAR and rng.random() < 0.6 else uescape(rng, ch))
        else:
            out.append(ch)
    out.append('"')
    return "".join(out)


def nt_iri(rng, s, esc=0.05, esc_colon=False):
    out = ["<"]
    first_colon = True
    for ch in s:
        if ch == ":" and first_colon:
            first_colon = False
            out.append(uescape(rng, ch) if esc_colon else ch)
        elif ord(ch) <= 0x20 or ch in '<>"{}|^`\\' or (rng.random() < esc and ch != ":"):
            out.append(uescape(rng, ch))
        else:
            out.append(ch)
    out.append(">")
    return "".join(out)


def nt_term(rng, t, esc, flags):
    if t[0] == "I":
        return nt_iri(rng, t[1], esc, esc_colon=flags.get("esc_colon", False))
    if t[0] == "B":
        return "_:" + t[1]
    k = t[2]
    body = nt_string(rng, t[1], esc)
    if k is None:
        return body
    if k[0] == "lang":
        return body + "@" + k[1]
    return body + "^^" + nt_iri(rng, k[1], esc)


WS = ["", " ", "\t", "  ", " \t "]
EOLS = ["\n", "\n", "\r\n", "\r", "\n\n", "\r\n\r\n", "\n\r"]


def nt_document(rng, quads, nq, minimal=0.08, esc=0.15, flags=None):
    flags = flags or {}
    lines = []
    for s, p, o, g in quads:
        def sep(left_is_bnode_then_label=False):
            w = rng.choice(WS) if rng.random() < minimal else rng.choice(WS[1:])
            return w
        t = rng.choice(WS) + nt_term(rng, s, esc, flags) + sep() + nt_term(rng, p, esc, flags) + sep() + nt_term(rng, o, esc, flags)
        if nq and g is not None:
            w = rng.choice(WS)
            if w == "" and o[0] == "B" and g[0] == "B":
                w = " "      # "_:o_:g" would be one label
            t += w + nt_term(rng, g, esc, flags)
        t += rng.choice(WS) + "." + rng.choice(WS)
        if rng.random() < 0.25:
            t += "#" + rng.choice(["", " comment", "<a:b> <a:b> <a:b> .", ' "', " é\t#"])
        lines.append(t)
        if rng.random() < 0.2:
            lines.append(rng.choice(["", "  ", "# c", "\t# <x:y>", "#"]))
    doc = ""
    for i, ln in enumerate(lines):
        doc += ln
        if i < len(lines) - 1 or rng.random() < 0.7:
            doc += rng.choice(EOLS)
    if rng.random() < 0.15:
        doc = rng.choice(["\n", "# head\n", " \r\n"]) + doc
    return doc


R_IRI = [E + "a", E + "b", E + "p", "urn:x:y", E + "a#f", E + "é中", E + "a%20b", "a:", E + "\U0001F600", "mailto:a@b", "A+b-c.d:x"]
R_IRI_SPACE = [E + "a b", E + " ", E + "x　"]                  # read since 4d2427e4 (was finding C05g: raw Unicode white space)
R_LABEL = ["b1", "b", "a.b", "a-b", "_x", "1", "a:b", "x..y", "0-", ":", "A_"]
R_LABEL_UNI = ["é", "a·", "à", "\U00010000x", "aé.b"]                        # finding C05f
R_LEX = LEX + ["\b\f", "a\\tb", "\x7f\x80", "퟿", "\U0010FFFF"]
R_LANG = ["en", "EN-us", "x-1-2", "de-DE-1996", "a"]
R_DT = ["http://www.w3.org/2001/XMLSchema#string", E + "dt", "urn:d", E + "é"]


def r_node(rng, bad):
    if rng.random() < 0.35:
        return ["B", rng.choice(R_LABEL_UNI) if rng.random() < bad else rng.choice(R_LABEL)]
    return ["I", rng.choice(R_IRI_SPACE) if rng.random() < bad else rng.choice(R_IRI)]


def r_lit(rng):
    lex = rng.choice(R_LEX)
    r = rng.random()
    if r < 0.4:
        return ["L", lex, None]
    if r < 0.7:
        return ["L", lex, ["lang", rng.choice(R_LANG)]]
    return ["L", lex, ["dt", rng.choice(R_DT)]]


def c_quad_t(q):
    s, p, o, g = q
    return ctuple(c_term(s), c_term(p), c_term(o), copt(g, c_term))


def w3c_files():
    out = []
    for sub, ext, nq in (("ntriples", ".nt", False), ("nquads", ".nq", True)):
        d = os.path.join(os.environ.get("RV_REPO", "/repo"), "test", "data", "suites", "w3c", sub)
        if not os.path.isdir(d):
            continue
        for fn in sorted(os.listdir(d)):
            if fn.endswith(ext):
                try:
                    doc = open(os.path.join(d, fn), encoding="utf-8", newline="").read()
                except UnicodeDecodeError:
                    continue
                out.append({"nq": nq, "doc": doc, "legal": "-bad-" not in fn, "quads": None, "file": sub + "/" + fn})
    return out


class NtRead(Suite):
    name = "ntread"
    imports = "From RV Require Import Grammar.Reader."
    case_ty = "rcase"
    obs_ty = "robs"
    model = "rd_model_obs"
    oeq = "robs_eqb"
    spec = "rd_spec_ok"
    kf = "rd_kf"
    kf_ids = {6: "C05f", 8: "C05h"}
    corr = "W3CNTriplesParser.parse/readline/parseline/uriref/nodeid/literal, NQuadsParser.parseline, ntriples.unquote, compat.decodeUnicodeEscape"
    quick_n = 700
    thorough_n = 15000

    def __init__(self):
        self._w3c = None

    # case = {"nq", "doc", "legal", "quads": [[s,p,o,g|None]...] | None}
    def gen(self, rng, i):
        if self._w3c is None:
            self._w3c = w3c_files()
        if i < len(self._w3c):
            return dict(self._w3c[i])
        nq = rng.random() < 0.5
        bad = rng.choice([0.0, 0.0, 0.0, 0.1])
        quads, seen = [], set()
        for _ in range(rng.choice([0, 1, 1, 2, 3])):
            s = r_node(rng, bad)
            p = ["I", rng.choice(R_IRI_SPACE) if rng.random() < bad * 0.5 else rng.choice(R_IRI)]
            o = r_lit(rng) if rng.random() < 0.6 else r_node(rng, bad)
            g = None if (not nq or rng.random() < 0.4) else r_node(rng, bad)
            k = json.dumps([s, p, o, g])
            if k not in seen:
                seen.add(k)
                quads.append([s, p, o, g])
        flags = {"esc_colon": bad > 0 and rng.random() < 0.2}
        doc = nt_document(rng, quads, nq, minimal=rng.choice([0.0, 0.0, 0.0, 0.2]) if not nq else 0.5,
                          esc=rng.choice([0.0, 0.1, 0.5]), flags=flags)
        return {"nq": nq, "doc": doc, "legal": True, "quads": quads}

    def run_impl(self, case):
        ctx = {}
        try:
            if case["nq"]:
                ds = Dataset()
                ds.parse(data=case["doc"], format="nquads", bnode_context=ctx)
                got = [(s, p, o, g) for s, p, o, g in ds.quads((None, None, None, None))]
            else:
                g_ = Graph()
                g_.parse(data=case["doc"], format="nt", bnode_context=ctx)
                got = [(s, p, o, None) for s, p, o in g_]
        except Exception:  # noqa: BLE001
            return None
        back = {str.__str__(v): k for k, v in ctx.items()}

        def tj(t):
            if isinstance(t, BNode):
                return ["B", back.get(str.__str__(t), "?" + str.__str__(t))]
            return term_json(t)

        out = []
        for s, p, o, g in got:
            gid = g.identifier if isinstance(g, Graph) else g
            gj = None if gid is None or (isinstance(gid, URIRef) and str(gid) == str(DATASET_DEFAULT_GRAPH_ID)) else tj(gid)
            out.append([tj(s), tj(p), tj(o), gj])
        return sorted(out, key=json.dumps)

    def coq_case(self, case):
        m = copt(case["quads"], lambda qs: clist(c_quad_t(q) for q in qs))
        return ("{| r_nq := " + cbool(case["nq"]) + "; r_doc := " + cstr(case["doc"]) + "; r_legal := " + cbool(case["legal"])
                + "; r_meaning := " + m + " |}")

    def coq_obs(self, obs):
        return copt(obs, lambda qs: clist(c_quad_t(q) for q in qs))

    def nontrivial(self, case, obs):
        return case["legal"] and obs is not None and len(obs) > 0

    def features(self, case, obs):
        d = case["doc"]
        return {"nq" if case["nq"] else "nt": 1, "w3c_file": int("file" in case), "legal": int(case["legal"]),
                "rejected_by_rdflib": int(obs is None), "has_escape": int("\\" in d), "has_comment": int("#" in d),
                "has_cr": int("\r" in d), "unterminated_last_line": int(not d.endswith(("\n", "\r")))}

    def shrink(self, case):
        qs = case.get("quads")
        if not qs or len(qs) < 2:
            return
        import random as _r
        for i in range(len(qs)):
            q2 = qs[:i] + qs[i + 1:]
            yield dict(case, quads=q2, doc=nt_document(_r.Random(i), q2, case["nq"], minimal=0.0, esc=0.1))



# ====================================================================== spell (conformance)
# An AST of a Turtle/TriG document, its meaning (own evaluation, fresh blank nodes), and a renderer that
# takes a random legal choice wherever the grammar offers one.  Nothing here calls rdflib except to build
# the expected terms (Literal(...) so that rdflib's lexical normalisation applies to both sides alike).
RDF = "http://www.w3.org/1999/02/22-rdf-syntax-ns#"
XSDNS = "http://www.w3.org/2001/XMLSchema#"
NS_E = "http://e/"
NS_O = "http://other.org/x#"
BASE = "http://e/d/"
LOCALS = ["a", "b", "c1", "a.b", "a-b", "a~b", "a%20b", "1x", "a:b", "é", "", "p", "q", "a_b", "x!"]
FULL_IRIS = ["urn:x:y", BASE + "r", BASE + "r#f", BASE, "http://e/é/ü", BASE + "s/t"]
PN_ESC = set("~.-!$&'()*+,;=/?#@%_")
SQ3 = "'" * 3
DQ3 = '"' * 3


# ---- RFC 3986 section 5.2 reference resolution (own implementation: the oracle for relative IRIs)
import re as _re

_URI_RE = _re.compile(r"^(?:([^:/?#]+):)?(?://([^/?#]*))?([^?#]*)(?:\?([^#]*))?(?:#(.*))?$", _re.S)


def uri_split(u):
    m = _URI_RE.match(u)
    return m.group(1), m.group(2), m.group(3), m.group(4), m.group(5)


def remove_dot_segments(path):
    out, inp = [], path
    while inp:
        if inp.startswith("../"):
            inp = inp[3:]
        elif inp.startswith("./"):
            inp = inp[2:]
        elif inp.startswith("/./"):
            inp = inp[2:]
        elif inp == "/.":
            inp = "/"
        elif inp.startswith("/../"):
            inp = inp[3:]
            if out:
                out.pop()
        elif inp == "/..":
            inp = "/"
            if out:
                out.pop()
        elif inp in (".", ".."):
            inp = ""
        else:
            i = inp.find("/", 1)
            if i < 0:
                out.append(inp)
                inp = ""
            else:
                out.append(inp[:i])
                inp = inp[i:]
    return "".join(out)


def rfc_resolve(base, ref):
    bs, ba, bp, bq, _ = uri_split(base)
    rs, ra, rp, rq, rf = uri_split(ref)
    if rs is not None:
        ts, ta, tp, tq = rs, ra, remove_dot_segments(rp), rq
    else:
        if ra is not None:
            ta, tp, tq = ra, remove_dot_segments(rp), rq
        else:
            if rp == "":
                tp = bp
                tq = rq if rq is not None else bq
            else:
                if rp.startswith("/"):
                    tp = remove_dot_segments(rp)
                else:
                    merged = "/" + rp if (ba is not None and bp == "") else bp[: bp.rfind("/") + 1] + rp
                    tp = remove_dot_segments(merged)
                tq = rq
            ta = ba
        ts = bs
    return ((ts + ":") if ts is not None else "") + (("//" + ta) if ta is not None else "") + tp + \
        (("?" + tq) if tq is not None else "") + (("#" + rf) if rf is not None else "")


# (Until 2947bd7e notation3.join disagreed with RFC 3986 in five regions - findings C05l-p: query-only references, dot
# segments after the first segment, bases with a query, @base/BASE with a fragment, a colon in the query/fragment of a
# relative reference.  The writers used to stay outside them and suite relref predicted the failing cells with a
# transcription of the old join; since the repair every cell has to agree with rfc_resolve and nothing is excused.)


BASES = ["http://e", "http://e/", "http://e/d/", "http://e/d/x", "http://e/d/e/f", "http://e/d/x?q=1", "http://e/d/x#frag",
         "http://e/d/?k=a/b", "http://e?q", "http://e/d/e/f/"]
NEAR_REFS = ["/s", "/ns/p", "/", "x", "x/y", "../z", "../../w", "?q=2", "#f", "", "//other.org/x#c1", ".", "..", "y?k=v#g", "/a/b#c",
             "./", "../"]


def rel_candidates(base, target):
    """references that may resolve to target against base (each is verified by the caller)"""
    bs, ba, bp, bq, _ = uri_split(base)
    ts, ta, tp, tq, tf = uri_split(target)
    if ts != bs or ta is None:
        return []
    qf = (("?" + tq) if tq is not None else "") + (("#" + tf) if tf is not None else "")
    out = ["//" + ta + tp + qf]
    if ta != ba:
        return out
    if tp.startswith("/"):
        out.append(tp + qf)
    bdir = "/" if bp == "" else bp[: bp.rfind("/") + 1]
    d = bdir
    for k in range(4):
        if tp.startswith(d):
            rem = tp[len(d):]
            up = "../" * k
            if rem:
                if ":" not in rem.split("/")[0]:
                    out.append(up + rem + qf)
                    if k == 0:
                        out.append("./" + rem + qf)
            elif k == 0:
                out += ["." + qf, "./" + qf]
            else:
                out += [up + qf, up[:-1] + qf]
        if d == "/":
            break
        d = d[: d.rstrip("/").rfind("/") + 1]
    if tp == bp:
        if tq is not None:
            out.append(qf)
        if tq == bq:
            out.append(("#" + tf) if tf is not None else "")
    # dot segments inside the reference (RFC 3986 5.2.4 removes them wherever they stand)
    for c in list(out):
        if c and c[0] not in "/?#" and not c.startswith("//"):
            out.append("zz/../" + c)
            if "/" in c.split("?")[0].split("#")[0]:
                out.append(c.replace("/", "/./", 1))
        elif c.startswith("/") and not c.startswith("//"):
            out.append("/zz/.." + c)
    return out


class Anon:  # [ p o ; ... ]
    def __init__(self, pos):
        self.pos = pos


class Coll:  # ( ... )
    def __init__(self, items):
        self.items = items


class Ctx(list):
    """blank node labels of a document + IRIs near its base"""
    near: list = []


def g_iri(rng, near=None):
    if near and rng.random() < 0.35:
        return ("I", rng.choice(near))
    r = rng.random()
    if r < 0.6:
        return ("I", NS_E + rng.choice(LOCALS))
    if r < 0.8:
        return ("I", NS_O + rng.choice(LOCALS[:6]))
    return ("I", rng.choice(FULL_IRIS))


T_LEX = ["", "x", 'a"b', "a'b", "a\\b", "a\nb", "a\rb", "é中\U0001F600", '"', "'", '""', "''", "x" + DQ3 + "y", "x" + SQ3, "\t",
         " x ", "\\n", "a\r\nb", '"x"', "end\\", "\b\f", "a\fb\x08", "\t'\""]
NUMS = [("integer", ["5", "-3", "0", "+7", "007"]), ("decimal", ["1.5", "-0.5", ".5", "+2.0"]),
        ("double", ["1e3", "1.5E0", "-1.5e-2", ".5e1", "1.E3", "1E+2"]), ("boolean", ["true", "false"])]


def g_lit(rng):
    r = rng.random()
    if r < 0.4:
        return ("L", rng.choice(T_LEX), None)
    if r < 0.6:
        return ("L", rng.choice(T_LEX), ("lang", rng.choice(["en", "EN-us", "de-DE-1996"])))
    if r < 0.85:
        ty, lexs = rng.choice(NUMS)
        return ("L", rng.choice(lexs), ("dt", XSDNS + ty))
    return ("L", rng.choice(T_LEX), ("dt", rng.choice([NS_E + "dt", XSDNS + "string", "urn:d"])))


def g_obj(rng, depth, labels):
    r = rng.random()
    if r < 0.35:
        return g_lit(rng)
    if r < 0.6:
        return g_iri(rng, getattr(labels, "near", None))
    if r < 0.72:
        return ("B", rng.choice(labels))
    if r < 0.86 and depth < 2:
        return Anon(g_pos(rng, depth + 1, labels, allow_empty=True))
    if depth < 2:
        return Coll([g_obj(rng, depth + 1, labels) for _ in range(rng.choice([0, 1, 2, 3]))])
    return g_iri(rng)


def g_pos(rng, depth, labels, allow_empty=False):
    n = rng.choice([0, 1, 1, 2]) if allow_empty else rng.choice([1, 1, 2, 3])
    out = []
    for _ in range(n):
        p = ("I", RDF + "type") if rng.random() < 0.15 else ("I", NS_E + rng.choice(["p", "q", "a", "a.b"]))
        out.append((p, [g_obj(rng, depth, labels) for _ in range(rng.choice([1, 1, 1, 2, 3]))]))
    return out


def g_statements(rng, labels):
    sts = []
    for _ in range(rng.choice([1, 1, 2, 3])):
        r = rng.random()
        if r < 0.6:
            subj = g_iri(rng, getattr(labels, "near", None))
        elif r < 0.8:
            subj = ("B", rng.choice(labels))
        elif r < 0.9:
            subj = Anon(g_pos(rng, 1, labels, allow_empty=True))
        else:
            subj = Coll([g_obj(rng, 1, labels) for _ in range(rng.choice([1, 2]))])
        pos = g_pos(rng, 0, labels, allow_empty=isinstance(subj, Anon) and len(subj.pos) > 0)
        sts.append((subj, pos))
    return sts


class Ev:
    """meaning of the AST: triples over ('I',s) / ('B',id) / ('L',lex,kind)"""

    def __init__(self):
        self.n = 0
        self.triples = []

    def fresh(self):
        self.n += 1
        return ("B", f"_anon{self.n}")

    def node(self, x):
        if isinstance(x, Anon):
            b = self.fresh()
            self.pos(b, x.pos)
            return b
        if isinstance(x, Coll):
            items = [self.node(i) for i in x.items]
            head = ("I", RDF + "nil")
            for it in reversed(items):
                b = self.fresh()
                self.triples.append((b, ("I", RDF + "first"), it))
                self.triples.append((b, ("I", RDF + "rest"), head))
                head = b
            return head
        return x

    def pos(self, s, pos):
        for p, objs in pos:
            for o in objs:
                self.triples.append((s, p, self.node(o)))

    def statements(self, sts):
        for subj, pos in sts:
            self.pos(self.node(subj), pos)
        return self.triples


class TurtleWriter:
    def __init__(self, rng, trig=False, base=None, via=None):
        self.rng = rng
        self.base, self.via = base, via          # via: "@base" | "BASE" | "publicID" | None (no base at all)
        self.rel_ns = set()
        r = rng.random()
        self.pe = "" if r < 0.3 else rng.choice(["e", "E1", "e.x", "é"])       # prefix for NS_E ("" = default prefix)
        self.po = rng.choice(["o", "o-1", "_o"]) if self.pe != "" or rng.random() < 0.5 else "o"
        self.use_base = via is not None
        self.used = set()
        self.flags = set()
        self._ns_for = {self.pe: NS_E, self.po: NS_O}

    def relative(self, s):
        """a relative reference for s against the document's base: any RFC 3986 kind that resolves to s (own resolver);
        None if there is none"""
        if not self.use_base:
            return None
        ok = [r for r in dict.fromkeys(rel_candidates(self.base, s)) if rfc_resolve(self.base, r) == s]
        return self.rng.choice(ok) if ok else None

    def ws(self, must=True):
        r = self.rng.random()
        if not must and r < 0.3:
            return ""
        return self.rng.choice([" ", " ", "\n", "\t", "  ", " # c\n", "\r\n", "\n\n  "])

    def iri_full(self, s):
        rng = self.rng
        if self.use_base and rng.random() < 0.7:
            rel = self.relative(s)
            if rel is not None:
                self.flags.add("rel_" + ("empty" if rel == "" else "netpath" if rel.startswith("//") else "abspath" if rel.startswith("/")
                                         else "query" if rel.startswith("?") else "fragment" if rel.startswith("#")
                                         else "dotdot" if rel.startswith("..") else "dot" if rel.startswith(".")
                                         else "inner_dots" if "/./" in rel or "/../" in rel else "relpath"))
                return "<" + "".join(uescape(rng, c) if (c in '<>"{}|^`\\' or ord(c) <= 0x20) else c for c in rel) + ">"
        return nt_iri(rng, s, esc=rng.choice([0.0, 0.0, 0.1]))

    def pn_local(self, local):
        """PN_LOCAL spelling of a local name, or None"""
        rng = self.rng
        out = []
        n = len(local)
        for i, c in enumerate(local):
            if c == "%" and i + 2 < n and all(h in "0123456789abcdefABCDEF" for h in local[i + 1:i + 3]):
                out.append(c)
            elif c.isalnum() or c == "_" or c == ":":
                out.append("\\_" if c == "_" and rng.random() < 0.2 else c)
            elif c == "." and 0 < i < n - 1:
                out.append(c if rng.random() < 0.7 else "\\.")
            elif c == "-" and i > 0:
                out.append(c if rng.random() < 0.7 else "\\-")
            elif c in PN_ESC:
                out.append("\\" + c)
            else:
                return None
        return "".join(out)

    def iri(self, t, predicate=False):
        s = t[1]
        rng = self.rng
        if predicate and s == RDF + "type" and rng.random() < 0.7:
            return "a"
        for ns, pfx in ((self._ns_for[self.pe], self.pe), (self._ns_for[self.po], self.po), (XSDNS, "xsd"), (RDF, "rdf")):
            if s.startswith(ns) and rng.random() < 0.65:
                loc = self.pn_local(s[len(ns):])
                if loc is not None:
                    self.used.add((pfx, ns))
                    return pfx + ":" + loc
        return self.iri_full(s)

    def string(self, s):
        rng = self.rng
        q = rng.choice(['"', "'", DQ3, SQ3])
        qc = q[0]
        long = len(q) == 3
        out = []
        prev_raw_q = False
        for i, ch in enumerate(s):
            last = i == len(s) - 1
            raw_ok = True
            if ch == "\\":
                raw_ok = False
            elif ch == qc:
                raw_ok = long and not prev_raw_q and not last
            elif ch in "\n\r":
                raw_ok = long
            if raw_ok and rng.random() > 0.12:
                out.append(ch)
                if ch == "\r":
                    self.flags.add("raw_cr_in_long_string")
                prev_raw_q = ch == qc
            else:
                out.append(ECHAR[ch] if ch in ECHAR and rng.random() < 0.6 else uescape(rng, ch))
                prev_raw_q = False
        return q + "".join(out) + q

    def literal(self, t):
        rng = self.rng
        _, lex, k = t
        if k is None:
            if rng.random() < 0.15:
                return self.string(lex) + "^^" + self.iri(("I", XSDNS + "string"))
            return self.string(lex)
        if k[0] == "lang":
            return self.string(lex) + "@" + k[1]
        dt = k[1]
        if dt.startswith(XSDNS) and dt[len(XSDNS):] in ("integer", "decimal", "double", "boolean") and rng.random() < 0.7:
            return lex          # numeric / boolean shorthand
        return self.string(lex) + "^^" + self.iri(("I", dt))

    def obj(self, o):
        if isinstance(o, Anon):
            if not o.pos:
                return self.rng.choice(["[]", "[ ]", "[\n]"])
            return "[" + self.ws(False) + self.polist(o.pos) + self.ws(False) + "]"
        if isinstance(o, Coll):
            return "(" + self.ws(False) + "".join(self.obj(i) + self.ws(True) for i in o.items) + ")"
        if o[0] == "I":
            return self.iri(o)
        if o[0] == "B":
            return "_:" + o[1]
        return self.literal(o)

    def polist(self, pos):
        rng = self.rng
        parts = []
        for p, objs in pos:
            sep = self.ws(True) + "," + self.ws(False)
            parts.append(self.iri(p, predicate=True) + self.ws(True) + sep.join(self.obj(o) for o in objs))
        out = ""
        for i, part in enumerate(parts):
            out += part
            if i < len(parts) - 1:
                out += self.ws(True) + ";" + (self.ws(False) + ";" if rng.random() < 0.1 else "") + self.ws(True)
            elif rng.random() < 0.15:
                out += self.ws(True) + ";"
        return out

    def statement(self, subj, pos, final_dot=True):
        if isinstance(subj, Anon) and subj.pos:
            head = "[" + self.ws(False) + self.polist(subj.pos) + self.ws(True) + "]"
        else:
            head = self.obj(subj)
        body = head + (self.ws(True) + self.polist(pos) if pos else "")
        return body + (self.ws(True) + "." if final_dot else "")

    def header(self):
        rng = self.rng
        lines = []
        decls = sorted(self.used)
        rng.shuffle(decls)
        need_base_first = False
        for pfx, ns in decls:
            ns_txt = nt_iri(rng, ns, 0.0)
            if self.use_base and rng.random() < 0.4:
                rel = self.relative(ns)
                if rel is not None:       # PREFIX ns: </ns/> : a namespace IRI is resolved like any other IRIREF
                    ns_txt = "<" + rel + ">"
                    need_base_first = True
                    self.flags.add("rel_prefix")
            if rng.random() < 0.5:
                lines.append("@prefix" + self.ws(True) + pfx + ":" + self.ws(False) + ns_txt + self.ws(False) + ".")
            else:
                lines.append(rng.choice(["PREFIX", "prefix", "PrEfIx"]) + self.ws(True) + pfx + ":" + self.ws(False) + ns_txt)
        if self.via == "@base":
            b = "@base" + self.ws(True) + "<" + self.base + ">" + self.ws(False) + "."
        elif self.via == "BASE":
            b = rng.choice(["BASE", "base", "Base"]) + self.ws(True) + "<" + self.base + ">"
        else:
            b = None
        if b is not None:
            lines.insert(0 if need_base_first else rng.randrange(len(lines) + 1), b)
        return "".join(ln + self.ws(True) for ln in lines)

    def redeclare(self):
        """render the prefixes used since the last call as directives and swap the meaning of the two main prefixes: what
        follows uses the same prefix names for the other namespaces (a prefix may be re-declared at any point)"""
        head = self.header()
        self.used = set()
        self._ns_for = {self.pe: NS_O, self.po: NS_E} if self._ns_for[self.pe] == NS_E else {self.pe: NS_E, self.po: NS_O}
        return head

    def turtle(self, sts):
        rng = self.rng
        if len(sts) >= 2 and rng.random() < 0.35:
            k = rng.randrange(1, len(sts))
            body1 = "".join(self.statement(s, p) + self.ws(True) for s, p in sts[:k])
            head1 = self.redeclare()
            body2 = "".join(self.statement(s, p) + self.ws(True) for s, p in sts[k:])
            via, self.via = self.via, None          # the base directive is written once, in the first header
            head2 = self.header()
            self.via = via
            self.flags.add("prefix_redeclared")
            return head1 + body1 + head2 + body2
        body = "".join(self.statement(s, p) + self.ws(True) for s, p in sts)
        return self.header() + body

    def trig(self, default_sts, named):
        rng = self.rng

        def default_blocks():
            out = []
            for s, p in default_sts:
                if rng.random() < 0.5:
                    out.append(self.statement(s, p) + self.ws(True))
                else:
                    out.append("{" + self.ws(False) + self.statement(s, p, final_dot=rng.random() < 0.5) + self.ws(True) + "}" + self.ws(True))
            return out

        def named_blocks():
            out = []
            for gname, sts in named:
                gtxt = self.obj(gname)
                kw = rng.choice(["GRAPH ", "graph ", ""])
                inner = ""
                for i, (s, p) in enumerate(sts):
                    inner += self.statement(s, p, final_dot=(i < len(sts) - 1 or rng.random() < 0.5)) + self.ws(True)
                out.append(kw + gtxt + self.ws(True) + "{" + self.ws(False) + inner + "}" + self.ws(True))
            return out

        if default_sts and named and rng.random() < 0.4:
            first, second = (default_blocks, named_blocks) if rng.random() < 0.5 else (named_blocks, default_blocks)
            b1 = first()
            head1 = self.redeclare()
            b2 = second()
            via, self.via = self.via, None
            head2 = self.header()
            self.via = via
            rng.shuffle(b1)
            rng.shuffle(b2)
            self.flags.add("prefix_redeclared")
            return head1 + "".join(b1) + head2 + "".join(b2)
        blocks = default_blocks() + named_blocks()
        rng.shuffle(blocks)
        return self.header() + "".join(blocks)


def mk2(t):
    """expected term -> rdflib term (default construction: rdflib's normalisation applies as in the parser)"""
    if t[0] == "I":
        return URIRef(t[1])
    if t[0] == "B":
        return BNode(t[1])
    if t[2] is None:
        return Literal(t[1])
    if t[2][0] == "lang":
        return Literal(t[1], lang=t[2][1])
    return Literal(t[1], datatype=URIRef(t[2][1]))


def xml_canon(lex):
    """an rdf:XMLLiteral up to the spelling of its XML: element and attribute names resolved to (namespace, local name)"""
    import xml.etree.ElementTree as ET
    try:
        root = ET.fromstring("<r>" + lex + "</r>")
    except Exception:  # noqa: BLE001
        return "ILL-FORMED:" + lex

    def walk(e):
        return [e.tag, sorted(e.attrib.items()), e.text or "", [walk(c) for c in e], e.tail or ""]
    return json.dumps(walk(root), ensure_ascii=True)


def key_of(t):
    """structural key of an rdflib term; blank nodes -> ('B', label)"""
    if isinstance(t, BNode):
        return ("B", str.__str__(t))
    if isinstance(t, Literal):
        dt = None if t.datatype is None else str.__str__(t.datatype)
        if dt == RDF + "XMLLiteral":
            return ("L", xml_canon(str.__str__(t)), dt, None)
        if dt == XSDNS + "string":
            dt = None           # RDF 1.1: simple literals are xsd:string
        return ("L", str.__str__(t), dt, None if t.language is None else str.__str__(t.language).lower())
    return ("I", str.__str__(t))


def iso(a, b, limit=12):
    """brute-force isomorphism of two sets of tuples of keys (blank nodes in any position)"""
    a, b = set(a), set(b)
    if len(a) != len(b):
        return False
    isb = lambda x: x is not None and x[0] == "B"  # noqa: E731
    ba = sorted({x for t in a for x in t if isb(x)})
    bb = sorted({x for t in b for x in t if isb(x)})
    if len(ba) != len(bb):
        return False
    if len(ba) > limit:
        return None
    if {t for t in a if not any(isb(x) for x in t)} != {t for t in b if not any(isb(x) for x in t)}:
        return False

    steps = [0]

    def extend(m, rest):
        steps[0] += 1
        if steps[0] > 200000:
            raise OverflowError()
        if not rest:
            return {tuple(m.get(x, x) for x in t) for t in a} == b
        x = rest[0]
        used = set(m.values())
        for y in bb:
            if y in used:
                continue
            m[x] = y
            ok = True
            for t in a:
                if x in t and all(not isb(z) or z in m for z in t):
                    if tuple(m.get(z, z) for z in t) not in b:
                        ok = False
                        break
            if ok and extend(m, rest[1:]):
                return True
            del m[x]
        return False

    try:
        return extend({}, ba)
    except OverflowError:
        return None


def graph_keys(g):
    return {(key_of(s), key_of(p), key_of(o)) for s, p, o in g}


def dataset_keys(ds):
    out = set()
    for s, p, o, g in ds.quads((None, None, None, None)):
        gid = g.identifier if isinstance(g, Graph) else g
        gk = None if gid is None or (isinstance(gid, URIRef) and str(gid) == str(DATASET_DEFAULT_GRAPH_ID)) else key_of(gid)
        out.add((key_of(s), key_of(p), key_of(o), gk))
    return out


# ---- RDF/XML and JSON-LD writers work on flat triples (collections / anonymous nodes already evaluated)
def xml_esc(s, attr=False):
    s = s.replace("&", "&amp;").replace("<", "&lt;").replace(">", "&gt;")
    if attr:
        s = s.replace('"', "&quot;").replace("\n", "&#10;").replace("\r", "&#13;").replace("\t", "&#9;")
    else:
        s = s.replace("\r", "&#13;")
    return s


def xml_ok(s):
    return all(ch in "\t\n\r" or (ord(ch) >= 0x20 and ord(ch) not in (0xFFFE, 0xFFFF) and not 0xD800 <= ord(ch) <= 0xDFFF) for ch in s)


def split_qname(iri):
    for i in range(len(iri) - 1, -1, -1):
        if iri[i] in "/#":
            loc = iri[i + 1:]
            if loc and (loc[0].isalpha() or loc[0] == "_") and all(c.isalnum() or c in "_-." for c in loc) and all(ord(c) < 128 for c in loc):
                return iri[:i + 1], loc
            return None
    return None


NS_X = "http://e/x#"
NS_Y = "http://e/y/"
_DX = f' xmlns:x="{NS_X}"'
_DY = f' xmlns:y="{NS_Y}"'
# meaning (lexical form with every namespace declared where it is used) -> spelling inside a document that declares x: and y: on rdf:RDF
XML_LITERALS = {
    f"<x:a{_DX}>1</x:a><x:b{_DX}>2</x:b>": "<x:a>1</x:a><x:b>2</x:b>",
    f"text <x:a{_DX}><x:b>n</x:b></x:a> mid <x:c{_DX} at=\"v\"/> tail": 'text <x:a><x:b>n</x:b></x:a> mid <x:c at="v"/> tail',
    f"<x:a{_DX}/><y:b{_DY}/><x:c{_DX}><y:d{_DY}/></x:c><y:e{_DY}>z</y:e>": "<x:a/><y:b/><x:c><y:d/></x:c><y:e>z</y:e>",
    "just text &amp; more": "just text &amp; more",
    f"<x:a{_DX}>é</x:a>": "<x:a>é</x:a>",
    '<z:own xmlns:z="urn:z:">1</z:own><z:own xmlns:z="urn:z:">2</z:own>': '<z:own xmlns:z="urn:z:">1</z:own><z:own xmlns:z="urn:z:">2</z:own>',
}


def rdfxml_document(rng, triples):
    """flat triples -> RDF/XML text with random structural choices (typed node elements, property attributes,
    nested node elements, rdf:parseType="Resource", property attributes on an empty property element, rdf:ID under
    xml:base, relative rdf:about) and random xml:lang scoping: xml:lang on rdf:RDF, node elements and property
    elements, inherited by everything below, overridden by nested values, switched off by xml:lang="";
    None if not expressible"""
    nsmap = {RDF: "rdf"}

    def qn(iri):
        sp = split_qname(iri)
        if sp is None:
            return None
        ns, loc = sp
        if ns not in nsmap:
            nsmap[ns] = f"n{len(nsmap)}"
        return nsmap[ns] + ":" + loc

    def ncname(x):
        return bool(x) and (x[0].isalpha() or x[0] == "_") and all(c.isalnum() or c in "_-." for c in x)

    def lang_of(o):
        return o[2][1] if o[2] is not None and o[2][0] == "lang" else None

    def lang_eq(a, b):
        return (a or "").lower() == (b or "").lower()

    def pick_scope(scope, p=0.4):
        """maybe an xml:lang attribute: (attribute text, language in effect afterwards)"""
        if rng.random() > p:
            return "", scope
        v = rng.choice(["", "", "en", "fr", "EN-us", "de-DE-1996"])
        return f' xml:lang="{v}"', (v or None)

    by_s = {}
    refs = {}
    for s, p, o in triples:
        by_s.setdefault(s, []).append((p, o))
        if o[0] == "B":
            refs[o] = refs.get(o, 0) + 1
    nested = {b: rng.choice(["resource", "node", "propattrs"]) for b, n in refs.items()
              if n == 1 and b[1].startswith("_anon") and b in by_s and rng.random() < 0.7}
    use_base = rng.random() < 0.5
    root_lang = rng.choice([None, None, "en", "de", "EN-us"])

    class Bad(Exception):
        pass

    def propattrs_ok(o):
        pos = by_s[o]
        if not pos or len({p for p, _ in pos}) != len(pos):
            return False
        for p, v in pos:
            q = qn(p[1])
            if q is None or q.startswith("rdf:") or v[0] != "L" or (v[2] is not None and v[2][0] != "lang") or not xml_ok(v[1]):
                return False
        return all(lang_eq(lang_of(v), lang_of(pos[0][1])) for _, v in pos)

    def props(s, attrs_allowed, typed_allowed, scope):
        """scope = the language in effect on the element that carries these properties -> (attribute strings, element strings, tag)"""
        attrs, elems, tag = [], [], "rdf:Description"
        pos = list(by_s.get(s, []))
        types = [o for p, o in pos if p[1] == RDF + "type" and o[0] == "I" and qn(o[1])]
        if types and typed_allowed and rng.random() < 0.6:
            tag = qn(types[0][1])
            pos.remove((("I", RDF + "type"), types[0]))
        seen_attr = set()
        for p, o in pos:
            q = qn(p[1])
            if q is None:
                raise Bad()
            if o[0] == "L":
                if not xml_ok(o[1]):
                    raise Bad()
                typed = o[2] is not None and o[2][0] == "dt"
                l_ = lang_of(o)
                if typed and o[2][1] == RDF + "XMLLiteral":
                    # written with the prefixes of the enclosing document (declared on rdf:RDF): the parser has to add the
                    # namespace declarations to every top-level element of the literal
                    elems.append(f'<{q} rdf:parseType="Literal">{XML_LITERALS[o[1]]}</{q}>')
                    continue
                if (not typed and attrs_allowed and lang_eq(l_, scope) and rng.random() < 0.35 and q not in seen_attr
                        and not q.startswith("rdf:") and sum(1 for pp, _ in pos if pp == p) == 1):
                    seen_attr.add(q)       # a property attribute takes the language in effect on its element
                    attrs.append(f'{q}="{xml_esc(o[1], True)}"')
                elif typed:
                    noise = rng.choice(["", "", "", ' xml:lang="en"', ' xml:lang=""'])    # xml:lang does not apply to typed literals
                    elems.append(f'<{q} rdf:datatype="{xml_esc(o[2][1], True)}"{noise}>{xml_esc(o[1])}</{q}>')
                elif lang_eq(l_, scope) and rng.random() < 0.7:
                    elems.append(f"<{q}>{xml_esc(o[1])}</{q}>")        # inherited
                else:
                    elems.append(f'<{q} xml:lang="{l_ or ""}">{xml_esc(o[1])}</{q}>')
            elif o[0] == "I":
                if rng.random() < 0.7:
                    elems.append(f'<{q} rdf:resource="{xml_esc(o[1], True)}"/>')
                else:
                    elems.append(f'<{q}><rdf:Description rdf:about="{xml_esc(o[1], True)}"/></{q}>')
            elif o in nested:
                kind = nested[o]
                if kind == "propattrs" and not propattrs_ok(o):
                    kind = "resource"
                if kind == "propattrs":
                    want = lang_of(by_s[o][0][1])
                    la = "" if lang_eq(want, scope) and rng.random() < 0.6 else f' xml:lang="{want or ""}"'
                    elems.append(f"<{q}{la} " + " ".join(f'{qn(pp[1])}="{xml_esc(v[1], True)}"' for pp, v in by_s[o]) + "/>")
                elif kind == "resource":
                    la, sc = pick_scope(scope)
                    _, ie, _ = props(o, False, False, sc)
                    elems.append(f'<{q} rdf:parseType="Resource"{la}>' + "".join(ie) + f"</{q}>")
                else:
                    la, sc = pick_scope(scope)
                    lb, sc2 = pick_scope(sc)
                    ia, ie, itag = props(o, True, True, sc2)
                    inner = f"<{itag}{lb}" + "".join(" " + a for a in ia) + (">" + "".join(ie) + f"</{itag}>" if ie else "/>")
                    elems.append(f"<{q}{la}>" + inner + f"</{q}>")
            else:
                if not ncname(o[1]):
                    raise Bad()
                elems.append(f'<{q} rdf:nodeID="{o[1]}"/>')
        rng.shuffle(elems)
        return attrs, elems, tag

    body = []
    try:
        for s in by_s:
            if s in nested:
                continue
            la, sc = pick_scope(root_lang)
            attrs, elems, tag = props(s, True, True, sc)
            if s[0] == "I":
                if "#" in s[1] and ncname(s[1].split("#", 1)[1]) and rng.random() < 0.4:
                    head_attrs = [f'xml:base="{xml_esc(s[1].split("#", 1)[0], True)}"', f'rdf:ID="{s[1].split("#", 1)[1]}"']
                    # xml:base on the node element also governs relative IRIs inside it: none are written there
                elif use_base and s[1].startswith(BASE) and rng.random() < 0.6:
                    head_attrs = [f'rdf:about="{xml_esc(s[1][len(BASE):], True)}"']
                else:
                    head_attrs = [f'rdf:about="{xml_esc(s[1], True)}"']
            else:
                if not ncname(s[1]):
                    return None
                head_attrs = [f'rdf:nodeID="{s[1]}"']
            sep = rng.choice(["", "\n  ", "\n<!-- c -->\n"])
            body.append(f"<{tag}{la} " + " ".join(head_attrs + attrs) + (">" + sep + sep.join(elems) + sep + f"</{tag}>" if elems else "/>"))
    except Bad:
        return None
    head = '<?xml version="1.0" encoding="utf-8"?>\n' if rng.random() < 0.7 else ""
    nsdecl = " ".join(f'xmlns:{v}="{xml_esc(k, True)}"' for k, v in nsmap.items())
    base = f' xml:base="{BASE}"' if use_base else ""
    rl = f' xml:lang="{root_lang}"' if root_lang else ""
    nsdecl += f' xmlns:x="{NS_X}" xmlns:y="{NS_Y}"'
    return head + f"<rdf:RDF {nsdecl}{base}{rl}>\n" + "\n".join(body) + "\n</rdf:RDF>\n"


def jsonld_document(rng, triples):
    compact = rng.random() < 0.5
    ctx = {"e": NS_E, "xsd": XSDNS} if compact else None

    def cid(iri):
        loc = iri[len(NS_E):]
        if compact and iri.startswith(NS_E) and loc and ":" not in loc and not loc.startswith("/") and rng.random() < 0.7:
            return "e:" + loc
        return iri

    by_s = {}
    for s, p, o in triples:
        by_s.setdefault(s, []).append((p, o))
    nodes = []
    for s, pos in by_s.items():
        n = {"@id": cid(s[1]) if s[0] == "I" else "_:" + s[1]}
        for p, o in pos:
            if p[1] == RDF + "type" and o[0] == "I":
                n.setdefault("@type", []).append(cid(o[1]))
                continue
            if o[0] == "I":
                v = {"@id": cid(o[1])}
            elif o[0] == "B":
                v = {"@id": "_:" + o[1]}
            elif o[2] is None:
                v = o[1] if (compact and rng.random() < 0.5) else {"@value": o[1]}
            elif o[2][0] == "lang":
                v = {"@value": o[1], "@language": o[2][1]}
            else:
                dt = o[2][1]
                if dt == XSDNS + "boolean" and o[1] in ("true", "false") and rng.random() < 0.5:
                    v = (o[1] == "true") if compact else {"@value": o[1] == "true"}
                elif dt == XSDNS + "integer" and o[1].lstrip("-").isdigit() and str(int(o[1])) == o[1] and rng.random() < 0.5:
                    v = int(o[1]) if compact else {"@value": int(o[1])}
                else:
                    v = {"@value": o[1], "@type": ("xsd:" + dt[len(XSDNS):]) if compact and dt.startswith(XSDNS) else dt}
            n.setdefault(cid(p[1]), []).append(v)
        nodes.append(n)
    if compact:
        doc = {"@context": ctx, "@graph": nodes} if (len(nodes) != 1 or rng.random() < 0.5) else dict({"@context": ctx}, **nodes[0])
    else:
        doc = nodes if rng.random() < 0.5 else {"@graph": nodes}
    return json.dumps(doc, ensure_ascii=rng.random() < 0.5, indent=rng.choice([None, 1]))


# ---- JSON-LD with contexts: the writer chooses the meaning first (subject, property IRI, value terms) and then a spelling
# whose meaning it knows: key as full IRI / compact IRI / vocabulary-relative / term; term definitions as string or
# object with @id, @type, @language, @container (@list, @set, @language), @reverse; @vocab, @base, default @language,
# keyword aliases; the members of every object in random order (JSON member order is the author's choice);
# arrays of contexts; a context embedded in a nested node object.
VOC = "http://example.org/vocab#"
VOC2 = "http://example.org/other#"
JL_PROPS = [VOC + "name", VOC + "knows", VOC + "years", VOC + "label", VOC + "items", NS_E + "p", NS_E + "q", "urn:x:prop"]
JL_NODES = [NS_E + "s", NS_E + "o", BASE + "x", BASE + "y/z", "urn:n:1", VOC + "Thing"]
JL_CLASSES = [VOC + "Person", NS_E + "C", "urn:c:1"]
JL_STR = ["x", "", "a b", "é中", "42", "true", "http://not/an/iri", "e:p", "_:b", "@id"]


def shuffled(rng, d):
    items = list(d.items())
    rng.shuffle(items)
    return dict(items)


class JsonLdWriter:
    def __init__(self, rng):
        self.rng = rng
        self.use_vocab = rng.random() < 0.75
        self.base_mode = rng.choice(["ctx", "publicID", None])
        self.default_lang = rng.choice([None, None, None, "de"])
        self.alias = rng.random() < 0.4
        self.idk = "id" if self.alias else "@id"
        self.typek = "type" if self.alias else "@type"
        self.ctx = {}                 # term definitions etc. (filled on demand)
        self.plan = {}                # property IRI -> plan
        self.triples = []
        self.nb = 0
        self.used_e = False
        self.used_xsd = False
        self.flags = set()
        self.other_vocab = 0          # > 0 inside a node object whose embedded context sets another @vocab

    # ---------------------------------------------------------------- IRIs
    def compact(self, iri):
        loc = iri[len(NS_E):]
        if iri.startswith(NS_E) and loc and ":" not in loc and not loc.startswith("//"):
            self.used_e = True
            return "e:" + loc
        return None

    def node_ref(self, iri):
        """spelling of an IRI where document-relative IRIs are expected (@id values)"""
        rng = self.rng
        opts = [iri]
        c = self.compact(iri) if rng.random() < 0.5 else None
        if c:
            opts.append(c)
        if self.base_mode and iri.startswith(BASE) and len(iri) > len(BASE) and ":" not in iri[len(BASE):].split("/")[0]:
            opts.append(iri[len(BASE):])
            self.flags.add("base_relative")
        return rng.choice(opts)

    def vocab_ref(self, iri, allow_vocab=True):
        """spelling of an IRI where vocabulary-relative IRIs are expected (keys, @type values, @id of term definitions)"""
        rng = self.rng
        opts = [iri]
        if rng.random() < 0.6:
            c = self.compact(iri)
            if c:
                opts.append(c)
        if allow_vocab and self.use_vocab and not self.other_vocab and iri.startswith(VOC) and len(iri) > len(VOC):
            opts += [iri[len(VOC):]] * 2
        r = rng.choice(opts)
        if self.use_vocab and not self.other_vocab and r == iri[len(VOC):] and iri.startswith(VOC):
            self.flags.add("vocab_relative")
        return r

    # ---------------------------------------------------------------- plans
    def plan_for(self, p):
        if p in self.plan:
            return self.plan[p]
        saved, self.other_vocab = self.other_vocab, 0      # term definitions go into the outermost context
        try:
            pl = self._plan_for(p)
        finally:
            self.other_vocab = saved
        if saved and pl["kind"] == "key" and ":" not in pl["key"]:
            pl["vocab_key"] = True
        return pl

    def _plan_for(self, p):
        rng = self.rng
        loc = p[len(VOC):] if p.startswith(VOC) else p[len(NS_E):] if p.startswith(NS_E) else "prop"
        kind = rng.choice(["key", "key", "term_str", "term_obj", "term_obj", "term_obj", "reverse"])
        pl = {"kind": kind, "coerce": None}
        if kind == "key":
            pl["key"] = self.vocab_ref(p)
            pl["vocab_key"] = ":" not in pl["key"]
        else:
            t = rng.choice([loc, "t_" + loc, loc.upper()])
            if t in self.ctx or t in ("e", "xsd", "id", "type"):
                t = "t2_" + loc
            pl["key"] = t
            if kind == "term_str":
                self.ctx[t] = self.vocab_ref(p)
            elif kind == "reverse":
                self.ctx[t] = {"@reverse": self.vocab_ref(p)}
                self.flags.add("reverse")
            else:
                d = {}
                if not (t == loc and p.startswith(VOC) and self.use_vocab and rng.random() < 0.5):
                    d["@id"] = self.vocab_ref(p)
                else:
                    self.flags.add("term_without_id")
                co = rng.choice([None, "@id", "int", "lang_en", "lang_null", "@list", "@set", "@language_map"])
                pl["coerce"] = co
                if co == "@id":
                    d["@type"] = "@id"
                elif co == "int":
                    short = rng.random() < 0.5
                    self.used_xsd = self.used_xsd or short
                    d["@type"] = "xsd:integer" if short else XSDNS + "integer"
                elif co == "lang_en":
                    d["@language"] = "en"
                elif co == "lang_null":
                    d["@language"] = None
                elif co == "@list":
                    d["@container"] = "@list"
                elif co == "@set":
                    d["@container"] = "@set"
                elif co == "@language_map":
                    d["@container"] = "@language"
                if not d:
                    d["@id"] = self.vocab_ref(p)
                self.ctx[t] = shuffled(rng, d)
                self.flags.add("coerce_" + str(co))
        self.plan[p] = pl
        return pl

    # ---------------------------------------------------------------- values
    def fresh(self):
        self.nb += 1
        return ("B", f"jb{self.nb}")

    def plain(self, s):
        return ("L", s, ("lang", self.default_lang) if self.default_lang else None)

    def simple_value(self, coerce, depth):
        """-> (json, term) for one value under the given coercion (not a container)"""
        rng = self.rng
        r = rng.random()
        if coerce == "@id":
            iri = rng.choice(JL_NODES)
            if r < 0.6:
                return self.node_ref(iri), ("I", iri)
            return {self.idk: self.node_ref(iri)}, ("I", iri)
        if coerce == "int":
            if r < 0.6:
                s = rng.choice(["42", "0", "-7"])
                return s, ("L", s, ("dt", XSDNS + "integer"))
            s = rng.choice(JL_STR)
            return {"@value": s}, ("L", s, None)
        if coerce == "lang_en":
            s = rng.choice(JL_STR)
            if r < 0.6:
                return s, ("L", s, ("lang", "en"))
            if r < 0.8:
                return {"@value": s, "@language": "fr"}, ("L", s, ("lang", "fr"))
            return {"@value": s}, ("L", s, None)
        if coerce == "lang_null":
            s = rng.choice(JL_STR)
            return s, ("L", s, None)
        # no coercion
        if r < 0.2:
            iri = rng.choice(JL_NODES)
            return {self.idk: self.node_ref(iri)}, ("I", iri)
        if r < 0.4:
            s = rng.choice(JL_STR)
            return s, self.plain(s)
        if r < 0.5:
            s = rng.choice(JL_STR)
            return {"@value": s}, ("L", s, None)
        if r < 0.6:
            s = rng.choice(JL_STR)
            return shuffled(rng, {"@value": s, "@language": "EN-us"}), ("L", s, ("lang", "EN-us"))
        if r < 0.7:
            s, dt = rng.choice([("1.5", XSDNS + "decimal"), ("x", NS_E + "dt"), ("7", XSDNS + "integer")])
            return shuffled(rng, {"@value": s, self.typek: dt}), ("L", s, ("dt", dt))
        if r < 0.78:
            b = rng.random() < 0.5
            return b, ("L", "true" if b else "false", ("dt", XSDNS + "boolean"))
        if r < 0.86:
            n = rng.choice([0, 5, -3, 12345])
            return n, ("L", str(n), ("dt", XSDNS + "integer"))
        if depth < 2:
            return self.node(None if rng.random() < 0.5 else rng.choice(JL_NODES), depth + 1, embedded=True)
        s = rng.choice(JL_STR)
        return s, self.plain(s)

    def list_of(self, items):
        head = ("I", RDF + "nil")
        for it in reversed(items):
            b = self.fresh()
            self.triples.append((b, ("I", RDF + "first"), it))
            self.triples.append((b, ("I", RDF + "rest"), head))
            head = b
        return head

    def values(self, p, pl, depth):
        """-> (json value for the key, [terms])"""
        rng = self.rng
        co = pl["coerce"]
        if pl["kind"] == "reverse":
            vs = [self.simple_value("@id" if rng.random() < 0.5 else None, 9) for _ in range(rng.choice([1, 1, 2]))]
            vs = [(j if isinstance(j, dict) else {self.idk: j}, t) if t[0] == "I" else None for j, t in vs]
            vs = [v for v in vs if v is not None]
            if not vs:
                iri = rng.choice(JL_NODES)
                vs = [({self.idk: iri}, ("I", iri))]
            js = [j for j, _ in vs]
            return (js[0] if len(js) == 1 and rng.random() < 0.5 else js), [t for _, t in vs]
        if co == "@list":
            vs = [self.simple_value(None, 9) for _ in range(rng.choice([0, 1, 2, 3]))]
            return [j for j, _ in vs], [self.list_of([t for _, t in vs])]
        if co == "@language_map":
            m, ts = {}, []
            for lang in rng.sample(["en", "de", "fr-CA"], rng.choice([1, 2])):
                ss = [rng.choice(JL_STR) for _ in range(rng.choice([1, 1, 2]))]
                m[lang] = ss[0] if len(ss) == 1 and rng.random() < 0.6 else ss
                ts += [("L", s, ("lang", lang)) for s in ss]
            return m, ts
        if co is None and pl["kind"] != "reverse" and rng.random() < 0.12:
            vs = [self.simple_value(None, 9) for _ in range(rng.choice([0, 1, 2]))]
            self.flags.add("list_object")
            return {"@list": [j for j, _ in vs]}, [self.list_of([t for _, t in vs])]
        n = rng.choice([1, 1, 1, 2, 3]) if co != "@set" else rng.choice([1, 2, 3])
        vs = [self.simple_value(co if co not in ("@set",) else None, depth) for _ in range(n)]
        js = [j for j, _ in vs]
        if len(js) == 1 and co != "@set" and rng.random() < 0.7:
            return js[0], [t for _, t in vs]
        return js, [t for _, t in vs]

    def node(self, iri, depth, embedded=False):
        """-> (json node object, subject term)"""
        rng = self.rng
        subj = ("I", iri) if iri else self.fresh()
        obj = {}
        if iri:
            obj[self.idk] = self.node_ref(iri)
        elif rng.random() < 0.5:
            obj[self.idk] = "_:" + subj[1]
        if rng.random() < 0.4:
            cls = rng.sample(JL_CLASSES, rng.choice([1, 2]))
            tv = [self.vocab_ref(c) for c in cls]
            obj[self.typek] = tv[0] if len(tv) == 1 and rng.random() < 0.5 else tv
            for c in cls:
                self.triples.append((subj, ("I", RDF + "type"), ("I", c)))
        scoped = embedded and depth <= 2 and rng.random() < 0.3
        new_vocab = scoped and rng.random() < 0.5
        if scoped:     # a context embedded in this node object: a term of its own and (sometimes) another vocabulary
            local = {"loc_t": VOC2 + "scoped"}
            if new_vocab:
                local["@vocab"] = VOC2
                self.flags.add("embedded_vocab")
            self.flags.add("embedded_context")
            obj["@context"] = shuffled(rng, local)
        if new_vocab:
            self.other_vocab += 1
            if self.typek in obj:      # the types were spelled before: redo them without vocabulary-relative names
                tv = [self.vocab_ref(c) for c in cls]
                obj[self.typek] = tv[0] if len(tv) == 1 and rng.random() < 0.5 else tv
        for p in rng.sample(JL_PROPS, rng.choice([0, 1, 2, 3]) if embedded else rng.choice([1, 2, 3, 4])):
            pl = self.plan_for(p)
            if pl["key"] in obj or (self.other_vocab and pl.get("vocab_key")):
                continue
            j, ts = self.values(p, pl, depth)
            obj[pl["key"]] = j
            for t in ts:
                self.triples.append((t, ("I", p), subj) if pl["kind"] == "reverse" else (subj, ("I", p), t))
        if scoped:
            s = rng.choice(JL_STR)
            obj["loc_t"] = {"@value": s}
            self.triples.append((subj, ("I", VOC2 + "scoped"), ("L", s, None)))
        if new_vocab:
            s = rng.choice(JL_STR)
            obj["inOther"] = {"@value": s}       # vocabulary-relative key under the embedded @vocab
            self.triples.append((subj, ("I", VOC2 + "inOther"), ("L", s, None)))
            self.other_vocab -= 1
        return shuffled(rng, obj), subj

    def document(self):
        rng = self.rng
        nodes = []
        for iri in rng.sample(JL_NODES[:5], rng.choice([1, 2, 3])):
            j, _ = self.node(iri, 0)
            nodes.append(j)
        if rng.random() < 0.3:
            j, _ = self.node(None, 0)
            nodes.append(j)
        base_ctx = {}
        if self.use_vocab:
            base_ctx["@vocab"] = VOC
        if self.base_mode == "ctx":
            base_ctx["@base"] = BASE
        if self.default_lang:
            base_ctx["@language"] = self.default_lang
        if self.used_e:
            base_ctx["e"] = NS_E
        if self.used_xsd:
            base_ctx["xsd"] = XSDNS
        if self.alias:
            base_ctx["id"] = "@id"
            base_ctx["type"] = "@type"
        terms = dict(self.ctx)
        if rng.random() < 0.3 and terms:
            # an array of contexts: what later definitions rely on (prefixes, @vocab, ...) comes first
            keys = list(terms)
            rng.shuffle(keys)
            k = rng.randrange(len(keys) + 1)
            c1 = dict(base_ctx, **{x: terms[x] for x in keys[:k]})
            c2 = {x: terms[x] for x in keys[k:]}
            ctx = [shuffled(rng, c1)] + ([shuffled(rng, c2)] if c2 else [])
            self.flags.add("context_array")
        else:
            ctx = shuffled(rng, dict(base_ctx, **terms))
        if isinstance(ctx, dict) and "@vocab" in ctx and list(ctx).index("@vocab") > 0:
            self.flags.add("vocab_not_first")
        if len(nodes) == 1 and rng.random() < 0.5:
            doc = shuffled(rng, dict({"@context": ctx}, **nodes[0]))
        else:
            doc = shuffled(rng, {"@context": ctx, "@graph": nodes})
        return json.dumps(doc, ensure_ascii=rng.random() < 0.5, indent=rng.choice([None, 1]))


def jsonld_rich_case(rng):
    w = JsonLdWriter(rng)
    doc = w.document()
    case = {"format": "json-ld", "doc": doc, "expected": [[list(x) for x in t] + [None] for t in w.triples],
            "flags": sorted(w.flags)}
    case["publicID"] = BASE if w.base_mode == "publicID" else "http://unused.example/doc"
    return case


FMT_ID = {"turtle": 1, "trig": 2, "xml": 3, "json-ld": 4, "nt": 5, "nquads": 6}


class Conf(Suite):
    imports = "From RV Require Import Grammar.Conf."
    case_ty = "ccase"
    obs_ty = "cobs"
    model = "conf_model"
    oeq = "bools_eqb"
    spec = "conf_spec"
    kf = "conf_kf"
    kf_ids = {10: "C05j", 11: "C05k"}
    CHECKS: list = []

    def predicted(self, case):
        """(trigger number, names of the checks the finding makes fail): a pure function of the case text"""
        return 0, []

    def coq_case(self, case):
        k, fail = self.predicted(case)
        return ("{| cc_fmt := " + cN(FMT_ID.get(case["format"], 0)) + "; cc_checks := " + cN(len(self.CHECKS)) + "; cc_kf := " + cN(k)
                + "; cc_fail := " + clist(cN(self.CHECKS.index(f)) for f in fail) + " |}")

    def coq_obs(self, obs):
        return clist(cbool(obs.get(k, False)) for k in self.CHECKS)


def parse_keys(fmt, data, **kw):
    if data is not None:
        kw = dict(kw, data=data)
    if fmt in ("trig", "nquads"):
        ds = Dataset()
        ds.parse(format=fmt, **kw)
        return dataset_keys(ds)
    g = Graph()
    g.parse(format=fmt, **kw)
    return {t + (None,) for t in graph_keys(g)}


def parse_kw(case):
    if case.get("publicID"):
        return {"publicID": case["publicID"]}
    return {"publicID": BASE} if case["format"] == "json-ld" else {}


def gen_spell_case(rng):
    fmt = rng.choice(["turtle", "turtle", "turtle", "trig", "trig", "xml", "json-ld", "json-ld"])
    if fmt == "json-ld" and rng.random() < 0.7:
        for _ in range(10):
            case = jsonld_rich_case(rng)
            nb = len({tuple(x) for q in case["expected"] for x in q if x is not None and x[0] == "B"})
            if case["expected"] and nb <= 10:
                return case
    labels = Ctx(rng.sample(["b1", "b2", "x", "a.b", "_1"], 2))
    base = rng.choice(BASES)
    via = rng.choice(["@base", "BASE", "publicID", "publicID", None]) if fmt in ("turtle", "trig") else None
    if via is not None:
        labels.near = [rfc_resolve(base, r) for r in NEAR_REFS]
    for _ in range(20):
        flags = []
        if fmt == "turtle":
            sts = g_statements(rng, labels)
            triples = Ev().statements(sts)
            w = TurtleWriter(rng, base=base, via=via)
            doc = w.turtle(sts)
            flags = sorted(w.flags)
            quads = [t + (None,) for t in triples]
        elif fmt == "trig":
            ev = Ev()
            dsts = g_statements(rng, labels) if rng.random() < 0.7 else []
            ev.statements(dsts)
            quads = [t + (None,) for t in ev.triples]
            named = []
            gnames = rng.sample([("I", NS_E + "g1"), ("I", "urn:g:2"), ("B", "g3"), ("I", NS_E + "a")], rng.choice([0, 1, 2]))
            for gn in gnames:
                sts = g_statements(rng, labels)
                before = len(ev.triples)
                ev.statements(sts)
                quads += [t + (gn,) for t in ev.triples[before:]]
                named.append((gn, sts))
            w = TurtleWriter(rng, trig=True, base=base, via=via)
            doc = w.trig(dsts, named)
            flags = sorted(w.flags)
        else:
            sts = g_statements(rng, labels)
            triples = Ev().statements(sts)
            if fmt == "xml":
                for _x in range(rng.choice([0, 0, 1, 2])):
                    triples.append((("I", NS_E + rng.choice(["s", "a"])), ("I", NS_E + rng.choice(["p", "q"])),
                                    ("L", rng.choice(list(XML_LITERALS)), ("dt", RDF + "XMLLiteral"))))
                    flags = ["xml_literal"]
            quads = [t + (None,) for t in triples]
            doc = rdfxml_document(rng, triples) if fmt == "xml" else jsonld_document(rng, triples)
        nb = len({tuple(x) for q in quads for x in q if x is not None and x[0] == "B"})
        if doc is not None and quads and nb <= 10:
            break
    else:
        fmt, doc, quads, flags, via = "turtle", "<a:b> <a:b> <a:b> .", [(("I", "a:b"),) * 3 + (None,)], [], None
    case = {"format": fmt, "doc": doc, "expected": [[list(x) if x is not None else None for x in q] for q in quads], "flags": flags}
    if via == "publicID" and fmt in ("turtle", "trig"):
        case["publicID"] = base
    return case


def expected_of(case):
    out = set()
    for q in case["expected"]:
        ts = []
        for x in q:
            if x is None:
                ts.append(None)
            else:
                x = tuple(tuple(y) if isinstance(y, list) else y for y in x)
                ts.append(key_of(mk2(x)))
        out.add(tuple(ts))
    return out


class Spell(Conf):
    name = "spell"
    corr = "Graph.parse / Dataset.parse for turtle, trig, xml, json-ld (notation3.SinkParser, trig.TrigSinkParser, rdfxml.RDFXMLHandler, jsonld.Parser)"
    quick_n = 550
    thorough_n = 12000
    timeout_s = 20.0
    CHECKS = ["parsed", "same_graph"]

    # case = {"format", "doc", "expected": [[s,p,o,g]...]}  terms as JSON lists
    def gen(self, rng, i):
        return gen_spell_case(rng)

    def run_impl(self, case):
        try:
            got = parse_keys(case["format"], case["doc"], **parse_kw(case))
        except Exception as e:  # noqa: BLE001
            return {"parsed": False, "same_graph": False, "error": f"{type(e).__name__}: {str(e)[:200]}"}
        r = iso(got, expected_of(case))
        return {"parsed": True, "same_graph": r is not False}

    def nontrivial(self, case, obs):
        return bool(obs.get("same_graph"))

    def features(self, case, obs):
        d = case["doc"]
        f = {"fmt_" + case["format"]: 1, "quads": len(case["expected"])}
        if case["format"] in ("turtle", "trig"):
            for k, pat in (("prefix_at", "@prefix"), ("prefix_sparql", "REFIX"), ("base", "ase"), ("long_dq", DQ3), ("long_sq", SQ3),
                           ("anon", "["), ("collection", "("), ("semicolon", ";"), ("comma", ","), ("uchar", "\\u"), ("comment", "#"),
                           ("graph_kw", "GRAPH"), ("pn_escape", "\\~")):
                f[k] = int(pat in d or pat.lower() in d)
        return f


class Sources(Conf):
    name = "sources"
    corr = "rdflib.parser.create_input_source / StringInputSource / FileInputSource / PythonInputSource; XML and JSON serializers"
    quick_n = 150
    thorough_n = 2500
    timeout_s = 30.0
    CHECKS = ["str", "bytes", "textfile", "binfile", "path", "stringio", "bytesio", "xml_wellformed", "json_wellformed"]
    EXT = {"turtle": "ttl", "trig": "trig", "xml": "rdf", "json-ld": "jsonld", "nt": "nt", "nquads": "nq"}

    def gen(self, rng, i):
        if rng.random() < 0.4:   # line syntaxes too, incl. CR line ends and non-ASCII
            nq = rng.random() < 0.5
            quads = []
            for _ in range(rng.choice([1, 2, 3])):
                quads.append([r_node(rng, 0), ["I", rng.choice(R_IRI)], r_lit(rng) if rng.random() < 0.6 else r_node(rng, 0),
                              None if not nq or rng.random() < 0.5 else r_node(rng, 0)])
            return {"format": "nquads" if nq else "nt", "doc": nt_document(rng, quads, nq, minimal=0.0, esc=0.1), "expected": quads}
        return gen_spell_case(rng)

    def run_impl(self, case):
        fmt, doc = case["format"], case["doc"]
        kw = parse_kw(case)
        obs = {k: False for k in self.CHECKS}
        try:
            ref = parse_keys(fmt, doc, **kw)
        except Exception:  # noqa: BLE001
            return obs      # the str form itself must parse (suite spell checks what it means)
        obs["str"] = True
        data = doc.encode("utf-8")

        def same(fn):
            try:
                return iso(fn(), ref) is not False
            except Exception:  # noqa: BLE001
                return False

        obs["bytes"] = same(lambda: parse_keys(fmt, data, **kw))
        obs["stringio"] = same(lambda: parse_keys(fmt, None, source=io.StringIO(doc), **kw))
        obs["bytesio"] = same(lambda: parse_keys(fmt, None, source=io.BytesIO(data), **kw))
        d = tempfile.mkdtemp(prefix="c05_", dir="/var/tmp")
        path = os.path.join(d, "doc." + self.EXT[fmt])
        try:
            with open(path, "wb") as f:
                f.write(data)
            obs["path"] = same(lambda: parse_keys(fmt, None, source=path, **kw))

            def tf():
                with open(path, "r", encoding="utf-8", newline="") as fh:
                    return parse_keys(fmt, None, source=fh, **kw)

            def bf():
                with open(path, "rb") as fh:
                    return parse_keys(fmt, None, source=fh, **kw)

            obs["textfile"] = same(tf)
            obs["binfile"] = same(bf)
        finally:
            try:
                os.unlink(path)
                os.rmdir(d)
            except OSError:
                pass
        # rdflib's own XML and JSON outputs are well-formed
        g = Graph()
        try:
            src = Dataset() if fmt in ("trig", "nquads") else g
            src.parse(data=doc, format=fmt, **kw)
            if src is not g:
                for s, p, o, _ in src.quads((None, None, None, None)):
                    g.add((s, p, o))
            # outside findings C05j ('%' in a predicate's local name) and C05k (control characters in a literal): see suite xmlout
            for s, p, o in list(g):
                if "%" in p or (isinstance(o, Literal) and not xml_ok(str(o))) or (str(p) == RDF + "type" and "%" in o):
                    g.remove((s, p, o))
            wrote = 0
            for xf in ("xml", "pretty-xml"):
                try:
                    out = g.serialize(format=xf)
                except Exception:  # noqa: BLE001
                    continue        # refusing (e.g. a predicate that cannot be split) is not writing ill-formed XML
                wrote += 1
                xml.sax.parseString(out.encode("utf-8") if isinstance(out, str) else out, xml.sax.ContentHandler())
            obs["xml_wellformed"] = True
        except Exception:  # noqa: BLE001
            obs["xml_wellformed"] = False
        try:
            json.loads(g.serialize(format="json-ld"))
            if src is not g:
                json.loads(src.serialize(format="json-ld"))
            obs["json_wellformed"] = True
        except Exception:  # noqa: BLE001
            obs["json_wellformed"] = False
        return obs

    def nontrivial(self, case, obs):
        return all(obs.get(k) for k in self.CHECKS)

    def features(self, case, obs):
        return {"fmt_" + case["format"]: 1, "non_ascii": int(any(ord(c) > 127 for c in case["doc"])), "has_cr": int("\r" in case["doc"])}


class XmlOut(Conf):
    """rdflib's RDF/XML output on the two known regions and around them (small exhaustive vocabulary)"""
    name = "xmlout"
    corr = "plugins/serializers/rdfxml.py XMLSerializer / PrettyXMLSerializer"
    quick_n = 60
    thorough_n = 400
    CHECKS = ["wellformed"]
    PREDS = [NS_E + "p", NS_E + "a%20b", NS_E + "a.b", NS_O + "q", NS_E + "x%"]
    LITS = ["x", "a<b&c>\"'", "\x0b", "\x00", "\x1f", "\t\n\r", "\x7f\x85", "é中\U0001F600", "]]>", "\ufffe"]

    def gen(self, rng, i):
        return {"format": rng.choice(["xml", "pretty-xml"]), "pred": rng.choice(self.PREDS), "lit": rng.choice(self.LITS),
                "kind": rng.choice(["plain", "lang", "dt", "type"])}

    def sweep(self):
        for f in ("xml", "pretty-xml"):
            for p in self.PREDS:
                for l_ in self.LITS:
                    for k in ("plain", "lang", "dt"):
                        yield {"format": f, "pred": p, "lit": l_, "kind": k}
                yield {"format": f, "pred": p, "lit": "x", "kind": "type"}

    def predicted(self, case):
        if case["kind"] == "type":     # (s, rdf:type, <pred>): pretty-xml uses the type as the node element's name
            return (10, ["wellformed"]) if "%" in case["pred"] and case["format"] == "pretty-xml" else (0, [])
        if "%" in case["pred"]:
            return 10, ["wellformed"]
        if not xml_ok(case["lit"]):
            return 11, ["wellformed"]
        return 0, []

    def run_impl(self, case):
        g = Graph()
        if case["kind"] == "type":
            g.add((URIRef(NS_E + "s"), URIRef(RDF + "type"), URIRef(case["pred"])))
        else:
            lit = Literal(case["lit"]) if case["kind"] == "plain" else Literal(case["lit"], lang="en") if case["kind"] == "lang" \
                else Literal(case["lit"], datatype=URIRef(NS_E + "dt"))
            g.add((URIRef(NS_E + "s"), URIRef(case["pred"]), lit))
        try:
            out = g.serialize(format=case["format"])
        except Exception:  # noqa: BLE001
            return {"wellformed": True}     # refusing is not writing ill-formed XML
        try:
            xml.sax.parseString(out.encode("utf-8") if isinstance(out, str) else out, xml.sax.ContentHandler())
            return {"wellformed": True}
        except Exception:  # noqa: BLE001
            return {"wellformed": False}


class RelRef(Conf):
    """every kind of relative reference against every kind of base, one IRI per document, through @base, BASE and
    publicID, as a subject IRI and as a PREFIX namespace; expected value by the harness's own RFC 3986 5.2 resolver"""
    name = "relref"
    corr = "notation3.join, SinkParser.directive/sparqlDirective (@base, BASE, @prefix, PREFIX), uri_ref2; Graph.parse(publicID=)"
    quick_n = 300
    thorough_n = 3000
    CHECKS = ["resolved"]
    REFS = ["/s", "/", "//o.org/x", "//o.org", "x", "x/y", "./x", "../x", "../../x", "../../../x", "?q=2", "#f", "", "x?q#f", ".", "..",
            "./", "../", "x/./y", "x/../y", "/a/../b", "?", "#", "x#", "/s?q", "x/.", "x/..", "/ns/", "#a:b", "x?a:b", "?x:y", "a/b:c"]

    def gen(self, rng, i):
        return {"format": rng.choice(["turtle", "trig"]), "base": rng.choice(BASES), "ref": rng.choice(self.REFS),
                "via": rng.choice(["@base", "BASE", "publicID"]), "pos": rng.choice(["subject", "prefix", "object"])}

    def sweep(self):
        for b in BASES:
            for r in self.REFS:
                for via in ("@base", "BASE", "publicID"):
                    for pos in ("subject", "prefix"):
                        yield {"format": "turtle", "base": b, "ref": r, "via": via, "pos": pos}

    def run_impl(self, case):
        b, r = case["base"], case["ref"]
        head = f"@base <{b}> .\n" if case["via"] == "@base" else f"BASE <{b}>\n" if case["via"] == "BASE" else ""
        if case["pos"] == "prefix":
            doc, exp = head + f"PREFIX n: <{r}>\nn:x <a:p> <a:o> .", rfc_resolve(b, r) + "x"
        elif case["pos"] == "object":
            doc, exp = head + f"<a:s> <a:p> <{r}> .", rfc_resolve(b, r)
        else:
            doc, exp = head + f"<{r}> <a:p> <a:o> .", rfc_resolve(b, r)
        if case["format"] == "trig":
            doc = doc.replace("<a:s> <a:p>", "{ <a:s> <a:p>").replace("n:x <a:p>", "{ n:x <a:p>").replace(f"<{r}> <a:p> <a:o>", "{ " + f"<{r}> <a:p> <a:o>") + " }"
        try:
            got = parse_keys(case["format"], doc, **({"publicID": b} if case["via"] == "publicID" else {}))
        except Exception:  # noqa: BLE001
            return {"resolved": False}
        iris = {x[1] for t in got for x in t if x is not None and x[0] == "I"} - {"a:s", "a:p", "a:o"}
        return {"resolved": iris == {exp} or (exp in ("a:s", "a:p", "a:o") and not iris)}

    def features(self, case, obs):
        return {"via_" + case["via"]: 1, "pos_" + case["pos"]: 1}


# ====================================================================== join (proof tie)
RFC_BASE = "http://a/b/c/d;p?q"
RFC_REFS = ["g:h", "g", "./g", "g/", "/g", "//g", "?y", "g?y", "#s", "g#s", "g?y#s", ";x", "g;x", "g;x?y#s", "", ".", "./", "..", "../",
            "../g", "../..", "../../", "../../g", "../../../g", "../../../../g", "/./g", "/../g", "g.", ".g", "g..", "..g", "./../g",
            "./g/.", "g/./h", "g/../h", "g;x=1/./y", "g;x=1/../y", "g?y/./x", "g?y/../x", "g#s/./x", "g#s/../x", "http:g"]
J_BASES = BASES + [RFC_BASE, "mid:foo@example", "http://e/a#b#c", "file:///x/y", "urn:a:b", "nocolon", "/a:b", "a:", "a:/", "a://", "a:b#",
                   "http://e/a/../b/./c", "http://e/a?x#y?z", "x:/a//b", "h:?q", "h:#f", ":a", "", "é:/ü/x", "a+b-c.d:/x"]


def c_jres(r):
    return f"(JOk {cstr(r[1])})" if r[0] == "ok" else {"AssertionError": "JAssertionError", "ValueError": "JValueError",
                                                        "TypeError": "JTypeError"}[r[0]]


class Join(Suite):
    """notation3.join / _uri_split / _remove_dot_segments against the Coq model (coq/Grammar/Resolve.v Part M) and the
    RFC 3986 section 5.2 specification (Part S), called directly and through @base of a one-triple Turtle document"""
    name = "join"
    imports = "From RV Require Import Grammar.Resolve."
    case_ty = "jcase"
    obs_ty = "jobs"
    model = "j_model"
    oeq = "jobs_eqb"
    spec = "j_spec_ok"
    corr = "notation3.join, _uri_split, _remove_dot_segments, splitFragP; SinkParser.uri_ref2 / directive (@base)"
    quick_n = 400
    thorough_n = 8000

    def gen(self, rng, i):
        def rnd(alpha, lens):
            return "".join(rng.choice(alpha) for _ in range(rng.choice(lens)))
        r = rng.random()
        base = rng.choice(J_BASES) if r < 0.75 else "h:" + rnd("ab/?#.:", [0, 1, 2, 3, 5, 8]) if r < 0.9 else rnd("ab:/?#.", [0, 1, 2, 4, 6])
        r = rng.random()
        ref = rng.choice(RFC_REFS + RelRef.REFS) if r < 0.55 else rnd("ab/?#.:", [0, 1, 2, 3, 4, 6, 9]) if r < 0.9 else \
            rnd("/.", [1, 2, 3, 5, 7]) + rng.choice(["", "g", "?q", "#f"])
        return {"base": base, "ref": ref}

    def sweep(self):
        for r in RFC_REFS:
            yield {"base": RFC_BASE, "ref": r}
        for b in J_BASES:
            for r in RelRef.REFS + ["g:h", "//g", "/../g", "./../g", "g/../h"]:
                yield {"base": b, "ref": r}

    def run_impl(self, case):
        from rdflib.plugins.parsers.notation3 import join as n3join
        b, r = case["base"], case["ref"]
        try:
            direct = ["ok", n3join(b, r)]
        except (AssertionError, ValueError, TypeError) as e:
            direct = [type(e).__name__, ""]
        via = None
        ok_chars = lambda s: all(ord(c) > 0x20 and c not in '<>"{}|^`\\' for c in s)  # noqa: E731
        import re as _re2
        if _re2.match(r"^[^:/?#]+:", b) and ok_chars(b) and ok_chars(r) and not r.endswith("#"):
            try:
                g = Graph()
                g.parse(data=f"@base <{b}> .\n<{r}> <a:p> <a:o> .", format="turtle")
                subs = [str.__str__(s_) for s_ in g.subjects()]
                via = ["ok", subs[0]] if len(subs) == 1 else ["err", ""]
            except Exception:  # noqa: BLE001
                via = ["err", ""]
        return {"direct": direct, "via": via}

    def coq_case(self, case):
        return "{| j_base := " + cstr(case["base"]) + "; j_ref := " + cstr(case["ref"]) + " |}"

    def coq_obs(self, obs):
        v = obs["via"]
        return ctuple(c_jres(obs["direct"]), copt(v, lambda x: copt(x[1] if x[0] == "ok" else None, cstr)))

    def nontrivial(self, case, obs):
        return obs["direct"][0] == "ok" and obs["direct"][1] != case["ref"]

    def features(self, case, obs):
        return {"direct_" + obs["direct"][0]: 1, "via_parse": int(obs["via"] is not None), "rfc_5_4_base": int(case["base"] == RFC_BASE)}

    def shrink(self, case):
        for k in ("base", "ref"):
            v = case[k]
            for i in range(len(v)):
                yield dict(case, **{k: v[:i] + v[i + 1:]})


# ====================================================================== tstring (proof tie)
class TString(Suite):
    """SinkParser.strconst (with uEscape/UEscape) against its Coq model and the strict Turtle string productions
    (coq/Grammar/TurtleStr.v), called directly and through a one-triple Turtle document"""
    name = "tstring"
    imports = "From RV Require Import Grammar.TurtleStr."
    case_ty = "scase"
    obs_ty = "sobs"
    model = "s_model"
    oeq = "sobs_eqb"
    spec = "s_spec_ok"
    corr = "notation3.SinkParser.strconst, uEscape, UEscape, _unicodeEscape, unicodeExpand, nodeOrLiteral (string branch)"
    quick_n = 400
    thorough_n = 8000
    VALUES = T_LEX + ["\\u0041", "aé\U0001F600", DQ3, SQ3, 'x""y' + "''z", "\x07\x0b", "\\", "tab\there", "\r"]
    TAILS = [" .", " .", " .", "@en .", "^^<a:d> .", " , 'x' .", "", ";", '"', "'"]

    def __init__(self):
        self._p = None

    def parser(self):
        if self._p is None:
            from rdflib.plugins.parsers.notation3 import RDFSink, SinkParser
            self._p = SinkParser(RDFSink(Graph()), baseURI="http://e/", turtle=True)
        return self._p

    def gen(self, rng, i):
        w = TurtleWriter(rng)
        lit = w.string(rng.choice(self.VALUES))
        long = len(lit) >= 6 and lit[:3] in (DQ3, SQ3)
        q = lit[0]
        text = lit[3:] if long else lit[1:]
        if rng.random() < 0.3:      # damage the spelling: drop / insert / replace one character
            k = rng.randrange(len(text) + 1)
            op = rng.choice(["drop", "ins", "rep"])
            ch = rng.choice(['"', "'", "\\", "\n", "u", "U", "0", "g", "x", "\r"])
            text = text[:k] + (ch if op != "drop" else "") + text[k + (0 if op == "ins" else 1):]
        return {"q": q, "long": long, "text": text + rng.choice(self.TAILS)}

    def sweep(self):
        alpha = ['"', "'", "\\", "n", "u", "0", "\n", "a"]
        for q in ('"', "'"):
            for long in (False, True):
                for n in range(0, 5):
                    for t in itertools.product(alpha, repeat=n):
                        yield {"q": q, "long": long, "text": "".join(t) + (q * 3 if long else q) + " ."}

    def run_impl(self, case):
        delim = case["q"] * 3 if case["long"] else case["q"]
        text = case["text"]
        try:
            j, v = self.parser().strconst(text, 0, delim)
            direct = [v, text[j:]]
        except Exception:  # noqa: BLE001
            direct = None
        via = None
        if text.endswith(" ."):
            try:
                g = Graph()
                g.parse(data="<a:s> <a:p> " + delim + text, format="turtle")
                objs = list(g.objects())
                plain = len(objs) == 1 and isinstance(objs[0], Literal) and objs[0].language is None and objs[0].datatype is None
                via = ["ok", str.__str__(objs[0])] if plain else ["err", ""]
            except Exception:  # noqa: BLE001
                via = ["err", ""]
        return {"direct": direct, "via": via}

    def coq_case(self, case):
        return "{| s_q := " + cN(ord(case["q"])) + "; s_long := " + cbool(case["long"]) + "; s_text := " + cstr(case["text"]) + " |}"

    def coq_obs(self, obs):
        d = copt(obs["direct"], lambda x: ctuple(cstr(x[0]), cstr(x[1])))
        v = obs["via"]
        return ctuple(d, copt(v, lambda x: copt(x[1] if x[0] == "ok" else None, cstr)))

    def nontrivial(self, case, obs):
        return obs["direct"] is not None and "\\" in case["text"]

    def features(self, case, obs):
        return {("long" if case["long"] else "short") + ("_dq" if case["q"] == '"' else "_sq"): 1, "accepted": int(obs["direct"] is not None),
                "via_parse": int(obs["via"] is not None)}


# ====================================================================== tterm (proof tie)
class TTerm(Suite):
    """the IRIREF branch of SinkParser.uri_ref2 (two-pass unicode unescaping, join, '#' patch) against its Coq model and the
    Turtle IRIREF production + RFC 3986 resolution (coq/Grammar/TurtleIri.v), called directly (through Graph.parse: suites spell, relref)"""
    name = "tterm"
    imports = "From RV Require Import Grammar.TurtleIri."
    case_ty = "icase"
    obs_ty = "iobs"
    model = "i_model"
    oeq = "pair_eqb"
    spec = "i_spec_ok"
    corr = "notation3.SinkParser.uri_ref2 ('<' branch), unicodeEscape8/unicodeEscape4.sub(unicodeExpand), join"
    quick_n = 400
    thorough_n = 6000
    IRIS = ["http://e/a", "x", "../y#f", "", "#", "a#", "?q", "//h/p", "urn:x:y", "http://e/é中", "/s/../t", "a:b\\c", "g:h",
            "http://e/u0041", "p/q;r?s#t", "\U0001F600", "z#"]
    TAILS = [" .", " <a:p> <a:o> .", "", ">", "<x>"]

    def gen(self, rng, i):
        iri = rng.choice(self.IRIS + RFC_REFS)
        esc = rng.choice([0.0, 0.0, 0.2, 0.6])
        body = "".join(uescape(rng, c) if (ord(c) <= 0x20 or c in '<>"{}|^`\\' or rng.random() < esc) else c for c in iri)
        text = body + ">" + rng.choice(self.TAILS)
        if rng.random() < 0.25:
            k = rng.randrange(len(text) + 1)
            op = rng.choice(["drop", "ins", "rep"])
            ch = rng.choice(["\\", "u", "U", "0", "g", ">", "#", ":", " ", "5", "C"])
            text = text[:k] + (ch if op != "drop" else "") + text[k + (0 if op == "ins" else 1):]
        base = rng.choice(BASES + [RFC_BASE, None, None, "mid:foo@example", "http://e/a#b#c"])
        return {"base": base, "text": text}

    def run_impl(self, case):
        from rdflib.plugins.parsers.notation3 import RDFSink, SinkParser
        text = "<" + case["text"]
        try:
            p = SinkParser(RDFSink(Graph()), baseURI=case["base"], turtle=True)
            if case["base"] is None:
                p._baseURI = None
            res = []
            j = p.uri_ref2(text, 0, res)
            return [str.__str__(res[0]), text[j:]] if j >= 0 and len(res) == 1 else None
        except Exception:  # noqa: BLE001
            return None

    def coq_case(self, case):
        return "{| i_base := " + copt(case["base"], cstr) + "; i_text := " + cstr(case["text"]) + " |}"

    def coq_obs(self, obs):
        return copt(obs, lambda x: ctuple(cstr(x[0]), cstr(x[1])))

    def nontrivial(self, case, obs):
        return obs is not None and "\\" in case["text"]

    def features(self, case, obs):
        return {"accepted": int(obs is not None), "with_base": int(case["base"] is not None), "escaped": int("\\" in case["text"])}


# ====================================================================== tpname (proof tie)
class TPname(Suite):
    """SinkParser.qname + the prefix lookup of uri_ref2 against the Coq model and the Turtle PNAME_NS / PNAME_LN productions
    (coq/Grammar/TurtlePname.v), called directly"""
    name = "tpname"
    imports = "From RV Require Import Grammar.TurtlePname."
    case_ty = "pcase"
    obs_ty = "pobs"
    model = "p_model"
    oeq = "pair_eqb"
    spec = "p_spec_ok"
    corr = "notation3.SinkParser.qname, uri_ref2 (prefixed-name branch: self._bindings[pfx] + ln)"
    quick_n = 400
    thorough_n = 6000
    PREFIXES = ["", "e", "E1", "e.x", "é", "a-b", "x1"]
    LOCALS2 = LOCALS + ["a.", "a..b", "a.b.c", "%41z", "x:y:", "1", "-a", "a~", ".a", "a_", "été", "a%2Fb", "a/b", "a#b", "_", "a."]
    TAILS = [" .", " ;", ",", ". ", ".", "..", "", " ", ")", "]", "\n", ".\n", ";", " a", "<", "\\"]

    def spell_local(self, rng, local):
        out = []
        n = len(local)
        i = 0
        while i < n:
            c = local[i]
            if c == "%" and i + 2 < n + 1 and all(h in "0123456789abcdefABCDEF" for h in local[i + 1:i + 3]) and len(local[i + 1:i + 3]) == 2:
                out.append(c)
            elif c.isalnum() or c in "_:":
                out.append("\\_" if c == "_" and rng.random() < 0.3 else c)
            elif c == ".":
                out.append("." if 0 < i < n - 1 and rng.random() < 0.7 else "\\.")
            elif c == "-":
                out.append("-" if i > 0 and rng.random() < 0.7 else "\\-")
            elif c in "~.-!$&'()*+,;=/?#@%_":
                out.append("\\" + c)
            else:
                out.append(c)
            i += 1
        return "".join(out)

    def gen(self, rng, i):
        while True:
            pfx = rng.choice(self.PREFIXES)
            text = pfx + ":" + self.spell_local(rng, rng.choice(self.LOCALS2)) + rng.choice(self.TAILS)
            if rng.random() < 0.25:
                k = rng.randrange(len(text) + 1)
                op = rng.choice(["drop", "ins", "rep"])
                ch = rng.choice(["\\", ".", "%", ":", "4", "g", " ", "-", "~", "é"])
                text = text[:k] + (ch if op != "drop" else "") + text[k + (0 if op == "ins" else 1):]
            if text[:1] not in ("<", "?", "_", "", "(", "[", '"', "'") and not text[:1].isspace():
                break
        binds = [[p, "http://ns/" + (p or "default") + "#"] for p in rng.sample(self.PREFIXES, rng.choice([3, 5, 7]))]
        return {"bind": binds, "text": text}

    def run_impl(self, case):
        from rdflib.plugins.parsers.notation3 import RDFSink, SinkParser
        text = case["text"]
        try:
            p = SinkParser(RDFSink(Graph()), baseURI="http://base/", turtle=True)
            p._bindings = {}
            for k, v in case["bind"]:
                p._bindings[k] = v           # what the @prefix / PREFIX directives do
            res = []
            j = p.uri_ref2(text, 0, res)
            if j >= 0 and len(res) == 1 and isinstance(res[0], URIRef):
                return [str.__str__(res[0]), text[j:]]
            return None
        except Exception:  # noqa: BLE001
            return None

    def coq_case(self, case):
        return "{| p_bind := " + clist(ctuple(cstr(k), cstr(v)) for k, v in case["bind"]) + "; p_text := " + cstr(case["text"]) + " |}"

    def coq_obs(self, obs):
        return copt(obs, lambda x: ctuple(cstr(x[0]), cstr(x[1])))

    def nontrivial(self, case, obs):
        return obs is not None

    def features(self, case, obs):
        return {"accepted": int(obs is not None), "escaped": int("\\" in case["text"]), "percent": int("%" in case["text"])}


SUITES = [NtOut(), LangTag(), NtRead(), Spell(), Sources(), XmlOut(), RelRef(), Join(), TString(), TTerm(), TPname()]
