"""C20 - a graph backed by a SPARQL endpoint: correspondence between
coq/Remote/Model.v and rdflib/plugins/stores/sparqlstore.py + sparqlconnector.py
(and the result parsers xmlresults.py / jsonresults.py on the way back).

A loopback SPARQL 1.1 protocol endpoint (127.0.0.1, ephemeral port, threaded
http.server inside this process) answers query and update requests with
rdflib's own engine over a local Memory-backed dataset.  The client under test
is SPARQLUpdateStore pointed at it; after every step the backing dataset is
read directly (not through SPARQL) and compared, together with the API answer,
with the model and the verified specification checker."""
from __future__ import annotations

import atexit
import json
import threading
import warnings
from http.server import BaseHTTPRequestHandler, ThreadingHTTPServer
from urllib.parse import parse_qs, urlparse
from xml.sax.saxutils import escape, quoteattr

from .core import Suite, cN, cbool, clist, copt, ctuple
from .terms import TERM_POOL, rdflib, tkey

warnings.filterwarnings("ignore", category=DeprecationWarning)
import rdflib.plugins.sparql as _sparql_pkg  # noqa: E402
from rdflib import BNode, ConjunctiveGraph, Dataset, Graph, Literal, URIRef, Variable  # noqa: E402
from rdflib.graph import DATASET_DEFAULT_GRAPH_ID  # noqa: E402
from rdflib.namespace import XSD  # noqa: E402
from rdflib.plugins.sparql.algebra import translateUpdate  # noqa: E402
from rdflib.plugins.sparql.parser import parseUpdate  # noqa: E402
from rdflib.plugins.sparql.sparql import Update  # noqa: E402
from rdflib.plugins.sparql.update import evalUpdate  # noqa: E402
from rdflib.plugins.stores.sparqlstore import SPARQLUpdateStore  # noqa: E402

TRUSTED = [
    "Coq 8.16.1 kernel and standard library",
    "hand-written models coq/Remote/Model.v (requests as algebra, edit queue), coq/Remote/Text.v (request AST, printer = exact "
    "wire text, denotation) and coq/Remote/NamedGraph.v (character-level BLOCK_FINDING_PATTERN scanner, _insert_named_graph loop, "
    "_inject_prefixes, VALUES injection) of SPARQLStore/SPARQLUpdateStore - tied to the source only by the three correspondence suites",
    "the loopback endpoint in harness/c20.py: Python http.server, rdflib's own SPARQL query/update engine and Memory store "
    "as the evaluator (C04/C08/C10 are the checks of that engine), its own result writers (SPARQL XML/JSON), CREATE GRAPH "
    "handled by the harness because rdflib's evalCreate always raises",
    "that the printed request text is READ by an endpoint as the AST it was printed from (no SPARQL parser is modelled: the "
    "printer is not proved injective; the remote suite observes the endpoint's dataset after rdflib's parser read the text)",
    "term escaping inside the text (n3(), kept symbolic: C07's theorems), the HTTP layer (urllib, GET/POST/POST_FORM), Python's re "
    "engine agreeing with the modelled reading of the four regexes, and the XML/JSON result parsers (C16_xml_result, C16_json_result, "
    "C16_xml_term, C16_json_term are the theorems about that code): exercised end to end, not modelled here",
    "structural term numbering harness/terms.py + the extra literal pool in harness/c20.py; the greedy tokenizer that turns the "
    "received text into characters + symbolic terms",
]
ASSUMPTIONS = [
    "context=None and the graph <urn:x-rdflib:default> both mean the endpoint's default graph (documented behaviour of the store)",
    "blank nodes are out of scope (unsupported by design: _node_to_sparql raises)",
    "the endpoint executes one update request atomically with respect to parse errors and keeps empty named graphs "
    "(as rdflib's Memory store does); CREATE GRAPH of an existing graph is accepted silently",
    "a transaction (the queued edits sent as one request) that contains a statement the endpoint rejects is lost as a "
    "whole: the call that sent it raises, the endpoint is unchanged, the queue is empty afterwards (specified so, and "
    "what the repaired commit() does)",
    "_edits = None and _edits = [] are identified in the model (they are indistinguishable through the API)",
    "context_aware=True and sparql11=True (the defaults); LIMIT/OFFSET/ORDERBY attributes on the context and Variable nodes in "
    "patterns are not exercised; returnFormat xml and json only (csv/tsv answers do not carry term types)",
    "user-supplied update texts in the rewrite suite are arbitrary character strings (mostly not SPARQL): the rewriting functions are "
    "total string functions and are compared as such; at most one prefix binding (the order of several is a Python set order)",
    "falsy_ids of Model.v (only used by the lemma about the pre-fix contexts()) is the set of falsy pool terms (asserted at import)",
]
RULE = ("histories of 2-12 store operations over a vocabulary of 4 subjects x 2 predicates x ~38 objects (falsy literals, long doubles / decimals / float / big integers "
        "and their shorthand look-alikes, non-ASCII literals and IRIs, quotes, "
        "newline, CR, tab, backslash, non-ASCII, language tags, datatypes, braces/WHERE inside strings) and graphs {default, "
        "urn:g:1, urn:g:2, urn:g:5}; x method GET/POST/POST_FORM x result format XML/JSON x autocommit x dirty_reads x endpoint "
        "flavour (rdflib Dataset / generic) x API route (store, Graph, Dataset) x constructor kwargs (none / params= / headers= / "
        "both) x Content-Type of the answers (with / without charset parameter, other case, quoted); reads hop between graphs, 8% of the slots are add/remove/add (or remove/add/remove) runs on one triple, updates "
        "the endpoint rejects occur in 30% of the histories; distinct by full case content, non-trivial = at least one write "
        "and one read.  wire suite: the same histories restricted to the operations whose text the store composes; rewrite suite: "
        "user texts from a fragment grammar (nested blocks, short and long strings with braces/quotes/escapes, IRIs, comments, "
        "unterminated strings, unbalanced braces, WHERE in several spellings, non-ASCII blanks) x prefix x graph x initBindings")

# ---------------------------------------------------------------- terms
EXTRA = [
    Literal('say "hi"'),                       # 15
    Literal("l1\nl2"),                         # 16
    Literal("é☃ \U0001F600"),        # 17
    Literal("x", lang="en-GB"),                # 18
    Literal("back\\slash'q\\n"),               # 19  (no TAB: rdflib's own SPARQL parser, i.e. the endpoint, expands tabs)
    Literal("2.50", datatype=XSD.decimal),     # 20
    Literal("a\rb"),                           # 21
    Literal("a } WHERE { b"),                  # 22
    Literal("<&>]]> #c", datatype=URIRef("http://e/dt#x")),  # 23
    URIRef("http://e/ü?x=1&y=%20#f"),     # 24
    Literal(" lead trail "),                   # 25
    Literal('"""'),                            # 26
    Literal("c\\nd"),                           # 27  c, backslash, n, d
    Literal("c\nd"),                            # 28  c, newline, d
    # numerics whose Turtle/SPARQL shorthand would be a DIFFERENT term: the request must carry the full typed form
    Literal(3.141592653589793),                # 29  xsd:double, 16 significant digits
    Literal(0.30000000000000004),              # 30  xsd:double, 17 significant digits
    Literal(1234567.891),                      # 31  xsd:double, more than 7 digits
    Literal("1.5E10", datatype=XSD.double),    # 32  exponent form
    Literal("-1.0E-7", datatype=XSD.double),   # 33  negative, negative exponent
    Literal("-0.0", datatype=XSD.double),      # 34  negative zero (falsy)
    Literal("7", datatype=XSD.decimal),        # 35  decimal without fraction
    Literal("7.0", datatype=XSD.decimal),      # 36  ... and the term the shorthand would make of it
    Literal("0.10", datatype=XSD.decimal),     # 37  trailing zero
    Literal("1.5", datatype=XSD.float),        # 38  xsd:float
    Literal(123456789012345678901234567890),   # 39  large integer
    Literal(-5),                               # 40  negative integer
    Literal("3.141593", datatype=XSD.double),  # 41  what '%e' formatting would make of 29
    URIRef("http://e/caf\u00e9"),               # 42  non-ASCII IRI (Latin-1 range: mojibake-prone)
    Literal("na\u00efve caf\u00e9 \u00a9"),       # 43  non-ASCII literal, Latin-1 range
    Literal(True),                             # 44
]
POOL = {i + 1: t for i, t in enumerate(TERM_POOL) if not isinstance(t, BNode)}
POOL.update({15 + i: t for i, t in enumerate(EXTRA)})
POOL_ID = {tkey(t): i for i, t in POOL.items()}
assert len(POOL_ID) == len(POOL)
FALSY = {i for i, t in POOL.items() if not bool(t)}
assert {5, 6, 7, 14} <= FALSY



SUBJ = [1, 2, 12, 42]
NONASCII = [17, 24, 42, 43]
NUMERIC = [29, 30, 31, 32, 33, 34, 35, 36, 37, 38, 39, 40, 41]
PRED = [3, 4]
OBJ = [i for i in POOL if i not in (3, 4)]

GENERIC_DEFAULT = URIRef("urn:x-verif:ep-default")
GNAMES = {1: URIRef("urn:g:1"), 2: URIRef("urn:g:2"), 5: URIRef("urn:g:5"), 6: URIRef("urn:g:\u00fc\u00e96")}


def term(i):
    return POOL[i]


def term_id(t):
    return POOL_ID.get(tkey(t), 999)


def _piece_table():
    tab = [(t.n3(), ["T", i]) for i, t in POOL.items()] + [(n.n3(), ["G", g]) for g, n in GNAMES.items()]
    tab.sort(key=lambda x: -len(x[0]))
    return tab


def text_pieces(txt):
    """request text -> pieces: the n3 form of a pool term / graph name is one symbolic piece (longest match first),
    everything else stays characters; adjacent characters are one run"""
    out, run, i = [], [], 0
    tab = _PIECES
    while i < len(txt):
        for n3, tok in tab:
            if txt.startswith(n3, i):
                if run:
                    out.append(["S", run])
                    run = []
                out.append(tok)
                i += len(n3)
                break
        else:
            run.append(ord(txt[i]))
            i += 1
    if run:
        out.append(["S", run])
    return out


_PIECES = _piece_table()


def ident(g):
    """client-side identifier of graph g (0 = rdflib's default graph IRI)"""
    return DATASET_DEFAULT_GRAPH_ID if g == 0 else GNAMES[g]


# ---------------------------------------------------------------- the endpoint
# how the endpoint labels its (always UTF-8) answers: the charset parameter is optional - JSON is UTF-8 by
# definition, XML declares its own encoding - and parameter names/values are case-insensitive
CT_SUFFIX = ["; charset=utf-8", "", ";Charset=UTF-8", "; charset=\"utf-8\""]


class Endpoint:
    """SPARQL 1.1 protocol over rdflib's engine; one backing dataset at a time."""

    def __init__(self):
        self.backend = None
        self.ct = 0
        self.log = []  # every request as received: [kind, default-graph-uri, text]
        self.alias = True
        self.requests = 0
        self.errors = []
        self.server = ThreadingHTTPServer(("127.0.0.1", 0), _Handler)
        self.server.daemon_threads = True
        self.server.endpoint = self
        self.thread = threading.Thread(target=self.server.serve_forever, kwargs={"poll_interval": 0.05}, daemon=True)
        self.thread.start()
        self.url = "http://127.0.0.1:%d/sparql" % self.server.server_address[1]
        atexit.register(self.close)

    def close(self):
        try:
            self.server.shutdown()
            self.server.server_close()
        except Exception:  # noqa: BLE001
            pass

    # -- backing dataset
    def reset(self, alias, init, names):
        self.alias = alias
        if alias:
            self.backend = Dataset()
        else:
            self.backend = ConjunctiveGraph(identifier=GENERIC_DEFAULT)
        st = self.backend.store
        for q in init:
            Graph(st, self.backend_ident(q[3])).add(tuple(term(x) for x in q[:3]))
        for g in names:
            st.add_graph(Graph(st, self.backend_ident(g)))
        self.errors = []

    def backend_ident(self, g):
        if g == 0:
            return self.backend.default_context.identifier
        if g == 9:
            return DATASET_DEFAULT_GRAPH_ID
        return GNAMES[g]

    def backend_gid(self, identifier):
        k = tkey(identifier)
        if k == tkey(self.backend.default_context.identifier):
            return 0
        if k == tkey(DATASET_DEFAULT_GRAPH_ID):
            return 9
        for g, n in GNAMES.items():
            if tkey(n) == k:
                return g
        return 998

    def content(self):
        """the dataset read directly from the store, not through SPARQL"""
        st = self.backend.store
        quads = []
        for (s, p, o), ctxs in st.triples((None, None, None), None):
            for c in ctxs:
                quads.append([term_id(s), term_id(p), term_id(o), self.backend_gid(c.identifier)])
        names = sorted(g for g in (self.backend_gid(c.identifier) for c in st.contexts()) if g != 0)
        return sorted(quads), names

    # -- evaluation
    def run_query(self, text, default_graph):
        old = _sparql_pkg.SPARQL_DEFAULT_GRAPH_UNION
        _sparql_pkg.SPARQL_DEFAULT_GRAPH_UNION = False
        try:
            target = self.backend if default_graph is None else Graph(self.backend.store, URIRef(default_graph))
            res = target.query(text)
            if res.type in ("CONSTRUCT", "DESCRIBE"):
                return res.type, list(res.graph)
            if res.type == "ASK":
                return "ASK", bool(res.askAnswer)
            return "SELECT", ([str(v) for v in res.vars], [dict((str(k), v) for k, v in b.items()) for b in res.bindings])
        finally:
            _sparql_pkg.SPARQL_DEFAULT_GRAPH_UNION = old

    def run_update(self, text):
        old = _sparql_pkg.SPARQL_DEFAULT_GRAPH_UNION
        _sparql_pkg.SPARQL_DEFAULT_GRAPH_UNION = False
        try:
            upd = translateUpdate(parseUpdate(text))  # the whole request must parse before anything is executed
            for u in upd.algebra:
                if u.name == "Create":
                    st = self.backend.store
                    st.add_graph(Graph(st, URIRef(u.graphiri)))
                else:
                    evalUpdate(self.backend, Update(u.prologue or upd.prologue, [u]))
        finally:
            _sparql_pkg.SPARQL_DEFAULT_GRAPH_UNION = old


def _xml_text(s):
    return escape(str.__str__(s), {"\r": "&#13;"})


def _xml_term(t):
    if isinstance(t, URIRef):
        return "<uri>%s</uri>" % _xml_text(t)
    if isinstance(t, BNode):
        return "<bnode>%s</bnode>" % _xml_text(t)
    attrs = ""
    if t.language is not None:
        attrs = " xml:lang=%s" % quoteattr(str.__str__(t.language))
    elif t.datatype is not None:
        attrs = " datatype=%s" % quoteattr(str.__str__(t.datatype))
    return "<literal%s>%s</literal>" % (attrs, _xml_text(t))


def results_xml(kind, payload):
    out = ['<?xml version="1.0" encoding="utf-8"?>\n<sparql xmlns="http://www.w3.org/2005/sparql-results#">']
    if kind == "ASK":
        out.append("<head/><boolean>%s</boolean>" % ("true" if payload else "false"))
    else:
        vs, rows = payload
        out.append("<head>%s</head><results>" % "".join("<variable name=%s/>" % quoteattr(v) for v in vs))
        for row in rows:
            out.append("<result>%s</result>" % "".join(
                "<binding name=%s>%s</binding>" % (quoteattr(k), _xml_term(v)) for k, v in row.items()))
        out.append("</results>")
    out.append("</sparql>")
    return "".join(out).encode("utf-8")


def _json_term(t):
    if isinstance(t, URIRef):
        return {"type": "uri", "value": str.__str__(t)}
    if isinstance(t, BNode):
        return {"type": "bnode", "value": str.__str__(t)}
    d = {"type": "literal", "value": str.__str__(t)}
    if t.language is not None:
        d["xml:lang"] = str.__str__(t.language)
    elif t.datatype is not None:
        d["datatype"] = str.__str__(t.datatype)
    return d


def results_json(kind, payload):
    if kind == "ASK":
        doc = {"head": {}, "boolean": bool(payload)}
    else:
        vs, rows = payload
        doc = {"head": {"vars": vs}, "results": {"bindings": [{k: _json_term(v) for k, v in r.items()} for r in rows]}}
    return json.dumps(doc).encode("utf-8")


def graph_body(triples, want_rdfxml):
    g = Graph()
    for t in triples:
        g.add(t)
    if want_rdfxml:
        body = g.serialize(format="xml", encoding="utf-8")
        back = Graph()
        try:
            back.parse(data=body, format="xml")
            same = {tuple(map(tkey, t)) for t in back} == {tuple(map(tkey, t)) for t in g}
        except Exception:  # noqa: BLE001
            same = False
        if same:  # the endpoint only sends RDF/XML that says what it means
            return "application/rdf+xml", body
    return "application/n-triples", g.serialize(format="nt", encoding="utf-8")


class _Handler(BaseHTTPRequestHandler):
    protocol_version = "HTTP/1.0"
    timeout = 5

    def log_message(self, *a):  # noqa: D102
        pass

    def _reply(self, code, ctype, body):
        self.send_response(code)
        self.send_header("Content-Type", ctype)
        self.send_header("Content-Length", str(len(body)))
        self.end_headers()
        self.wfile.write(body)

    def do_GET(self):  # noqa: N802
        qs = parse_qs(urlparse(self.path).query, keep_blank_values=True)
        self._query(qs.get("query", [None])[0], qs)

    def do_POST(self):  # noqa: N802
        qs = parse_qs(urlparse(self.path).query, keep_blank_values=True)
        body = self.rfile.read(int(self.headers.get("Content-Length") or 0))
        ct = (self.headers.get("Content-Type") or "").split(";")[0].strip().lower()
        if ct == "application/sparql-query":
            self._query(body.decode("utf-8"), qs)
        elif ct == "application/sparql-update":
            self._update(body.decode("utf-8"), qs)
        else:
            form = parse_qs(body.decode("utf-8"), keep_blank_values=True)
            for k, v in form.items():
                qs.setdefault(k, v)
            if "update" in form:
                self._update(form["update"][0], qs)
            else:
                self._query(form.get("query", [None])[0], qs)

    def _query(self, text, qs):
        ep = self.server.endpoint
        ep.requests += 1
        ep.log.append(["Q", (qs.get("default-graph-uri") or [None])[0], text])
        try:
            if text is None:
                raise ValueError("no query")
            dg = qs.get("default-graph-uri")
            kind, payload = ep.run_query(text, dg[0] if dg else None)
            accept = self.headers.get("Accept") or ""
            if kind in ("CONSTRUCT", "DESCRIBE"):
                ctype, body = graph_body(payload, "application/rdf+xml" in accept)
            elif "sparql-results+json" in accept and "sparql-results+xml" not in accept:
                ctype, body = "application/sparql-results+json", results_json(kind, payload)
            else:
                ctype, body = "application/sparql-results+xml", results_xml(kind, payload)
            self._reply(200, ctype + CT_SUFFIX[ep.ct], body)
        except Exception as e:  # noqa: BLE001
            ep.errors.append(("query", text, repr(e)[:300]))
            self._reply(400, "text/plain", repr(e).encode("utf-8"))

    def _update(self, text, qs):
        ep = self.server.endpoint
        ep.requests += 1
        ep.log.append(["U", None, text])
        try:
            ep.run_update(text)
            self._reply(200, "text/plain", b"ok")
        except Exception as e:  # noqa: BLE001
            ep.errors.append(("update", text, repr(e)[:300]))
            self._reply(400, "text/plain", repr(e).encode("utf-8"))


_EP = None


def endpoint():
    global _EP
    if _EP is None:
        _EP = Endpoint()
    return _EP


# ---------------------------------------------------------------- request texts (conformance part)
def n3(i):
    return term(i).n3()


def pat_text(p, names=("?s", "?p", "?o")):
    return " ".join(names[k] if p[k] is None else n3(p[k]) for k in range(3))


BAD_UPDATE = "INSERT DATA { <http://e/a> <http://e/p> }"


# ---------------------------------------------------------------- Coq text
def c_triple(t):
    return ctuple(*(cN(x) for x in t))


def c_pat(p):
    return ctuple(*(copt(x, cN) for x in p))


def c_quad(q):
    return ctuple(c_triple(q[:3]), cN(q[3]))


def c_oc(c):
    return copt(c, cN)


class C20(Suite):
    name = "remote"
    # the second line keeps coqc from wrapping result pairs across lines (core's reader expects "(i%N, k%N)" unbroken)
    imports = "From RV Require Import Remote.Model.\nSet Printing Width 100000."
    case_ty = "case"
    obs_ty = "list step_obs"
    corr = ("SPARQLStore.triples/__len__/contexts/query/_is_contextual, SPARQLUpdateStore.add/addN/remove/update/add_graph/"
            "remove_graph/commit/rollback/_transaction, SPARQLConnector.query/update")
    quick_n = 350
    thorough_n = 10000
    timeout_s = 20.0

    # case = {"alias": bool, "method": "GET"|"POST"|"POST_FORM", "fmt": "xml"|"json", "auto": bool, "dirty": bool,
    #         "init": [[s,p,o,g]...], "names": [g...], "ops": [op...]}
    # op = ["add", [s,p,o], c|None, via] | ["addN", [[s,p,o,g]...], via] | ["rem", [s|None..], c|None, via]
    #    | ["addg", g, via] | ["remg", g, via] | ["upd", kind, triple-or-pattern, c|None, via, variant] | ["bad"]
    #    | ["commit", via] | ["rollback", via] | ["auto", b] | ["dirty", b]
    #    | ["triples", pat, c|None, via] | ["len", c|None, via] | ["contexts", triple|None, via] | ["query", k, pat, c|None, via]

    # ------------------------------------------------------------ generation
    def gen(self, rng, i):
        alias = rng.random() < 0.6
        method = rng.choice(["GET", "POST", "POST_FORM"])
        fmt = rng.choice(["xml", "json"])
        auto = rng.random() < 0.4
        dirty = rng.random() < 0.35
        subs = rng.sample(SUBJ, rng.choice([1, 2]))
        preds = rng.sample(PRED, rng.choice([1, 2]))
        objs = rng.sample(OBJ, rng.choice([2, 3, 4]))
        if rng.random() < 0.5:
            objs[0] = rng.choice(sorted(FALSY))
        if rng.random() < 0.6:  # a non-ASCII term comes back in most histories
            objs[-1] = rng.choice(NONASCII)
        if rng.random() < 0.5:  # numerics with a tempting shorthand, together with their look-alikes
            objs.append(rng.choice(NUMERIC))
            if rng.random() < 0.5:
                objs.append(rng.choice(NUMERIC))
        pool = [[s, p, o] for s in subs for p in preds for o in objs]
        rng.shuffle(pool)
        pool = pool[: rng.choice([2, 3, 4, 6])]
        gids = rng.sample([0, 0, 1, 2, 5, 6], rng.choice([2, 3]))
        gids = sorted(set(gids)) if rng.random() < 0.5 else list(dict.fromkeys(gids))
        named = [g for g in gids if g != 0] or [1]
        init = []
        for t in pool:
            for g in sorted(set(gids)):
                if rng.random() < 0.3:
                    init.append(t + [g])
        init = [list(q) for q in dict.fromkeys(tuple(q) for q in init)]
        names = sorted({q[3] for q in init if q[3] != 0})
        if rng.random() < 0.2:
            names = sorted(set(names) | {rng.choice(named)})
        allow_bad = rng.random() < 0.3

        def ctx(allow_none=True):
            r = rng.random()
            if allow_none and r < 0.2:
                return None
            return rng.choice(gids)

        def pat(t):
            if rng.random() < 0.25:
                return list(t)
            return [x if rng.random() < 0.5 else None for x in t]

        def via(c, kinds=("store", "graph", "dataset")):
            ks = [k for k in kinds if not (k in ("graph", "dataset") and c is None)]
            return rng.choice(ks)

        ops = []
        last_c = None
        n = rng.choice([2, 3, 4, 5, 6, 8, 10, 12])
        for _ in range(n):
            r = rng.random()
            t = rng.choice(pool)
            if rng.random() < 0.08:
                # the same write twice with the opposing write in between (the queue must replay all three in order)
                c = ctx()
                a = ["add", t, c, via(c)]
                b = ["rem", list(t), c, via(c)]
                ops.extend([list(x) for x in rng.choice([[a, b, a], [b, a, b], [a, b, a, b]])])
                last_c = 0 if c is None else c
                continue
            if r < 0.20:
                c = ctx()
                ops.append(["add", t, c, via(c)])
            elif r < 0.28:
                k = rng.choice([0, 1, 2, 3, 4])
                qs = []
                for _ in range(k):
                    qs.append(rng.choice(pool) + [rng.choice(gids)])
                ops.append(["addN", qs, rng.choice(["store", "dataset"])])
            elif r < 0.40:
                c = ctx()
                ops.append(["rem", pat(t), c, via(c)])
            elif r < 0.44:
                g = rng.choice(gids + named)
                ops.append(["addg", g, rng.choice(["store", "dataset"])])
            elif r < 0.49:
                g = rng.choice(gids)
                ops.append(["remg", g, rng.choice(["store", "dataset"])])
            elif r < 0.57:
                c = ctx()
                kind = rng.choice(["ins", "deld", "delw", "delb"])
                arg = pat(t) if kind in ("delw", "delb") else t
                ops.append(["upd", kind, arg, c, via(c, ("store", "graph")), rng.choice([0, 1])])
            elif r < 0.59 and allow_bad:
                ops.append(["bad"])
            elif r < 0.65:
                ops.append(["commit", rng.choice(["store", "graph"])])
            elif r < 0.70:
                ops.append(["rollback", rng.choice(["store", "graph"])])
            elif r < 0.72:
                ops.append(["auto", rng.random() < 0.5])
            elif r < 0.74:
                ops.append(["dirty", rng.random() < 0.5])
            elif r < 0.86:
                c = ctx()
                # not via Dataset.triples(quad): ConjunctiveGraph._graph is applied twice there and re-uploads the graph
                ops.append(["triples", pat(t), c, via(c, ("store", "graph"))])
            elif r < 0.90:
                c = ctx()
                ops.append(["len", c, via(c, ("store", "graph"))])
            elif r < 0.95:
                if rng.random() < 0.4:
                    tr = None
                else:
                    tr = list(t)
                ops.append(["contexts", tr, rng.choice(["store", "dataset"]) if alias else "store"])
            else:
                c = ctx()
                ops.append(["query", rng.choice([0, 1, 2]), pat(t), c, via(c, ("store", "graph"))])
        if rng.random() < 0.7:
            ops.append(["triples", [None, None, None], last_c if last_c is not None else rng.choice(gids), "store"])
        # extra request parameters / headers given at construction (SPARQLConnector kwargs), or none
        kw = rng.choice([0, 0, 1, 2, 3])
        ct = rng.choice([0, 1, 1, 2, 3])  # Content-Type of the endpoint's answers: with / without charset parameter
        return {"alias": alias, "method": method, "fmt": fmt, "auto": auto, "dirty": dirty, "kw": kw, "ct": ct,
                "init": init, "names": names, "ops": ops}

    # ------------------------------------------------------------ implementation
    def run_impl(self, case):
        ep = endpoint()
        ep.reset(case["alias"], case["init"], case["names"])
        ep.ct = case.get("ct", 0)
        ep.log = []
        kw = {}
        if case.get("kw", 0) & 1:
            kw["params"] = {"x-tenant": "t 1&2"}
        if case.get("kw", 0) & 2:
            kw["headers"] = {"X-Probe": "1"}
        st = SPARQLUpdateStore(ep.url, ep.url, returnFormat=case["fmt"], method=case["method"],
                               autocommit=case["auto"], dirty_reads=case["dirty"], **kw)
        dsc = Dataset(store=st)

        def ctx_obj(c):
            return None if c is None else Graph(st, ident(c))

        def tri(t):
            return tuple(None if x is None else term(x) for x in t)

        def ids(ts):
            return sorted([term_id(a), term_id(b), term_id(c)] for a, b, c in ts)

        obs = []
        for op in case["ops"]:
            kind = op[0]
            ans = ["none"]
            try:
                if kind == "add":
                    _, t, c, via = op
                    if via == "graph":
                        Graph(st, ident(c)).add(tri(t))
                    elif via == "dataset":
                        dsc.add(tri(t) + (ident(c),))
                    else:
                        st.add(tri(t), ctx_obj(c))
                elif kind == "addN":
                    _, qs, via = op
                    if via == "dataset":
                        dsc.addN(tri(q[:3]) + (ident(q[3]),) for q in qs)
                    else:
                        st.addN(tri(q[:3]) + (Graph(st, ident(q[3])),) for q in qs)
                elif kind == "rem":
                    _, p, c, via = op
                    if via == "graph":
                        Graph(st, ident(c)).remove(tri(p))
                    elif via == "dataset":
                        dsc.remove(tri(p) + (ident(c),))
                    else:
                        st.remove(tri(p), ctx_obj(c))
                elif kind == "addg":
                    _, g, via = op
                    if via == "dataset":
                        dsc.add_graph(ident(g))
                    else:
                        st.add_graph(Graph(st, ident(g)))
                elif kind == "remg":
                    _, g, via = op
                    if via == "dataset":
                        dsc.remove_graph(ident(g))
                    else:
                        st.remove_graph(Graph(st, ident(g)))
                elif kind == "upd":
                    _, uk, arg, c, via, variant = op
                    self._update(st, uk, arg, c, via, variant)
                elif kind == "bad":
                    st.update(BAD_UPDATE)
                elif kind == "commit":
                    (Graph(st, ident(1)) if op[1] == "graph" else st).commit()
                elif kind == "rollback":
                    (Graph(st, ident(1)) if op[1] == "graph" else st).rollback()
                elif kind == "auto":
                    st.autocommit = bool(op[1])
                elif kind == "dirty":
                    st.dirty_reads = bool(op[1])
                elif kind == "triples":
                    _, p, c, via = op
                    if via == "graph":
                        g = Graph(st, ident(c))
                        if None not in p:
                            ts = [tri(p)] if tri(p) in g else []
                        else:
                            ts = list(g.triples(tri(p)))
                    elif via == "dataset":
                        ts = list(dsc.triples(tri(p) + (ident(c),)))
                    else:
                        ts = [t for t, _ in st.triples(tri(p), ctx_obj(c))]
                    ans = ["triples", ids(ts)]
                elif kind == "len":
                    _, c, via = op
                    n = len(Graph(st, ident(c))) if via == "graph" else st.__len__(ctx_obj(c))
                    ans = ["num", int(n)]
                elif kind == "contexts":
                    _, t, via = op
                    if via == "dataset":
                        got = [g.identifier for g in dsc.contexts(None if t is None else tri(t))]
                        got = [g for g in got if tkey(g) != tkey(DATASET_DEFAULT_GRAPH_ID)]
                    else:
                        got = list(st.contexts(None if t is None else tri(t)))
                    ans = ["names", sorted(self._client_gid(case["alias"], g) for g in got)]
                elif kind == "query":
                    _, k, p, c, via = op
                    ans = ["triples", ids(self._query(st, k, p, c, via))]
            except Exception:  # noqa: BLE001
                ans = ["raised"]
            quads, names = ep.content()
            obs.append([quads, names, ans, [[k, None if dg is None else self._client_gid(case["alias"], URIRef(dg)),
                                             text_pieces(txt)] for k, dg, txt in ep.log]])
            ep.log = []
        return obs

    @staticmethod
    def _client_gid(alias, identifier):
        k = tkey(identifier)
        if k == tkey(DATASET_DEFAULT_GRAPH_ID):
            return 0 if alias else 9
        for g, n in GNAMES.items():
            if tkey(n) == k:
                return g
        return 998

    @staticmethod
    def _update(st, uk, arg, c, via, variant):
        """user-supplied update texts; all variants of one kind denote the same update"""
        kw = {}
        if uk == "ins":
            text = "INSERT DATA { %s }" % pat_text(arg) if variant != 1 else "INSERT DATA {\n  %s .\n}" % pat_text(arg)
        elif uk == "deld":
            text = "DELETE DATA { %s }" % pat_text(arg) if variant != 1 else "delete data{%s}" % pat_text(arg)
        elif uk == "delw":
            if variant == 0:
                text = "DELETE WHERE { %s }" % pat_text(arg)
            else:
                text = "DELETE { %s } WHERE { %s }" % (pat_text(arg), pat_text(arg))
        else:  # delb: bound positions supplied as initBindings (VALUES injected after "WHERE {")
            text = "DELETE { ?s ?p ?o } WHERE { ?s ?p ?o }" if variant == 0 else "DELETE { ?s ?p ?o }\nwhere  { ?s ?p ?o . }"
            kw["initBindings"] = {v: term(x) for v, x in zip("spo", arg) if x is not None}
        if via == "graph":
            Graph(st, ident(c)).update(text, **kw)
        else:
            st.update(text, queryGraph=None if c is None else ident(c), **kw)

    @staticmethod
    def _query(st, k, p, c, via):
        qg = None if c is None else ident(c)
        bound = {v: term(x) for v, x in zip("spo", p) if x is not None}
        if k == 0:  # bound positions as initBindings (VALUES appended)
            text = "SELECT ?s ?p ?o WHERE { ?s ?p ?o }"
            if via == "graph":
                res = Graph(st, ident(c)).query(text, initBindings=bound)
            else:
                res = st.query(text, initBindings=bound, queryGraph=qg)
            return [(row.s, row.p, row.o) for row in res]
        if k == 1:  # CONSTRUCT, constants inline; the answer is a graph document
            text = "CONSTRUCT { %s } WHERE { %s }" % (pat_text(p), pat_text(p))
            res = Graph(st, ident(c)).query(text) if via == "graph" else st.query(text, queryGraph=qg)
            return list(res.graph)
        # k == 2: prefixed names through initNs (PREFIX lines injected), constants inline
        def pn(x):
            t = term(x)
            if isinstance(t, URIRef) and str(t).startswith("http://e/") and str(t)[9:].isalnum():
                return "ex:" + str(t)[9:]
            return t.n3()
        names = ("?s", "?p", "?o")
        body = " ".join(names[i] if p[i] is None else pn(p[i]) for i in range(3))
        if None not in p:  # nothing to select: ASK through query()
            text = "ASK { %s }" % body
            res = st.query(text, initNs={"ex": URIRef("http://e/")}, queryGraph=qg) if via != "graph" else \
                Graph(st, ident(c)).query(text, initNs={"ex": URIRef("http://e/")})
            return [tuple(term(x) for x in p)] if res.askAnswer else []
        text = "SELECT * WHERE { %s }" % body
        res = st.query(text, initNs={"ex": URIRef("http://e/")}, queryGraph=qg) if via != "graph" else \
            Graph(st, ident(c)).query(text, initNs={"ex": URIRef("http://e/")})
        out = []
        for row in res:
            d = row.asdict()
            out.append(tuple(d[v] if p[i] is None else term(p[i]) for i, v in enumerate("spo")))
        return out

    def on_timeout(self, case):
        return [[[], [], ["raised"]]]

    # ------------------------------------------------------------ Coq text
    def coq_case(self, case):
        ops = []
        for op in case["ops"]:
            k = op[0]
            if k == "add":
                ops.append(f"OAdd {c_triple(op[1])} {c_oc(op[2])}")
            elif k == "addN":
                ops.append(f"OAddN {clist(c_quad(q) for q in op[1])}")
            elif k == "rem":
                ops.append(f"ORemove {c_pat(op[1])} {c_oc(op[2])}")
            elif k == "addg":
                ops.append(f"OAddGraph {cN(op[1])}")
            elif k == "remg":
                ops.append(f"ORemoveGraph {cN(op[1])}")
            elif k == "upd":
                if op[1] in ("ins", "deld"):
                    u = ("UoInsertData " if op[1] == "ins" else "UoDeleteData ") + c_triple(op[2])
                else:
                    u = ("UoDeleteWhere " if op[1] == "delw" else "UoDeleteWhereB ") + c_pat(op[2])
                ops.append(f"OUpdate ({u}) {c_oc(op[3])}")
            elif k == "bad":
                ops.append("OBadUpdate")
            elif k == "commit":
                ops.append("OCommit")
            elif k == "rollback":
                ops.append("ORollback")
            elif k == "auto":
                ops.append(f"OSetAuto {cbool(op[1])}")
            elif k == "dirty":
                ops.append(f"OSetDirty {cbool(op[1])}")
            elif k == "triples":
                ops.append(f"OTriples {c_pat(op[1])} {c_oc(op[2])}")
            elif k == "len":
                ops.append(f"OLen {c_oc(op[1])}")
            elif k == "contexts":
                ops.append(f"OContexts {copt(op[1], c_triple)}")
            elif k == "query":
                ops.append(f"OQuery {cN(op[1])} {c_pat(op[2])} {c_oc(op[3])}")
            else:
                raise ValueError(k)
        return ("{| c_alias := %s; c_auto := %s; c_dirty := %s; c_init := %s; c_names := %s; c_ops := %s |}" % (
            cbool(case["alias"]), cbool(case["auto"]), cbool(case["dirty"]),
            clist(c_quad(q) for q in case["init"]), clist(cN(g) for g in case["names"]), clist(ops)))

    def coq_obs(self, obs):
        out = []
        for quads, names, ans in (s[:3] for s in obs):
            if ans[0] == "none":
                a = "ANone"
            elif ans[0] == "raised":
                a = "ARaised"
            elif ans[0] == "triples":
                a = "ATriples " + clist(c_triple(t) for t in ans[1])
            elif ans[0] == "num":
                a = "ANum " + cN(ans[1])
            else:
                a = "ANames " + clist(cN(g) for g in ans[1])
            out.append("({| quads := %s; names := %s |}, %s)" % (
                clist(c_quad(q) for q in quads), clist(cN(g) for g in names), a))
        return clist(out)

    # ------------------------------------------------------------ bookkeeping
    WRITES = ("add", "addN", "rem", "addg", "remg", "upd")
    READS = ("triples", "len", "contexts", "query")

    def nontrivial(self, case, obs):
        kinds = {o[0] for o in case["ops"]}
        return bool(kinds & set(self.WRITES)) and bool(kinds & set(self.READS))

    def features(self, case, obs):
        f = {"ops_total": len(case["ops"]), "method_" + case["method"]: 1, "fmt_" + case["fmt"]: 1,
             "endpoint_" + ("dataset" if case["alias"] else "generic"): 1,
             "autocommit_" + str(case["auto"]).lower(): 1, "dirty_reads_" + str(case["dirty"]).lower(): 1,
             "ctor_kwargs_%d" % case.get("kw", 0): 1, "content_type_variant_%d" % case.get("ct", 0): 1}
        for o in case["ops"]:
            k = o[0]
            f["op_" + k] = f.get("op_" + k, 0) + 1
            if k in ("triples", "rem", "query"):
                p = o[2] if k == "query" else o[1]
                shape = "".join("?" if x is None else "b" for x in p)
                f[f"{k}_shape_{shape}"] = f.get(f"{k}_shape_{shape}", 0) + 1
            if k in self.WRITES + self.READS and isinstance(o[-1], str):
                f["via_" + o[-1]] = f.get("via_" + o[-1], 0) + 1
        f["answers_raised"] = sum(1 for s in obs if s[2][0] == "raised")
        return f

    def shrink(self, case):
        ops = case["ops"]
        for i in range(len(ops)):
            yield dict(case, ops=ops[:i] + ops[i + 1:])
        for i in range(len(case["init"])):
            yield dict(case, init=case["init"][:i] + case["init"][i + 1:])
        used = {q[3] for q in case["init"]}
        for i in range(len(case["names"])):
            if case["names"][i] not in used:  # a graph with triples exists
                yield dict(case, names=case["names"][:i] + case["names"][i + 1:])
        for i, o in enumerate(ops):
            if o[0] == "addN" and len(o[1]) > 1:
                for j in range(len(o[1])):
                    yield dict(case, ops=ops[:i] + [["addN", o[1][:j] + o[1][j + 1:], o[2]]] + ops[i + 1:])

    def sweep(self):
        """every pattern shape x every object of the pool x every graph, for each method/format: write the triple,
        read it back through all read operations, remove it by the pattern, read again."""
        shapes = [[a, b, c] for a in (0, 1) for b in (0, 1) for c in (0, 1)]
        for o in OBJ:
            t = [1, 3, o]
            for method in ("GET", "POST", "POST_FORM"):
                for fmt in ("xml", "json"):
                    for g in (0, 1):
                        ops = [["add", t, g, "store"], ["add", [2, 4, o], g, "graph"], ["commit", "store"]]
                        for sh in shapes:
                            ops.append(["triples", [x if m else None for x, m in zip(t, sh)], g, "store"])
                        ops.append(["len", g, "store"])
                        ops.append(["contexts", t, "store"])
                        ops.append(["query", 0, [None, None, o], None if g == 0 else g, "store"])
                        ops.append(["query", 1, [1, None, None], None if g == 0 else g, "store"])
                        ops.append(["upd", "delb", [None, 3, o], None if g == 0 else g, "store", 0])
                        ops.append(["rem", [None, None, o], g, "store"])
                        ops.append(["triples", [None, None, None], g, "store"])
                        yield {"alias": True, "method": method, "fmt": fmt, "auto": False, "dirty": False, "kw": o % 4, "ct": (o + g) % 4,
                               "init": [], "names": [], "ops": ops}
        # the queue: all histories of length 3 over a small alphabet, autocommit off, both dirty settings
        import itertools
        alpha = [["add", [1, 3, 10], 1, "store"], ["rem", [1, 3, 10], 1, "store"], ["commit", "store"],
                 ["rollback", "store"], ["triples", [None, None, None], 1, "store"], ["auto", True], ["dirty", False],
                 ["addN", [[2, 3, 10, 1], [2, 3, 10, 2]], "store"]]
        for seq in itertools.product(alpha, repeat=3):
            for dirty in (False, True):
                yield {"alias": False, "method": "POST", "fmt": "json", "auto": False, "dirty": dirty,
                       "init": [[1, 3, 10, 1]], "names": [1],
                       "ops": [list(o) for o in seq] + [["commit", "store"]]}


def c_text(pieces):
    out = []
    for k, v in pieces:
        out.append("PS " + clist(cN(x) for x in v) if k == "S" else ("PT " if k == "T" else "PG ") + cN(v))
    return clist(out)


class C20Wire(C20):
    """the request TEXT: what the loopback endpoint receives, character by character, against the printer of the
    request AST (coq/Remote/Text.v).  Histories of the operations whose text the store composes itself."""

    name = "wire"
    imports = "From RV Require Import Remote.Text.\nSet Printing Width 100000."
    obs_ty = "list (list req)"
    model = "model_wire"
    oeq = "wire_eqb"
    spec = "wire_spec"
    corr = ("SPARQLStore.triples/__len__/contexts (query text, default-graph-uri), SPARQLUpdateStore.add/addN/remove/add_graph/"
            "remove_graph (statement text), commit (joining), SPARQLConnector.query/update (what is sent)")
    quick_n = 120
    thorough_n = 3000

    def gen(self, rng, i):
        case = C20.gen(self, rng, i)
        # the Dataset front end binds ~30 default prefixes into the store (PREFIX lines on CREATE/DROP, in set order):
        # _inject_prefixes is the subject of the "rewrite" suite with explicit bindings, here the route is store/Graph
        case["ops"] = [[("store" if x == "dataset" else x) for x in o] for o in case["ops"] if o[0] not in ("upd", "bad", "query")]
        return case

    def coq_obs(self, obs):
        steps = []
        for s in obs:
            reqs = []
            for k, dg, pieces in (s[3] if len(s) > 3 else []):
                if k == "Q":
                    reqs.append("RQuery %s %s" % (copt(dg, cN), c_text(pieces)))
                else:
                    reqs.append("RUpdate " + c_text(pieces))
            steps.append(clist(reqs))
        return clist(steps)

    def on_timeout(self, case):
        return []

    def sweep(self):
        for c in C20.sweep(self):
            ops = [[("store" if x == "dataset" else x) for x in o] for o in c["ops"] if o[0] not in ("upd", "bad", "query")]
            yield dict(c, ops=ops)


FRAGS = ["INSERT DATA ", "DELETE ", "WHERE ", "where\n", "WHERE\t ", "Where", " ?s ?p ?o . ", "<http://e/a>", "<http://e/b#x>",
         "<", ">", " ?a < ?b ", '"x"', "'y'", '"a { b"', "'} {'", '"q\\"{"', "'it\\'s }'", '"""long {\n " } """', "'''x''' ",
         "# c { \n", "# d } \r", "#tail }", "\\{", "\\", "{}", "{ }", "{\n\t}", " ", "\n", '"unterminated {', "'open",
         "\u00e9", "\u2003", "\u00a0", ";", "GRAPH <urn:x> ", "<http://e/{x}>", "a", ".", "\\\n", "<a b>", "<a|b>",
         '"""a\n" } x { "b"""', "'''a'b''c } '''", '"""x""""', '"""\\"""{"""', '""""', "'''{", '"" "', '""', '"""""" {',
         '"""a\\\n}"""']


def gen_text(rng, depth=0):
    parts = []
    for _ in range(rng.choice([1, 2, 3, 4, 5])):
        r = rng.random()
        if r < 0.3 and depth < 3:
            parts.append("{" + gen_text(rng, depth + 1) + "}")
        elif r < 0.33:
            parts.append(rng.choice("{}"))  # unbalanced
        else:
            parts.append(rng.choice(FRAGS))
    return "".join(parts)


class C20Rewrite(Suite):
    """what SPARQLUpdateStore.update()/SPARQLStore.query() make of a user-supplied text: _inject_prefixes,
    _insert_named_graph (BLOCK_FINDING_PATTERN + the level/pos loop), VALUES injection - compared character by
    character with coq/Remote/NamedGraph.v; the text is taken from what the loopback endpoint receives."""

    name = "rewrite"
    imports = "From RV Require Import Remote.NamedGraph.\nSet Printing Width 100000."
    case_ty = "rcase"
    obs_ty = "(str * str)"
    model = "model_rewrite"
    oeq = "rewrite_eqb"
    spec = "rewrite_spec"
    corr = "SPARQLUpdateStore.update/_insert_named_graph/BLOCK_FINDING_PATTERN/where_pattern, SPARQLStore.query/_inject_prefixes"
    quick_n = 200
    thorough_n = 5000
    timeout_s = 20.0

    def gen(self, rng, i):
        r = rng.random()
        if r < 0.25:  # realistic updates with pool terms inline
            t = [rng.choice(SUBJ), rng.choice(PRED), rng.choice(OBJ)]
            text = rng.choice(["INSERT DATA { %s }", "DELETE DATA {%s}", "DELETE WHERE { %s . }",
                               "DELETE { %s } WHERE { %s }", "INSERT { %s } WHERE { ?s ?p ?o . FILTER(?o < 3) } # {\n",
                               "DELETE { GRAPH <urn:g:1> { %s } } WHERE { { %s } UNION { ?s ?p ?o } }"]).replace("%s", pat_text(t))
        else:
            text = gen_text(rng)
        prefixes = [] if rng.random() < 0.6 else [rng.choice([["ex", "http://e/"], ["", "urn:x:"], ["\u00e9", "http://e/\u00e9#"]])]
        graph = None if rng.random() < 0.2 else rng.choice(list(GNAMES))
        nb = rng.choice([0, 0, 1, 2])
        vs = rng.sample(["s", "p", "o", "x_1"], nb)
        terms = [rng.choice(OBJ) for _ in vs]
        return {"text": text, "prefixes": prefixes, "graph": graph, "vars": vs, "terms": terms}

    def run_impl(self, case):
        ep = endpoint()
        ep.reset(True, [], [])
        ep.log = []
        st = SPARQLUpdateStore(ep.url, ep.url, method="POST", autocommit=True)
        ns = {k: URIRef(v) for k, v in case["prefixes"]}
        ib = {v: term(t) for v, t in zip(case["vars"], case["terms"])}
        out = []
        try:
            st.update(case["text"], initNs=ns, initBindings=ib, queryGraph=None if case["graph"] is None else ident(case["graph"]))
        except Exception:  # noqa: BLE001  (the endpoint rejects most of these texts; what it received is what counts)
            pass
        us = [t for k, _, t in ep.log if k == "U"]
        out.append(us[-1] if us else None)
        ep.log = []
        try:
            st.query(case["text"], initNs=ns, initBindings=ib)
        except Exception:  # noqa: BLE001
            pass
        qs = [t for k, _, t in ep.log if k == "Q"]
        out.append(qs[-1] if qs else None)
        ep.log = []
        return out

    def coq_case(self, case):
        from .core import cstr
        g = None if case["graph"] is None else ident(case["graph"]).n3()
        return ("{| r_text := %s; r_prefixes := %s; r_graph := %s; r_vars := %s; r_terms := %s |}" % (
            cstr(case["text"]), clist(ctuple(cstr(k), cstr(v)) for k, v in case["prefixes"]), copt(g, cstr),
            clist(cstr(v) for v in case["vars"]), clist(cstr(term(t).n3()) for t in case["terms"])))

    def coq_obs(self, obs):
        from .core import cstr
        return ctuple(*(cstr(x if x is not None else "\x00<nothing received>") for x in (obs + [None, None])[:2]))

    def on_timeout(self, case):
        return [None, None]

    def nontrivial(self, case, obs):
        return "{" in case["text"]

    def features(self, case, obs):
        t = case["text"]
        return {"with_graph": int(case["graph"] is not None), "with_prefix": int(bool(case["prefixes"])),
                "with_bindings": int(bool(case["vars"])), "has_string": int('"' in t or "'" in t), "has_comment": int("#" in t),
                "nested": int("{" in t and t.count("{") > 1), "balanced": int(t.count("{") == t.count("}"))}

    def shrink(self, case):
        t = case["text"]
        for i in range(len(t)):
            yield dict(case, text=t[:i] + t[i + 1:])
        if case["prefixes"]:
            yield dict(case, prefixes=[])
        if case["vars"]:
            yield dict(case, vars=case["vars"][1:], terms=case["terms"][1:])
        if case["graph"] is not None:
            yield dict(case, graph=None)


SUITES = [C20(), C20Wire(), C20Rewrite()]
