"""C02 - Dataset / ConjunctiveGraph keep named graphs isolated: correspondence between
coq/Dataset/Model.v and rdflib/graph.py (ConjunctiveGraph, Dataset) over the Memory store."""
from __future__ import annotations

import itertools
import warnings

from .core import Suite, cN, cbool, clist, copt, ctuple
from .terms import GRAPH_POOL, GRAPH_ID, rdflib, term, term_id, tkey

warnings.filterwarnings("ignore", category=DeprecationWarning)
from rdflib import ConjunctiveGraph, Dataset, Graph, URIRef  # noqa: E402
from rdflib.graph import DATASET_DEFAULT_GRAPH_ID  # noqa: E402
from rdflib.plugins.stores.memory import Memory  # noqa: E402

CG_DEFAULT = URIRef("urn:x-verif:cg-default")
FRESH_BASE = 1000
POISON = [[997, 997, 997]]

SUBJ = [1, 2, 5, 6, 8, 12]
PRED = [3, 4]
OBJ = [1, 5, 6, 7, 9, 10, 11, 13, 14]


# ------------------------------------------------------------------ Coq text
def c_triple(t):
    return ctuple(*(cN(x) for x in t))


def c_pat(p):
    return ctuple(*(copt(x, cN) for x in p))


def c_quad(q):
    return ctuple(c_triple(q[:3]), cN(q[3]))


SELF = 900  # the Dataset object itself given as a graph: it is addressed by its own (private, blank-node) identifier


def c_garg(a):
    if a[0] == "self":
        # ConjunctiveGraph._graph hands a Dataset/ConjunctiveGraph argument back as it is: the store then keys it by the
        # object's identifier, i.e. it behaves as that identifier (a ConjunctiveGraph's identifier IS its default graph's)
        return f"(GId {cN(a[1])})"
    if a[0] == "id":
        return f"(GId {cN(a[1])})"
    if a[0] == "view":
        return f"(GView {cN(a[1])})"
    return f"(GForeign {cN(a[1])} {clist(c_triple(t) for t in a[2])})"


def c_ctxarg(ca):
    if ca == "t":
        return "CTriple"
    return f"(CQuad {copt(ca[1], c_garg)})"


def c_op(op):
    k = op[0]
    if k == "add":
        return f"OAdd {c_triple(op[1])} {c_ctxarg(op[2])}"
    if k == "addn":
        return "OAddN " + clist(ctuple(c_triple(t), c_garg(a)) for t, a in op[1])
    if k == "rem":
        return f"ORemove {c_pat(op[1])} {c_ctxarg(op[2])}"
    if k == "graph":
        return f"OGraph {copt(op[1], c_garg)}"
    if k == "rmgraph":
        return f"ORemoveGraph {copt(op[1], c_garg)}"
    if k == "rmctx":
        return f"ORemoveContext {cN(op[1])}"
    if k == "triples":
        return f"OTriples {c_pat(op[1])} {c_ctxarg(op[2])} {copt(op[3], c_garg)} {cbool(op[4])}"
    if k == "quads":
        return f"OQuads {c_pat(op[1])} {c_ctxarg(op[2])}"
    if k == "in":
        return f"OContains {c_pat(op[1])} {c_ctxarg(op[2])} {cbool(op[3])}"
    if k == "ctxs":
        return f"OContexts {c_triple(op[1])}"
    raise ValueError(k)


def c_case(case):
    return ("{| c_ds := " + cbool(case["ds"]) + "; c_names := " + clist(cN(x) for x in case["names"])
            + "; c_vocab := " + clist(c_triple(t) for t in case["vocab"])
            + "; c_ops := " + clist(c_op(o) for o in case["ops"]) + " |}")


def c_res(r):
    k = r[0]
    if k == "none":
        return "RNone"
    if k == "self":
        return "RSelf"
    if k == "names":
        return "RNames " + clist(cN(x) for x in r[1])
    if k == "triples":
        return "RTriples " + clist(c_triple(t) for t in r[1])
    if k == "quads":
        return "RQuads " + clist(c_quad(q) for q in r[1])
    if k == "bool":
        return "RBool " + cbool(r[1])
    return "RExc"


def c_snap(s):
    return ("{| o_quads := " + clist(c_quad(q) for q in s["quads"])
            + "; o_graphs := " + clist(cN(x) for x in s["graphs"])
            + "; o_views := " + clist(ctuple(cN(g), clist(c_triple(t) for t in ts)) for g, ts in s["views"])
            + "; o_vlens := " + clist(cN(x) for x in s["vlens"])
            + "; o_len := " + cN(s["len"])
            + "; o_union := " + clist(c_triple(t) for t in s["union"])
            + "; o_dflt := " + clist(c_triple(t) for t in s["dflt"])
            + "; o_mem := " + clist(cbool(b) for b in s["mem"]) + " |}")


def c_obs(obs):
    return clist(ctuple(c_res(r), c_snap(s)) for r, s in obs)


# ------------------------------------------------------------------ running rdflib
class World:
    """One front end (Dataset or ConjunctiveGraph) over one Memory store, with the
    bookkeeping that turns graph names into numbers and back."""

    def __init__(self, is_ds, names, default_union=False, store=None):
        self.store = Memory() if store is None else store
        self.is_ds = is_ds
        if is_ds:
            self.d = Dataset(store=self.store, default_union=default_union)
            self.default_id = DATASET_DEFAULT_GRAPH_ID
        else:
            self.d = ConjunctiveGraph(store=self.store, identifier=CG_DEFAULT)
            self.d.default_union = default_union
            self.default_id = CG_DEFAULT
        self.fresh = []  # identifiers minted by Dataset.graph(None), in order
        self.nview = 0
        self.ngraph = 0
        self.wdu = default_union
        # views obtained BEFORE any mutation
        self.pre = {c: Graph(self.store, identifier=self.name(c)) for c in names if c < FRESH_BASE}

    def name(self, c):
        if c == 0:
            return self.default_id
        if c == SELF:
            return self.d.identifier
        if c >= FRESH_BASE:
            return self.fresh[c - FRESH_BASE]
        return GRAPH_POOL[c - 1]

    def gid(self, ident):
        if ident is None:
            return 0
        if isinstance(ident, Graph):
            ident = ident.identifier
        k = tkey(ident)
        if k == tkey(self.default_id):
            return 0
        if k == tkey(self.d.identifier):
            return SELF
        if k in GRAPH_ID:
            return GRAPH_ID[k]
        for i, f in enumerate(self.fresh):
            if tkey(f) == k:
                return FRESH_BASE + i
        return 998

    def garg(self, a):
        if a is None:
            return None
        if a[0] == "self":
            return self.d
        if a[0] == "id":
            return self.name(a[1])
        if a[0] == "view":
            self.nview += 1
            if self.nview % 3 == 0 and a[1] in self.pre:
                return self.pre[a[1]]
            if self.nview % 3 == 1:
                return self.d.get_context(self.name(a[1]))
            return Graph(self.store, identifier=self.name(a[1]))
        g = Graph(identifier=self.name(a[1]))  # its own Memory store
        for t in a[2]:
            g.add(tuple(term(x) for x in t))
        return g

    def toq(self, spo, ca):
        if ca == "t":
            return spo
        return spo + (self.garg(ca[1]),)

    def triples_out(self, it):
        return sorted([term_id(s), term_id(p), term_id(o)] for s, p, o in it)

    def quads_out(self, it):
        return sorted([term_id(s), term_id(p), term_id(o), self.gid(g)] for s, p, o, g in it)


def pat_terms(p):
    return tuple(None if x is None else term(x) for x in p)


def _ret_self(d, r):
    return ["self"] if r is d else ["exc"]


def do_op(w: World, op):
    d = w.d
    k = op[0]
    if k in ("add", "addn", "rem", "graph", "rmgraph", "rmctx"):
        d.default_union = w.wdu  # writes must not depend on the flag: the history runs under the case's setting
    if k == "add":
        via = op[3] if len(op) > 3 else None
        if via and op[2] != "t" and op[2][1] is not None and op[2][1][0] == "id":
            # the same add issued through a Graph(store, name) view: one obtained before the history, or a new one
            c = op[2][1][1]
            v = w.pre[c] if via == "pre" and c in w.pre else Graph(w.store, identifier=w.name(c))
            v.add(pat_terms(op[1]))
            return ["self"]
        return _ret_self(d, d.add(w.toq(pat_terms(op[1]), op[2])))
    elif k == "addn":
        return _ret_self(d, d.addN([pat_terms(t) + (w.garg(a),) for t, a in op[1]]))
    elif k == "rem":
        return _ret_self(d, d.remove(w.toq(pat_terms(op[1]), op[2])))
    elif k == "graph":
        x = w.garg(op[1])
        w.ngraph += 1
        g = d.graph(x) if w.ngraph % 2 else d.add_graph(x)
        if op[1] is None:
            w.fresh.append(g.identifier)
        # the graph handed back: a Graph on THIS store, reported by its name
        return ["names", [w.gid(g.identifier) if isinstance(g, Graph) and g.store is w.store else 997]]
    elif k == "rmgraph":
        return _ret_self(d, d.remove_graph(w.garg(op[1])))
    elif k == "rmctx":
        r = d.remove_context(Graph(w.store, identifier=w.name(op[1])))
        return ["none"] if r is None else ["exc"]
    elif k == "triples":
        d.default_union = bool(op[4])
        toq = w.toq(pat_terms(op[1]), op[2])
        if op[3] is None:
            return ["triples", w.triples_out(d.triples(toq))]
        return ["triples", w.triples_out(d.triples(toq, context=w.garg(op[3])))]
    elif k == "ctxs":
        t = pat_terms(op[1])
        return ["names", sorted(w.gid(g.identifier) for g in (d.graphs(t) if w.is_ds else d.contexts(t)))]
    elif k == "quads":
        d.default_union = w.wdu  # quads() must not look at the flag either
        if op[2] == "t" and op[1] == [None, None, None]:
            return ["quads", w.quads_out(d.quads())]
        return ["quads", w.quads_out(d.quads(w.toq(pat_terms(op[1]), op[2])))]
    elif k == "in":
        d.default_union = bool(op[3])
        return ["bool", bool(w.toq(pat_terms(op[1]), op[2]) in d)]
    else:
        raise ValueError(k)
    return ["none"]


def snapshot(w: World, case):
    d = w.d
    s = {}
    s["quads"] = w.quads_out(d.quads())
    s["graphs"] = sorted(w.gid(g.identifier) for g in (d.graphs() if w.is_ds else d.contexts()))
    d.default_union = True
    s["union"] = w.triples_out(d.triples((None, None, None)))
    d.default_union = False
    s["dflt"] = w.triples_out(d.triples((None, None, None)))
    views, vlens = [], []
    for c in case["names"]:
        v_new = Graph(w.store, identifier=w.name(c))
        a = w.triples_out(v_new)
        n = len(v_new)
        if c in w.pre:
            # the view obtained before the mutations must tell the same story
            if w.triples_out(w.pre[c]) != a or len(w.pre[c]) != n:
                a = POISON
            b = w.triples_out(w.pre[c].triples((None, None, None)))
            if b != a:
                a = POISON
        views.append([c, a])
        vlens.append(n)
    s["views"], s["vlens"] = views, vlens
    s["len"] = len(d)
    mem = []
    for c in case["names"]:
        nm = w.name(c)
        for t in case["vocab"]:
            mem.append(bool(tuple(term(x) for x in t) + (nm,) in d))
    s["mem"] = mem
    return s


EMPTY_SNAP = {"quads": [], "graphs": [], "views": [], "vlens": [], "len": 0, "union": [], "dflt": [], "mem": []}


class C02(Suite):
    name = "dataset"
    imports = "From RV Require Import Dataset.Model."
    case_ty = "case"
    obs_ty = "obs"
    kf = "kf"
    kf_ids = {1: "F17", 2: "F20"}
    corr = ("ConjunctiveGraph._spoc/_graph/add/addN/remove/triples/quads/__contains__/__len__/contexts/"
            "get_context/remove_context, Dataset.graph/add_graph/remove_graph/graphs/quads, over Memory")
    quick_n = 900
    thorough_n = 20000

    # ------------------------------------------------------------ generation
    def gen(self, rng, i):
        is_ds = rng.random() < 0.8
        nv = rng.choice([2, 3, 3, 4, 5])
        subs = rng.sample(SUBJ, 2)
        preds = rng.sample(PRED, rng.choice([1, 2]))
        objs = rng.sample(OBJ, 2)
        pool = [[s, p, o] for s in subs for p in preds for o in objs]
        rng.shuffle(pool)
        vocab = pool[:nv]
        used = rng.sample([0, 1, 2, 3, 4, 5], rng.choice([2, 3, 3, 4]))
        if rng.random() < 0.5:  # IRI- and bnode-named graph with the same string
            used = list(dict.fromkeys(used[:2] + [1, 3]))
        unused = [c for c in [5, 4, 2, 1, 3] if c not in used]
        names = sorted(set([0] + used + unused[:1]))
        nfresh = 0

        def pick_name():
            if nfresh and rng.random() < 0.1:
                return FRESH_BASE + rng.randrange(nfresh)
            return rng.choice(used)

        def garg(write):
            r = rng.random()
            c = pick_name()
            if r < 0.03:
                return ["self", SELF if is_ds else 0]  # the front-end object itself as the graph
            if r < 0.7:
                return ["id", c]
            if r < (0.88 if write else 0.93) or c >= FRESH_BASE:
                return ["view", c]
            # a Graph object of another store: merged by add/addN/graph(), merely a name for reads and remove
            return ["foreign", c, rng.sample(vocab, rng.choice([0, 1, 1, 2]))]

        def ctxarg(write, p_triple=0.25):
            r = rng.random()
            if r < p_triple:
                return "t"
            if write and r < p_triple + 0.07:
                return ["q", None]  # a quad that names no graph: the default graph (F18, repaired)
            if not write and r < p_triple + 0.05:
                return ["q", None]
            return ["q", garg(write)]

        def pattern():
            t = rng.choice(vocab)
            r = rng.random()
            if r < 0.4:
                return list(t)
            if r < 0.65:
                return [None, None, None]
            return [x if rng.random() < 0.5 else None for x in t]

        wdu = rng.random() < 0.5  # default_union while the writes run
        added = []  # (triple, graph name) pairs some add has mentioned: reads aim at them

        def aimed_read():
            t, c = rng.choice(added)
            r = rng.random()
            p = list(t) if r < 0.4 else [None, None, None] if r < 0.7 else [x if rng.random() < 0.5 else None for x in t]
            return p, ["q", [rng.choice(["id", "id", "view"]), c]]

        ops = []
        n = rng.choice([2, 3, 4, 5, 6, 8, 10, 12])
        for j in range(n):
            r = rng.random()
            if j < n // 2 and r >= 0.32 and rng.random() < 0.5:
                r = rng.random() * 0.37  # the first half of a history mostly builds content
            if r < 0.32:
                ops.append(["add", rng.choice(vocab), ctxarg(True)])
                ca = ops[-1][2]
                if ca != "t" and ca[1] is not None and ca[1][0] == "id" and ca[1][1] < FRESH_BASE and rng.random() < 0.25:
                    ops[-1].append(rng.choice(["pre", "new"]))  # through a Graph view instead of the front end
                added.append((ops[-1][1], 0 if ca == "t" or ca[1] is None else ca[1][1]))
            elif r < 0.37:
                ops.append(["addn", [[rng.choice(vocab), garg(True)] for _ in range(rng.choice([1, 2, 3]))]])
            elif r < 0.57:
                ca = ctxarg(True, 0.3)
                if ca == ["q", None] and rng.random() < 0.5:
                    ca = "t"
                if rng.random() < 0.15:  # name the DEFAULT graph, by identifier or by Graph object
                    ca = ["q", [rng.choice(["id", "view"]), 0]]
                ops.append(["rem", pattern(), ca])
            elif r < 0.64 and is_ds:
                if rng.random() < 0.2:
                    ops.append(["graph", None])
                    nfresh += 1
                else:
                    ops.append(["graph", garg(True)])
            elif r < 0.72 and is_ds:
                a = garg(True) if rng.random() < 0.93 else None
                if a is not None and a[0] != "self" and rng.random() < 0.2:
                    a = [a[0], 0] + a[2:]
                ops.append(["rmgraph", a])
            elif r < 0.75:
                ops.append(["rmctx", pick_name()])
            elif r < 0.84:
                kw = garg(False) if rng.random() < 0.5 else None
                p, ca = pattern(), ctxarg(False, 0.4)
                if added and rng.random() < 0.6:
                    p, ca = aimed_read()
                    if rng.random() < 0.5:
                        kw, ca = ca[1], ctxarg(False, 0.4)
                    elif rng.random() < 0.7:
                        kw = None
                ops.append(["triples", p, ca, kw, rng.random() < 0.5])
            elif r < 0.92:
                p, ca = pattern(), ctxarg(False, 0.35)
                if added and rng.random() < 0.5:
                    p, ca = aimed_read()
                ops.append(["quads", p, ca])
            elif r < 0.97:
                p, ca = pattern(), ctxarg(False, 0.3)
                if added and rng.random() < 0.6:
                    p, ca = aimed_read()
                ops.append(["in", p, ca, rng.random() < 0.5])
            else:
                ops.append(["ctxs", rng.choice(added)[0] if added and rng.random() < 0.7 else rng.choice(vocab)])
        if rng.random() < 0.12:
            # a graph emptied by a removal that names NO graph, then removed, then written to again
            g = rng.choice([c for c in used if c != 0] or [1])
            t = rng.choice(vocab)
            scen = [["add", t, ["q", ["id", g]]],
                    ["rem", rng.choice([list(t), [None, None, None], [t[0], None, None]]), rng.choice(["t", ["q", None]])],
                    ["rmgraph", [rng.choice(["id", "view"]), g]] if is_ds else ["rmctx", g],
                    ["add", rng.choice(vocab), ["q", ["id", g]]] + rng.choice([[], ["pre"], ["new"]])]
            at = rng.randrange(len(ops) + 1)
            ops = ops[:at] + scen + ops[at:]
            if g not in names:
                names = sorted(names + [g])
        if rng.random() < 0.12:
            # the default graph and a named graph share a triple; remove it naming the default graph
            g = rng.choice([c for c in used if c != 0] or [1])
            t = rng.choice(vocab)
            scen = [["add", t, "t"], ["add", t, ["q", ["id", g]]],
                    ["rem", rng.choice([list(t), [None, None, None], [None, t[1], None]]), ["q", [rng.choice(["id", "view"]), 0]]]]
            at = rng.randrange(len(ops) + 1)
            ops = ops[:at] + scen + ops[at:]
            wdu = wdu or rng.random() < 0.7
            if g not in names:
                names = sorted(names + [g])
        # probes with ONE position bound, aimed at triples some removal may have taken away, asked of the graph that
        # received the first quad of the store and of the merged view (index paths that iteration and len do not take)
        firsts = [o for o in ops if o[0] == "add"]
        if firsts and rng.random() < 0.6:
            ca0 = firsts[0][2]
            g0 = 0 if ca0 == "t" or ca0[1] is None else ca0[1][1]
            for _ in range(rng.choice([1, 2])):
                t = rng.choice(vocab)
                k = rng.choice([0, 1, 2, 2])
                p1 = [t[i] if i == k else None for i in range(3)]
                ops.append(["triples", p1, "t", [rng.choice(["view", "id"]), g0], False])
                if rng.random() < 0.6:
                    ops.append(["triples", p1, "t", None, True])
            if g0 not in names and g0 < FRESH_BASE:
                names = sorted(names + [g0])
        if is_ds and any(a[0] == "self" for o in ops for a in _gargs(o)) and SELF not in names:
            names = names + [SELF]
        return {"ds": is_ds, "wdu": wdu, "names": names, "vocab": vocab, "ops": ops}

    # ------------------------------------------------------------ implementation
    def run_impl(self, case):
        w = World(case["ds"], case["names"], default_union=bool(case.get("wdu", False)))
        obs = []
        for op in case["ops"]:
            try:
                r = do_op(w, op)
            except Exception:  # noqa: BLE001
                r = ["exc"]
            try:
                s = snapshot(w, case)
            except Exception:  # noqa: BLE001
                s = dict(EMPTY_SNAP, quads=[[997, 997, 997, 997]])
            obs.append([r, s])
        return obs

    def on_timeout(self, case):
        return []

    def coq_case(self, case):
        return c_case(case)

    def coq_obs(self, obs):
        return c_obs(obs)

    def nontrivial(self, case, obs):
        kinds = {o[0] for o in case["ops"]}
        graphs = set()
        for r, s in obs:
            graphs |= {q[3] for q in s["quads"]}
        return bool(kinds & {"add", "addn"}) and bool(kinds & {"rem", "rmgraph", "rmctx"}) and len(graphs) >= 2

    def features(self, case, obs):
        f = {"front_" + ("dataset" if case["ds"] else "conjunctive"): 1, "ops_total": len(case["ops"]),
             "writes_under_default_union": int(bool(case.get("wdu"))),
             "adds_through_view": sum(1 for o in case["ops"] if o[0] == "add" and len(o) > 3),
             "removals_naming_default_graph": sum(1 for o in case["ops"] if o[0] == "rem" and o[2] != "t" and o[2][1] and o[2][1][1] == 0)}
        for o in case["ops"]:
            f["op_" + o[0]] = f.get("op_" + o[0], 0) + 1
            for a in _gargs(o):
                f["arg_" + a[0]] = f.get("arg_" + a[0], 0) + 1
        shared = empty_known = 0
        for r, s in obs:
            ts = {}
            for q in s["quads"]:
                ts.setdefault(tuple(q[:3]), set()).add(q[3])
            shared += int(any(len(v) > 1 for v in ts.values()))
            nonempty = {q[3] for q in s["quads"]}
            empty_known += int(any(g not in nonempty and g != 0 for g in s["graphs"]))
        f["steps_with_shared_triple"] = shared
        f["steps_with_empty_named_graph"] = empty_known
        return f

    def shrink(self, case):
        ops = case["ops"]
        for i in range(len(ops)):
            yield dict(case, ops=ops[:i] + ops[i + 1:])
        if case.get("wdu"):
            yield dict(case, wdu=False)
        for i in range(len(case["names"])):
            if case["names"][i] != 0 and len(case["names"]) > 1:
                yield dict(case, names=case["names"][:i] + case["names"][i + 1:])
        for i in range(len(case["vocab"])):
            if len(case["vocab"]) > 1:
                yield dict(case, vocab=case["vocab"][:i] + case["vocab"][i + 1:])

    def sweep(self):
        """all histories of length <= 3 (plus a final restricted read) over two triples and
        the graphs default / IRI-named / bnode-named-with-the-same-string"""
        t1, t2 = [1, 3, 5], [2, 3, 1]
        alphabet = [
            ["add", t1, "t"], ["add", t1, ["q", ["id", 1]]], ["add", t1, ["q", ["id", 3]]],
            ["add", t2, ["q", ["view", 1]]], ["add", t2, ["q", ["foreign", 3, [t1]]]],
            ["rem", t1, "t"], ["rem", t1, ["q", ["id", 1]]], ["rem", [None, 3, None], ["q", ["id", 3]]],
            ["rem", [None, None, None], ["q", ["id", 0]]], ["rem", t1, ["q", ["view", 0]]],
            ["graph", ["id", 1]], ["add", t2, ["q", ["self", SELF]]], ["rmgraph", ["id", 1]], ["rmgraph", ["id", 0]], ["rmgraph", ["view", 3]],
            ["rmctx", 1],
        ]
        tails = [["ctxs", t1], ["triples", [None, None, None], "t", ["view", 1], True],
                 ["triples", [None, 3, None], ["q", ["id", 3]], None, False],
                 ["in", t1, ["q", ["view", 1]], True]]
        for n in (1, 2, 3):
            for seq in itertools.product(alphabet, repeat=n):
                for is_ds in ((True, False) if n < 3 else (True,)):
                    ops = [list(o) for o in seq]
                    if not is_ds:  # a ConjunctiveGraph's own identifier is its default graph's
                        ops = [o[:2] + [["q", ["self", 0]]] if o[0] == "add" and o[2] != "t" and o[2][1] and o[2][1][0] == "self" else o for o in ops]
                    if not is_ds and any(o[0] in ("graph", "rmgraph") for o in ops):
                        continue
                    for wdu in ((False, True) if n < 3 else (False,)):
                        yield {"ds": is_ds, "wdu": wdu, "names": [0, 1, 3, 2], "vocab": [t1, t2],
                               "ops": ops + [tails[(len(ops) + hash(str(ops))) % 4]]}
        # a graph emptied by a removal naming no graph, removed, then written to again (front end / views)
        for g in (1, 3):
            for rem in (["rem", t1, "t"], ["rem", t1, ["q", None]], ["rem", [None, None, None], "t"]):
                for rm in (["rmgraph", ["id", g]], ["rmgraph", ["view", g]]):
                    for again in ([], ["pre"], ["new"]):
                        for wdu in (False, True):
                            yield {"ds": True, "wdu": wdu, "names": [0, 1, 3], "vocab": [t1, t2],
                                   "ops": [["add", t1, ["q", ["id", g]]], rem, rm, ["add", t2, ["q", ["id", g]]] + again,
                                           ["graph", ["id", 2]]]}


def _gargs(o):
    out = []
    k = o[0]
    if k in ("add", "rem", "quads", "in", "triples"):
        if o[2] != "t" and o[2][1] is not None:
            out.append(o[2][1])
    if k == "triples" and o[3] is not None:
        out.append(o[3])
    if k == "addn":
        out += [a for _, a in o[1]]
    if k in ("graph", "rmgraph") and o[1] is not None:
        out.append(o[1])
    return out


class C02Memory(C02):
    """the same cases and the same rdflib runs against the front end composed with C01's MEMORY model
    (coq/Dataset/OverMemory.v m_model_obs: Memory's indexes, context dictionaries, default-context compression)"""
    name = "dataset_memory"
    imports = "From RV Require Import Dataset.Model Dataset.OverMemory."
    model = "m_model_obs"
    quick_n = 300
    thorough_n = 6000

    def sweep(self):
        return []


SUITES = [C02(), C02Memory()]

TRUSTED = [
    "Coq 8.16.1 kernel and standard library",
    "harness/c02.py: translation of cases to rdflib calls and of rdflib results to numbers (terms.py numbering)",
    "the abstract Memory store of coq/Dataset/Model.v (quad set + union-only triples + known graph names) describes what "
    "rdflib/plugins/stores/memory.py exposes to graph.py: tied by this correspondence run, and PROVED to be realised by C01's "
    "Memory model (coq/Dataset/OverMemoryProofs.v, OverMemoryReads.v, OverMemoryRun.v: every store-level write simulated, every "
    "store read and every front-end read enumerated, the history theorem over Memory); suite dataset_memory runs that "
    "Memory-level front end against rdflib; "
    "that C01's Memory model is memory.py is property C01's tie",
]
ASSUMPTIONS = [
    "store is rdflib.plugins.stores.memory.Memory; one front-end object per history plus Graph(store, name) views",
    "graph names are URIRef/BNode with non-empty strings",
]
RULE = ("histories of 2-16 operations (add / addN / remove by triple, quad or pattern / graph() / remove_graph() / "
        "remove_context / restricted reads / graphs(triple); return values observed) over 2-5 triples from a 2x2x2 vocabulary "
        "with falsy literals and 2-4 graph names out of default, two IRIs, two blank nodes (one with the same string as an IRI); "
        "graph arguments are identifiers, same-store Graph objects, foreign Graph objects or the Dataset object itself; writes run "
        "under default_union on or off, adds also through Graph views; distinct by full case content; non-trivial = some add, some "
        "removal and quads in at least two graphs at some step")
