"""T1 for C03: character tables the text-level codec model depends on, reflected from the tree under test
into coq/Gen/Tables_codec.v.

* uriref_refused  - code points the last character class of rdflib/plugins/parsers/ntriples.py `uriref` excludes (probed
                    through the compiled class), i.e. what the N-Triples reader refuses inside an IRI after the scheme
* py_isspace      - str.isspace (readline's test for a blank remainder at end of file)
* invalid_uri     - rdflib.term._invalid_uri_chars
* nt_escapes      - rdflib.compat._string_escape_map (escape letter -> character)
* n3_escapes      - the two strings in SinkParser.strconst ("abfrtvn\\\\\\"'" and its translation), probed by decoding
* nt_quote_steps  - the (char, replacement) steps of serializers/nt.py:_quote_encode, recovered by probing single characters
"""
from __future__ import annotations

import re


def cstr(s):
    return "[" + "; ".join(f"{ord(c)}%N" for c in s) + "]"


def render(rdflib) -> str:
    from rdflib import compat, term
    from rdflib.plugins.parsers import ntriples
    from rdflib.plugins.serializers import nt

    k = ntriples.uriref.rfind("[^")
    e = ntriples.uriref.find("]", k)
    cls = re.compile("[" + ntriples.uriref[k + 2:e] + "]") if 0 <= k < e else re.compile(r'[\s"<>]')
    refused = [i for i in range(0x110000) if not (0xD800 <= i <= 0xDFFF) and cls.match(chr(i))]
    isspace = [i for i in range(0x110000) if chr(i).isspace()]
    out = []
    out.append("Definition uriref_refused : list N := [" + "; ".join(f"{i}%N" for i in refused) + "].")
    out.append("Definition py_isspace : list N := [" + "; ".join(f"{i}%N" for i in isspace) + "].")
    out.append("Definition invalid_uri : list N := " + cstr(term._invalid_uri_chars) + ".")
    out.append("Definition nt_escapes : list (N * N) := ["
               + "; ".join(f"({ord(k)}%N, {ord(v)}%N)" for k, v in compat._string_escape_map.items()) + "].")
    # which single characters does the N-Triples writer rewrite, and into what
    steps = []
    for i in list(range(0x80)) + [0x85, 0xA0, 0x2028]:
        enc = nt._quote_encode(chr(i))[1:-1]
        if enc != chr(i):
            steps.append((i, enc))
    out.append("Definition nt_quote_table : list (N * list N) := ["
               + "; ".join(f"({i}%N, {cstr(e)})" for i, e in steps) + "].")
    lit = term.Literal
    steps = []
    for i in list(range(0x80)) + [0x85, 0xA0, 0x2028]:
        if i == 10:
            continue
        enc = lit(chr(i))._quote_encode()[1:-1]
        if enc != chr(i):
            steps.append((i, enc))
    out.append("Definition n3_short_quote_table : list (N * list N) := ["
               + "; ".join(f"({i}%N, {cstr(e)})" for i, e in steps) + "].")
    return "\n".join(out) + "\n"
