"""C15 - query answers do not depend on how the query is written, prepared or stored.

Every C04 case is posed in several ways on the real rdflib; the observations are
grouped, and inside a group all answers must be the same multiset of solutions
(coq/Sparql/Variants.v: spec_ok15).  Variants with an algebra of their own
(permuted triple patterns, swapped join/union operands, renamed variables) are
also evaluated by the C04 model; the others (prefix spellings, prepared query
evaluated three times on alternating graphs, back ends, initBindings) have no
counterpart in a pure model - for them this is conformance testing only: state
leaking between evaluations of one prepared Query object cannot be exhibited by
a pure function."""
from __future__ import annotations

import copy
import warnings

from .core import Suite, cN, clist, ctuple
from . import c04
from .c04 import (C04, Unmodelled, c_alg, c_graph, c_tpat, r_group, render, term, term_id, translate_query, var_id,
                  visible_vars)

warnings.filterwarnings("ignore", category=DeprecationWarning)
from rdflib import Dataset, Graph, URIRef, Variable  # noqa: E402
from rdflib.graph import ReadOnlyGraphAggregate  # noqa: E402
from rdflib.plugins.sparql import prepareQuery  # noqa: E402
from rdflib.plugins.stores.auditable import AuditableStore  # noqa: E402
from rdflib.plugins.stores.memory import Memory, SimpleMemory  # noqa: E402

JOINABLE = ("bgp", "group", "union", "graph", "values", "sub")


# ---------------------------------------------------------------- AST rewritings
def map_groups(g, f):
    """apply f to every group (bottom-up), returning a new AST"""
    els = []
    for x in g[1]:
        k = x[0]
        if k in ("opt", "minus"):
            els.append([k, map_groups(x[1], f)])
        elif k == "union":
            els.append(["union"] + [map_groups(h, f) for h in x[1:]])
        elif k == "graph":
            els.append(["graph", x[1], map_groups(x[2], f)])
        elif k == "sub":
            els.append(["sub", x[1], x[2], map_groups(x[3], f)] + list(x[4:]))
        elif k == "group":
            els.append(map_groups(x, f))
        elif k == "filter":
            els.append(["filter", map_expr(x[1], f)])
        elif k == "bind":
            els.append(["bind", map_expr(x[1], f), x[2]])
        else:
            els.append(copy.deepcopy(x))
    return f(["group", els])


def map_expr(e, f):
    k = e[0]
    if k == "exists":
        return ["exists", e[1], map_groups(e[2], f)]
    if k in ("and", "or"):
        return [k, map_expr(e[1], f), map_expr(e[2], f)]
    if k == "not":
        return ["not", map_expr(e[1], f)]
    if k == "cmp":
        return ["cmp", e[1], map_expr(e[2], f), map_expr(e[3], f)]
    if k == "in":
        return ["in", e[1], map_expr(e[2], f), list(e[3])]
    if k == "coalesce":
        return ["coalesce", map_expr(e[1], f), map_expr(e[2], f)]
    if k == "if":
        return ["if", map_expr(e[1], f), map_expr(e[2], f), map_expr(e[3], f)]
    return list(e)


def permute_triples(q, rng):
    def f(g):
        for x in g[1]:
            if x[0] == "bgp":
                rng.shuffle(x[1])
        return g
    return map_groups(q, f)


def swap_operands(q, rng):
    def f(g):
        els = g[1]
        for x in els:
            if x[0] == "union" and rng.random() < 0.8:
                x[1], x[2] = x[2], x[1]
        idx = [i for i in range(len(els) - 1) if els[i][0] in JOINABLE and els[i + 1][0] in JOINABLE]
        if idx and rng.random() < 0.8:
            i = rng.choice(idx)
            els[i], els[i + 1] = els[i + 1], els[i]
        return g
    return map_groups(q, f)


def rename_ast(q, ren):
    def rv(v):
        return ren.get(v, v)

    def rt(x):
        return -rv(-x) if x < 0 else x

    def re_(e):
        k = e[0]
        if k == "var":
            return ["var", rv(e[1])]
        if k == "bound":
            return ["bound", rv(e[1])]
        if k == "exists":
            return ["exists", e[1], rg(e[2])]
        if k in ("and", "or"):
            return [k, re_(e[1]), re_(e[2])]
        if k == "not":
            return ["not", re_(e[1])]
        if k == "cmp":
            return ["cmp", e[1], re_(e[2]), re_(e[3])]
        if k == "in":
            return ["in", e[1], re_(e[2]), list(e[3])]
        if k == "coalesce":
            return ["coalesce", re_(e[1]), re_(e[2])]
        if k == "if":
            return ["if", re_(e[1]), re_(e[2]), re_(e[3])]
        return list(e)

    def rg(g):
        els = []
        for x in g[1]:
            k = x[0]
            if k == "bgp":
                els.append(["bgp", [[rt(t) for t in tp] for tp in x[1]]])
            elif k in ("opt", "minus"):
                els.append([k, rg(x[1])])
            elif k == "union":
                els.append(["union"] + [rg(h) for h in x[1:]])
            elif k == "graph":
                els.append(["graph", rt(x[1]), rg(x[2])])
            elif k == "sub":
                els.append(["sub", x[1], sorted(rv(v) for v in x[2]), rg(x[3])] + list(x[4:]))
            elif k == "group":
                els.append(rg(x))
            elif k == "filter":
                els.append(["filter", re_(x[1])])
            elif k == "bind":
                els.append(["bind", re_(x[1]), rv(x[2])])
            elif k == "values":
                els.append(["values", [rv(v) for v in x[1]], copy.deepcopy(x[2])])
        return ["group", els]

    return rg(q)


def has_kind(g, kind):
    found = []

    def f(h):
        if any(x[0] == kind for x in h[1]):
            found.append(1)
        return h
    map_groups(g, f)
    return bool(found)


# ---------------------------------------------------------------- helpers
def _rows(res, ren=None, dedup=False):
    rows = []
    for b in res.bindings:
        row = []
        for k, v in b.items():
            vid = var_id(k)
            if ren is not None:
                vid = ren[vid]
            row.append([vid, term_id(v)])
        rows.append(sorted(row))
    rows = sorted(rows)
    if dedup:
        out = []
        for r in rows:
            if not out or out[-1] != r:
                out.append(r)
        rows = out
    return {"sel": rows}


def _q(store, text, ren=None, dedup=False, **kw):
    try:
        return _rows(store.query(text, **kw), ren, dedup)
    except Exception as e:  # noqa: BLE001
        return {"err": type(e).__name__}


def _expr_vars(q):
    """variables mentioned by FILTER / BIND expressions anywhere"""
    out = set()

    def walk_e(e):
        if e[0] in ("var", "bound"):
            out.add(e[1])
        elif e[0] in ("and", "or"):
            walk_e(e[1]), walk_e(e[2])
        elif e[0] == "not":
            walk_e(e[1])
        elif e[0] == "cmp":
            walk_e(e[2]), walk_e(e[3])
        elif e[0] == "in":
            walk_e(e[2])
        elif e[0] == "coalesce":
            walk_e(e[1]), walk_e(e[2])
        elif e[0] == "if":
            walk_e(e[1]), walk_e(e[2]), walk_e(e[3])

    def f(h):
        for x in h[1]:
            if x[0] in ("filter", "bind"):
                walk_e(x[1])
        return h
    map_groups(q, f)
    return out


def c_group(base, vs, same, kind):
    return ("{| g_base := " + base + "; g_vars := " + clist(vs) + f"; g_same := {cN(same)}; g_kind := {kind} |}}")


def gen_select_base(c04suite, rng, i, allow_offset=False):
    while True:
        b = c04suite.gen(rng, i)
        if b["form"] == "select" and (allow_offset or not b.get("offset")):
            break
    b.pop("ns", None)
    if not b.get("offset"):
        b["proj"] = None        # an OFFSET case keeps its projection onto an unbound variable: only the NUMBER of rows is defined
    return b


# ---------------------------------------------------------------- suite 1: rewritings
class C15(Suite):
    name = "variants"
    imports = "From RV Require Import Sparql.Variants.\nSet Printing Width 1000000."
    case_ty = "vcase"
    obs_ty = "vobs"
    model = "model_obs15"
    oeq = "obs_eqb15"
    spec = "spec_ok15"
    kf = "kf15"
    kf_ids = {1: "F-C15-1"}
    corr = "Graph.query / Dataset.query, evaluate.evalQuery (initBindings), algebra.reorderTriples/analyse/translate, sparql.FrozenDict (hash/eq of solutions under DISTINCT and the hash join)"
    quick_n = 150
    thorough_n = 3000
    timeout_s = 20.0

    def __init__(self):
        self.base = C04()

    # case = {"base": c04case (SELECT [DISTINCT] *), "perm": q, "swap": q, "ren": {"map": {v: w}, "q": q},
    #         "init": None | {"var": v, "term": t}}
    def gen(self, rng, i):
        b = gen_select_base(self.base, rng, i, allow_offset=True)
        if rng.random() < 0.08:
            # a sub-SELECT with OFFSET (no LIMIT) next to a pattern that shares its variable: written pattern-first
            # and sub-SELECT-first (the swap), shuffled, renamed - the number of solutions must not change
            b = self.base.gen_offset({"rng": rng, "subs": sorted(rng.sample([1, 2, 3], rng.choice([2, 3]))),
                                      "objs": sorted(rng.sample([1, 2, 10, 11, 12], 3))})
        q = b["q"]
        nv = max([abs(v) for v in _all_vars(q)] + [1])
        vs = list(range(1, nv + 2))
        sh = vs[:]
        rng.shuffle(sh)
        ren = {str(v): w for v, w in zip(vs, sh)}
        case = {"base": b,
                "perm": permute_triples(q, rng),
                "swap": swap_operands(q, rng),
                "ren": {"map": ren, "q": rename_ast(q, {int(k): v for k, v in ren.items()})},
                "init": None}
        # initBindings: a variable of the outermost BGP, no sub-query anywhere
        first = q[1][0]
        if first[0] == "bgp" and not has_kind(q, "sub") and rng.random() < 0.7:
            cands = sorted({-t for tp in first[1] for t in tp if t < 0})
            if cands:
                terms = sorted({t[0] for t in b["default"]} | {t[2] for t in b["default"]})
                if terms:
                    case["init"] = {"var": rng.choice(cands), "term": rng.choice(terms)}
        return case

    def run_impl(self, case):
        b = case["base"]
        text = render(b)
        for qq in (b["q"], case["perm"], case["swap"], case["ren"]["q"]):
            try:
                translate_query(render(dict(b, q=qq)))
            except Exception as e:  # noqa: BLE001
                return [[{"err": "unmodelled: " + type(e).__name__}]]
        store = self.base.build(b)
        # group 1: the rewritings that keep the variable names (region of the tie theorem
        # C15_main_partial); group 2: the base again (the same observation) and the renamed query
        g1 = [_q(store, text)]
        g1.append(_q(store, render(dict(b, q=case["perm"]))))
        g1.append(_q(store, render(dict(b, q=case["swap"]))))
        inv = {w: int(v) for v, w in case["ren"]["map"].items()}
        g2 = [g1[0], _q(store, render(dict(b, q=case["ren"]["q"])), ren=inv)]
        groups = [g1, g2]
        if case["init"]:
            v, t = case["init"]["var"], case["init"]["term"]
            qv = ["group", b["q"][1] + [["values", [v], [[t]]]]]
            groups.append([_q(store, render(dict(b, q=qv))),
                           _q(store, text, initBindings={Variable(f"v{v}"): term(t)})])
        return groups

    def coq_case(self, case):
        b = case["base"]
        base = self.base.coq_case(b)
        inv = sorted((w, int(v)) for v, w in case["ren"]["map"].items())
        vs = [
            ctuple(self.base.coq_case(dict(b, q=case["perm"])), "[]"),
            ctuple(self.base.coq_case(dict(b, q=case["swap"])), "[]"),
        ]
        vr = [ctuple(self.base.coq_case(dict(b, q=case["ren"]["q"])), clist(ctuple(cN(a), cN(c)) for a, c in inv))]
        groups = [c_group(base, vs, 0, "GNormal"), c_group(base, vr, 0, "GNormal")]
        if case.get("_first_only"):
            return clist(groups[:1])
        if case["init"]:
            v, t = case["init"]["var"], case["init"]["term"]
            qv = ["group", b["q"][1] + [["values", [v], [[t]]]]]
            groups.append(c_group(self.base.coq_case(dict(b, q=qv)), [], 0, "(GInit " + clist([cN(v)]) + ")"))
        return clist(groups)

    def coq_obs(self, obs):
        # the implementation's observation fills every slot
        return clist(clist("(Some " + self.base.coq_obs(o) + ")" for o in g) for g in obs)

    def on_timeout(self, case):
        return [[{"err": "timeout"}]]

    def nontrivial(self, case, obs):
        return bool(obs) and any(o.get("sel") for o in obs[0])

    def features(self, case, obs):
        return {"with_initBindings": int(bool(case["init"])), "dataset": int(case["base"]["ds"]),
                "distinct": int(case["base"].get("modifier") == "DISTINCT"),
                "observations": sum(len(g) for g in obs),
                "groups_all_spellings_raise": sum(1 for g in obs if g and all("err" in o for o in g)),
                "nonempty": int(bool(obs) and bool(obs[0][0].get("sel")))}

    def shrink(self, case):
        b = case["base"]
        for i in range(len(b["default"])):
            nb = dict(b, default=b["default"][:i] + b["default"][i + 1:])
            yield dict(case, base=nb)
        if case["init"]:
            yield dict(case, init=None)
        for q in c04.shrink_group(b["q"]):
            nb = dict(b, q=q)
            ren = {int(k): v for k, v in case["ren"]["map"].items()}
            c = dict(case, base=nb, perm=q, swap=q, ren={"map": case["ren"]["map"], "q": rename_ast(q, ren)})
            if c["init"]:
                first = q[1][0] if q[1] else ["x"]
                if first[0] != "bgp" or -c["init"]["var"] not in [t for tp in first[1] for t in tp]:
                    c["init"] = None
            yield c
        yield dict(case, perm=b["q"])
        yield dict(case, swap=b["q"])


# ---------------------------------------------------------------- suite 2: one query, many ways of running it
class C15Same(Suite):
    """Observations of ONE algebra: spellings, back ends, DISTINCT/REDUCED against the de-duplicated plain
    answer, and a sequence of evaluations of one prepared Query object - with and without initBindings, on
    two graphs - each compared with freshly parsed text given the same initBindings.  No finding applies
    here (no trigger predicate): whatever the evaluator does, it must do the same each time."""
    name = "same_query"
    imports = "From RV Require Import Sparql.Variants.\nSet Printing Width 1000000."
    case_ty = "vcase"
    obs_ty = "vobs"
    model = "model_obs15"
    oeq = "obs_eqb15"
    spec = "spec_ok15"
    corr = ("prepareQuery + Graph.query(prepared, initBindings=...) repeatedly on one Query object, SPARQLProcessor.query, "
            "sparql.FrozenBindings.forget/FrozenDict.__hash__, evalDistinct/evalReduced, back ends Memory / SimpleMemory / "
            "AuditableStore / ReadOnlyGraphAggregate")
    quick_n = 110
    thorough_n = 2500
    timeout_s = 30.0

    def __init__(self):
        self.base = C04()

    # case = {"base": c04case, "alt": triples, "seq": [[graph 0|1, None | [var, term]] ...]}
    def gen(self, rng, i):
        r = rng.random()
        inter = None
        if r < 0.25:
            b = self.gen_nested_filter(rng, i)
        elif r < 0.45:
            b, inter = self.gen_chain(rng, i)
        elif r < 0.60:
            b = self.gen_varpred(rng, i)
        else:
            b = gen_select_base(self.base, rng, i)
        q = b["q"]
        alt = [t for t in b["default"] if rng.random() < 0.5] + ([[1, 4, 2]] if rng.random() < 0.5 else [])
        alt = sorted([list(t) for t in {tuple(t) for t in alt}])
        allv = sorted(_all_vars(q)) or [1]
        ev = sorted(_expr_vars(q))
        terms = sorted({t[0] for t in b["default"]} | {t[2] for t in b["default"]}) or [1]

        def init():
            v = rng.choice(ev) if ev and rng.random() < 0.75 else rng.choice(allv)
            return [v, rng.choice(terms)]

        i1, i2 = init(), init()
        seq = [[0, None], [0, i1], [0, None], [1, None], [1, i2], [0, None]]
        if rng.random() < 0.3:
            seq.insert(2, [0, i2])
        # two evaluations of the one prepared object in flight at the same time:
        # A (initBindings a) is started and k rows are taken, B (initBindings b) runs
        # to the end, then A is finished
        if inter is None:
            inter = {"a": i1, "b": i2, "k": rng.choice([1, 1, 2])}
        return {"base": b, "alt": alt, "seq": seq, "inter": inter}

    def gen_chain(self, rng, i):
        """a BGP chain ?1 P ?2 . ?2 Q ?3 [. ?3 R ?4] whose ends are pre-bound by different
        initBindings (so that the run-time sort orders its patterns differently)"""
        b = gen_select_base(self.base, rng, i)
        b["ds"], b["named"] = False, []
        ts = b["default"]
        nodes = sorted({t[0] for t in ts})
        extra = []
        for t in list(ts):
            if t[2] in (1, 2, 3) and rng.random() < 0.8:
                extra.append([t[2], rng.choice([4, 5]), rng.choice(nodes + [t[0]])])
        ts = sorted([list(t) for t in {tuple(t) for t in ts + extra}])
        b["default"] = ts
        t1 = rng.choice(ts)
        nxt = [t for t in ts if t[0] == t1[2]]
        t2 = rng.choice(nxt) if nxt else rng.choice(ts)
        tps = [[-1, t1[1], -2], [-2, t2[1], -3]]
        last = 3
        nxt3 = [t for t in ts if t[0] == t2[2]]
        if nxt3 and rng.random() < 0.4:
            t3 = rng.choice(nxt3)
            tps.append([-3, t3[1], -4])
            last = 4
        rng.shuffle(tps)
        b["q"] = ["group", [["bgp", tps]]]
        b["modifier"] = None
        ends = {1: t1[0], last: (t2[2] if last == 3 else t3[2])}
        a, bb = ([1, ends[1]], [last, ends[last]])
        if rng.random() < 0.5:
            a, bb = bb, a
        return b, {"a": a, "b": bb, "k": 1}

    def gen_varpred(self, rng, i):
        """a variable predicate between two nodes that are constant or already bound:
        the store is asked the (s, ?, o) shape"""
        b = gen_select_base(self.base, rng, i)
        b["ds"], b["named"] = False, []
        ts = b["default"]
        t1 = rng.choice(ts)
        r = rng.random()
        if r < 0.15:
            # a GROUND pattern next to the open one: fully bound when the store is asked (the shape (s, p, o));
            # chosen without consuming random numbers
            t2 = ts[(ts.index(t1) + 1) % len(ts)]
            tps = [[-1, t1[1], -2], list(t2)]
        elif r < 0.35:
            tps = [[-1, t1[1], -2], [-2, -3, -1]]
        elif r < 0.6:
            tps = [[-1, t1[1], -2], [-1, -3, -2]]
        elif r < 0.8:
            tps = [[t1[0], -3, t1[2]]]
        else:
            tps = [[t1[2], -3, t1[0]], [-1, t1[1], t1[2]]]
        rng.shuffle(tps)
        b["q"] = ["group", [["bgp", tps]]]
        b["modifier"] = None
        return b

    def gen_nested_filter(self, rng, i):
        """{ ?s :p ?v . { ?s :q ?w FILTER/BIND mentioning ?v } }: ?v is out of scope in the inner group;
        or mentioning ?s / ?w: the join variable that the lazy join pushes in and the group binds itself"""
        b = gen_select_base(self.base, rng, i)
        ts = b["default"]
        t1 = rng.choice(ts)
        same_s = [t for t in ts if t[0] == t1[0]] or ts
        t2 = rng.choice(same_s)
        const = rng.choice([t1[2]] + [t[2] for t in ts])
        op = rng.choice(["=", "=", "!=", "<", ">"])
        fv = rng.choice([2, 2, 1, 1, 1, 3])
        if fv == 1:
            # the join variable, compared with a subject of the data by = / != (< > on IRIs raise for every spelling)
            const = rng.choice([t1[0]] + [t[0] for t in ts])
            if op in ("<", ">"):
                op = "="
        if rng.random() < 0.6:
            inner = [["bgp", [[-1, t2[1], -3]]], ["filter", ["cmp", op, ["var", fv], ["con", const]]]]
        else:
            e = ["var", fv] if rng.random() < 0.5 else ["cmp", op, ["var", fv], ["con", const]]
            inner = [["bgp", [[-1, t2[1], -3]]], ["bind", e, 4]]
        b["q"] = ["group", [["bgp", [[-1, t1[1], -2]]], ["group", inner]]]
        b["modifier"] = None
        return b

    def stores(self, case):
        b = case["base"]
        alt_case = dict(b, default=case["alt"], named=[[n, []] for n, _ in b["named"]])
        return [self.base.build(b), self.base.build(alt_case)], [b, alt_case]

    def backends(self, b):
        out = []
        if b["ds"]:
            return out
        triples = [tuple(term(x) for x in t) for t in b["default"]]
        g = Graph(store=SimpleMemory())
        for t in triples:
            g.add(t)
        out.append(g)
        g = Graph(store=AuditableStore(Memory()))
        for t in triples:
            g.add(t)
        out.append(g)
        m1, m2 = Graph(), Graph()
        for k, t in enumerate(triples):
            (m1 if k % 2 == 0 else m2).add(t)
        out.append(ReadOnlyGraphAggregate([m1, m2]))
        g = Graph(store=AuditableStore(SimpleMemory()))
        for t in triples:
            g.add(t)
        out.append(g)
        m1, m2 = Graph(store=SimpleMemory()), Graph(store=SimpleMemory())
        for k, t in enumerate(triples):
            (m1 if k % 3 == 0 else m2).add(t)
        out.append(ReadOnlyGraphAggregate([m1, m2]))
        return out

    N_BACKENDS = 5

    @staticmethod
    def _partial(store, q, k, between=None, **kw):
        """start an evaluation, take k rows from the lazily produced result, optionally
        run something else, then take the rest"""
        try:
            res = store.query(q, **kw)
            it = iter(res)
            for _ in range(k):
                try:
                    next(it)
                except StopIteration:
                    break
            mid = between() if between else None
            return _rows(res), mid
        except Exception as e:  # noqa: BLE001
            return {"err": type(e).__name__}, None

    def run_impl(self, case):
        b = case["base"]
        text = render(b)
        try:
            translate_query(text)
            translate_query(render(dict(b, modifier="DISTINCT")))
        except Exception as e:  # noqa: BLE001
            return [[{"err": "unmodelled: " + type(e).__name__}]]
        (store, alt), _ = self.stores(case)
        mod = (b.get("modifier") + " ") if b.get("modifier") else ""
        # group A: the same algebra, spelled and stored differently
        ga = [_q(store, text),
              _q(store, "PREFIX e: <http://e/> SELECT " + mod + "* WHERE " + _prefixed(b["q"], "e:", "e:")),
              _q(store, "BASE <http://e/> SELECT " + mod + "* WHERE " + r_group(b["q"]).replace("<http://e/", "<")),
              # two prefixes declared for one namespace, both used (finding F-C15-2, fixed by 31664039)
              _q(store, "PREFIX x: <http://e/> PREFIX : <http://e/> SELECT " + mod + "* WHERE " + _prefixed(b["q"], "x:", ":"))]
        for st in self.backends(b):
            ga.append(_q(st, text))
        # the same text with a prefix that the text does not declare: bound on the queried graph / given as initNs,
        # each time after the SAME text has been posed with that prefix standing for another namespace
        t_e = "SELECT " + mod + "* WHERE " + _prefixed(b["q"], "e:", "e:")
        decoy = Graph()
        decoy.bind("e", "http://decoy.example/")
        decoy.add((URIRef("http://decoy.example/a"), URIRef("http://decoy.example/p"), URIRef("http://decoy.example/b")))
        _q(decoy, t_e)
        store.bind("e", "http://e/")
        ga.append(_q(store, t_e))
        t_v = "SELECT " + mod + "* WHERE " + _prefixed(b["q"], "voc:", "voc:")
        _q(decoy, t_v, initNs={"voc": "http://decoy.example/"})
        ga.append(_q(store, t_v, initNs={"voc": "http://e/"}))
        # group B: DISTINCT = REDUCED (as sets) = the plain answer de-duplicated by the harness
        gb = [_q(store, render(dict(b, modifier="DISTINCT"))),
              _q(store, render(dict(b, modifier="REDUCED")), dedup=True),
              _q(store, render(dict(b, modifier=None)), dedup=True)]
        groups = [ga, gb]
        if not b["ds"]:
            # group C: the query on an EMPTY graph - a graph of its own, and a graph that shares its store with
            # a sibling holding the data, seen plainly and through the auditable wrapper
            shared = Memory()
            sib = Graph(store=shared, identifier=URIRef("http://e/sibling"))
            for t in b["default"]:
                sib.add(tuple(term(x) for x in t))
            x_id = URIRef("http://e/empty")
            groups.append([_q(Graph(), text), _q(Graph(store=shared, identifier=x_id), text),
                           _q(Graph(store=AuditableStore(shared), identifier=x_id), text)])
        # the sequence on ONE prepared object
        try:
            pq = prepareQuery(text)
        except Exception as e:  # noqa: BLE001
            return [[{"err": "prepare: " + type(e).__name__}]]
        sts = [store, alt]
        for gi, ib in case["seq"]:
            kw = {} if ib is None else {"initBindings": {Variable(f"v{ib[0]}"): term(ib[1])}}
            fresh = _q(sts[gi], text, **kw)
            prep = _q(sts[gi], pq, **kw)
            groups.append([fresh, prep])
        # interleaved evaluations of the one prepared object
        it = case.get("inter")
        if it:
            kwa = {"initBindings": {Variable(f"v{it['a'][0]}"): term(it["a"][1])}}
            kwb = {"initBindings": {Variable(f"v{it['b'][0]}"): term(it["b"][1])}}
            fresh_a, _ = self._partial(store, text, it["k"], **kwa)
            fresh_b = _q(store, text, **kwb)
            prep_a, prep_b = self._partial(store, pq, it["k"], between=lambda: _q(store, pq, **kwb), **kwa)
            groups.append([fresh_a, prep_a])
            groups.append([fresh_b, prep_b if prep_b is not None else {"err": "not run"}])
        return groups

    def coq_case(self, case):
        b = case["base"]
        _, cs = self.stores(case)
        base = self.base.coq_case(b)
        n_same = 3 + (0 if b["ds"] else self.N_BACKENDS) + 2
        groups = [c_group(base, [], n_same, "GNormal"),
                  c_group(self.base.coq_case(dict(b, modifier="DISTINCT")), [], 2, "GNormal")]
        if not b["ds"]:
            groups.append(c_group(self.base.coq_case(dict(b, default=[])), [], 2, "GNormal"))
        coq_by_graph = [base, self.base.coq_case(cs[1])]
        for gi, ib in case["seq"]:
            if ib is None:
                groups.append(c_group(coq_by_graph[gi], [], 1, "GNormal"))
            else:
                groups.append(c_group(coq_by_graph[gi], [], 0, "GNoModel"))
        if case.get("inter"):
            groups.append(c_group(base, [], 0, "GNoModel"))
            groups.append(c_group(base, [], 0, "GNoModel"))
        return clist(groups)

    def coq_obs(self, obs):
        # the implementation's observation fills every slot
        return clist(clist("(Some " + self.base.coq_obs(o) + ")" for o in g) for g in obs)

    def on_timeout(self, case):
        return [[{"err": "timeout"}]]

    def nontrivial(self, case, obs):
        return len(obs) > 2 and any(o.get("sel") for g in obs for o in g)

    def features(self, case, obs):
        f = {"dataset": int(case["base"]["ds"]), "steps": len(case["seq"]),
             "observations": sum(len(g) for g in obs),
             "groups_all_spellings_raise": sum(1 for g in obs if g and all("err" in o for o in g)),
             "init_answers_nonempty": sum(1 for (gi, ib), g in zip(case["seq"], obs[(2 if case["base"]["ds"] else 3):]) if ib is not None and g[0].get("sel")),
             "nonempty": int(bool(obs) and bool(obs[0][0].get("sel")))}
        return f

    def shrink(self, case):
        b = case["base"]
        for i in range(len(b["default"])):
            yield dict(case, base=dict(b, default=b["default"][:i] + b["default"][i + 1:]))
        for i in range(len(case["alt"])):
            yield dict(case, alt=case["alt"][:i] + case["alt"][i + 1:])
        for i in range(len(case["seq"])):
            if len(case["seq"]) > 1:
                yield dict(case, seq=case["seq"][:i] + case["seq"][i + 1:])
        if b.get("modifier"):
            yield dict(case, base=dict(b, modifier=None))
        if case.get("inter"):
            yield dict(case, inter=None)
        for q in c04.shrink_group(b["q"]):
            yield dict(case, base=dict(b, q=q))


def _all_vars(g):
    out = set()

    def f(h):
        for x in h[1]:
            if x[0] == "bgp":
                out.update(-t for tp in x[1] for t in tp if t < 0)
            elif x[0] == "values":
                out.update(x[1])
            elif x[0] == "bind":
                out.add(x[2])
            elif x[0] == "graph" and x[1] < 0:
                out.add(-x[1])
            elif x[0] == "sub":
                out.update(x[2])
        return h
    map_groups(g, f)

    def walk_e(e):
        if e[0] in ("var", "bound"):
            out.add(e[1])
        elif e[0] in ("and", "or"):
            walk_e(e[1]), walk_e(e[2])
        elif e[0] == "not":
            walk_e(e[1])
        elif e[0] == "cmp":
            walk_e(e[2]), walk_e(e[3])
        elif e[0] == "in":
            walk_e(e[2])
        elif e[0] == "coalesce":
            walk_e(e[1]), walk_e(e[2])
        elif e[0] == "if":
            walk_e(e[1]), walk_e(e[2]), walk_e(e[3])

    def g2(h):
        for x in h[1]:
            if x[0] == "filter":
                walk_e(x[1])
            elif x[0] == "bind":
                walk_e(x[1])
        return h
    map_groups(g, g2)
    return out


def _prefixed(q, p1, p2):
    """render with IRIs spelled through two different prefixes, alternating"""
    text = r_group(q)
    out, i, n = [], 0, 0
    while True:
        j = text.find("<http://e/", i)
        if j < 0:
            out.append(text[i:])
            break
        k = text.find(">", j)
        out.append(text[i:j])
        out.append((p1 if n % 2 == 0 else p2) + text[j + len("<http://e/"):k])
        n += 1
        i = k + 1
    return "".join(out)


# ---------------------------------------------------------------- suite 3: the prepared object itself
class C15Prepared(Suite):
    """The state machine of coq/Sparql/Prepared.v against the real Query object: its algebra tree (with the
    annotations and the order of every BGP's triple patterns) is converted to the Coq type after EVERY evaluation
    - sequential ones with and without initBindings on two graphs, and two evaluations in flight at the same
    time - and must still be the tree prepareQuery returned."""
    name = "prepared_state"
    imports = "From RV Require Import Sparql.Prepared.\nSet Printing Width 1000000."
    case_ty = "pcase"
    obs_ty = "pobs"
    model = "model_obs_prep"
    oeq = "obs_eqb_prep"
    spec = "spec_ok_prep"
    corr = "prepareQuery; Query.algebra as walked by evaluate.evalQuery / evalPart / FrozenBindings.forget on repeated Graph.query(prepared, initBindings=...)"
    quick_n = 70
    thorough_n = 1200
    timeout_s = 30.0

    def __init__(self):
        self.same = C15Same()

    def gen(self, rng, i):
        return self.same.gen(rng, i)

    @staticmethod
    def snapshot(pq):
        try:
            return c04.t_alg(c04._attr(pq.algebra, "p"))
        except Exception as e:  # noqa: BLE001
            return ["BGP", [[99, 99, 99]]]  # a tree no prepared query has

    def run_impl(self, case):
        b = case["base"]
        text = render(b)
        try:
            translate_query(text)
            pq = prepareQuery(text)
        except Exception:  # noqa: BLE001
            return []
        (store, alt), _ = self.same.stores(case)
        sts = [store, alt]
        snaps = [self.snapshot(pq)]
        for gi, ib in case["seq"]:
            kw = {} if ib is None else {"initBindings": {Variable(f"v{ib[0]}"): term(ib[1])}}
            _q(sts[gi], pq, **kw)
            snaps.append(self.snapshot(pq))
        it = case.get("inter")
        if it:
            kwa = {"initBindings": {Variable(f"v{it['a'][0]}"): term(it["a"][1])}}
            kwb = {"initBindings": {Variable(f"v{it['b'][0]}"): term(it["b"][1])}}

            def between():
                r = _q(store, pq, **kwb)
                snaps.append(self.snapshot(pq))      # while A is still suspended
                return r
            self.same._partial(store, pq, it["k"], between=between, **kwa)
            snaps.append(self.snapshot(pq))
        return snaps

    def coq_case(self, case):
        b = case["base"]
        try:
            alg = c_alg(translate_query(render(b)))
            n = 1 + len(case["seq"]) + (2 if case.get("inter") else 0)
        except Exception:  # noqa: BLE001
            alg, n = "(BGP [])", 0
        return ctuple(alg, cN(n))

    def coq_obs(self, obs):
        return clist(c_alg(a) for a in obs)

    def on_timeout(self, case):
        return []

    def nontrivial(self, case, obs):
        return len(obs) > 1

    def features(self, case, obs):
        return {"snapshots": len(obs)}

    def shrink(self, case):
        return self.same.shrink(case)


class C15Tie(C15):
    """The generator of "variants", its first group only (base, BGPs shuffled, operands swapped), measured
    against the region of the tie theorem C15_main_partial: the trigger of this suite is "kf15 fires, or the
    case is outside tied15" (id 100), so that evidence.coverage.trigger_hits["tie_share"] /
    distribution["tie_share.cases"] is the share of generated rewriting groups the theorem does not cover."""
    name = "tie_share"
    imports = "From RV Require Import Sparql.VariantProofs.\nSet Printing Width 1000000."
    kf = "(fun c => if N.eqb (kf15 c) 0 then (if tied15 c then 0%N else 100%N) else kf15 c)"
    quick_n = 60
    thorough_n = 1500

    def coq_case(self, case):
        return super().coq_case(dict(case, init=None, _first_only=True))

    def coq_obs(self, obs):
        return super().coq_obs(obs[:1])

    def features(self, case, obs):
        return {"cases": 1}


SUITES = [C15(), C15Same(), C15Prepared(), C15Tie()]

TRUSTED = [
    "Coq 8.16.1 kernel and vm_compute",
    "harness/c15.py: the rewritings of the query AST (permutation, operand swap, renaming and its inverse applied to the answers), "
    "the de-duplication of the plain answer used as the reference for DISTINCT/REDUCED (on the harness's own canonical rows, never on "
    "rdflib's hash/eq), harness/c04.py (rendering, algebra conversion, observation)",
    "coq/Sparql/Variants.v: 'every group holds the demanded number of observations (1 + variants + repetitions; 2 for initBindings groups) "
    "and all of them are equal' as the reading of 'does not depend on how the query is written, prepared or stored'; the harness fills every "
    "slot of the implementation's observation (Some), the model leaves the slots it has no counterpart for empty (None)",
    "coq/Sparql/Prepared.v: the algebra tree (annotations and triple-pattern order included) as THE state a prepared Query object keeps; "
    "harness/c15.py C15Prepared.snapshot: conversion of the live object's tree after every evaluation",
]
ASSUMPTIONS = [
    "prefix spellings, prepared-query re-evaluation, back ends and initBindings have no counterpart in the pure model: for these the check "
    "is conformance testing (all observed answers of a group equal, and equal to the model's answer where the model has one); state leaking "
    "between evaluations of one prepared Query object cannot be exhibited by a pure function",
    "initBindings is compared with an added VALUES row only for a variable of the outermost basic graph pattern of a query without sub-SELECT; "
    "in the prepared-query sequences any variable of the query may be given, because there prepared and freshly parsed text get the SAME initBindings",
    "REDUCED is only required to have the same SET of solutions as DISTINCT (its cardinalities are implementation-defined and order-dependent in rdflib)",
    "ReadOnlyGraphAggregate is exercised with disjoint member graphs and without property paths (finding F16 concerns paths, model of C11)",
    "SELECT [DISTINCT] * queries only; the vocabulary of C04",
    "renaming of variables is proved for BGPs (specification and model: C15_rename_bgp, C15_rename_bgp_model) and in the specification for "
    "Join, Union, VALUES, sub-SELECT, DISTINCT, GRAPH over an IRI (C15_rename_partial); through expressions, OPTIONAL, MINUS, GRAPH ?g it is "
    "covered by the renaming variants of suite variants only",
    "store independence is PROVED for the model parametrised by the store's enumeration function (C15_store_independent_partial: any two "
    "enumerations that hand out the matching triples of every pattern each once, every operator except OFFSET) and the hypothesis is proved "
    "for the Memory and SimpleMemory models of C01 (C15_enum_memory, C15_enum_simple; the auditable wrapper through C18_over_memory_refines, "
    "and as the closed theorem C15_enum_auditable for every state reached by any history through the wrapper); a Dataset held as the contexts of one "
    "Memory store is packaged into one enumeration function (C15_enum_dataset, C15_store_dataset_partial: GRAPH patterns included); "
    "that rdflib's evaluator reaches the store only through Graph.triples is the reading of evaluate.evalBGP, and the aggregate "
    "is the bag union of its members (C15_enum_aggregate) = the same data only for disjoint members, which is what the suite builds; "
    "the five real back ends are still exercised by the runs of suite same_query",
    "the tie C15_main_partial covers groups of rewritings that keep the variable names (BGP permutation, UNION swap, join swap, the last two "
    "of a join chain swapped; at any depth outside expressions) when base and variant lie in the proved C04 fragment over data without boolean "
    "literals; suite tie_share measures the share; renaming, prefixes, back ends, prepared objects, initBindings: runs only",
    "C15_prepared_pure_glue / C15_prepared_spec_model_glue hold by definition of the state machine (its step returns the state it was given): "
    "the content of 'evaluation does not change the prepared object' is in the snapshots of suite prepared_state, not in a theorem",
]
RULE = ("suite variants: every generated C04 SELECT case (12 % DISTINCT; 10 % 'twin unions' whose two branches hold the same triple patterns "
        "grouped and ordered differently, so that each solution arrives twice with its variables bound in different orders), posed (a) with "
        "the triple patterns of every BGP shuffled, (b) with union branches and one pair of adjacent join operands per group swapped, (c) with "
        "variables renamed by a random permutation (observed in a group of its own together with the base), (e) with initBindings against a VALUES row, and in 8 % with two prefixes for one namespace; "
        "suite same_query (no trigger predicate): prefix/BASE spellings, SimpleMemory / AuditableStore(Memory) / ReadOnlyGraphAggregate of two "
        "disjoint graphs, AuditableStore(SimpleMemory) and an aggregate of SimpleMemory graphs (15 % of the cases ask a variable predicate "
        "between two bound ends, or a ground triple pattern next to an open one), DISTINCT and REDUCED against the harness-de-duplicated plain answer, two evaluations of one prepared object "
        "in flight at the same time (A started, k rows taken, B with other initBindings run to the end, A finished; 20 % BGP chains whose two "
        "ends are the pre-bound variables), and a sequence of 6-7 evaluations of ONE "
        "prepareQuery object on two graphs, with no / one / another initBindings (30 % of the cases are nested-group FILTER/BIND queries whose "
        "expression mentions a variable that is out of scope there), each step compared with freshly parsed text given the same initBindings; "
        "suite tie_share: the generator of variants, first group only (base, shuffled, swapped), trigger = kf15 or outside tied15; "
        "suite prepared_state: the same cases; after prepareQuery, after every step of the sequence, inside and after the interleaving the "
        "tree of the live Query object is converted and must equal the tree of a fresh prepareQuery; "
        "non-trivial = some observation has a solution")
