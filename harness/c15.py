"""C15 - query answers do not depend on how the query is written, prepared or stored.

Every C04 case is posed in several ways on the real rdflib; the observations are
grouped, and inside a group all answers must be the same multiset of solutions
(coq/Sparql/Variants.v: spec_ok15).  Variants with an algebra of their own
(permuted triple patterns, swapped join/union operands, renamed variables) are
also evaluated by the C04 model; the others (prefix spellings, prepared query
evaluated three times on alternating graphs, back ends, initBindings) have no
counterpart in a pure model - for them this is conformance testing only: state
leaking between evaluations of one prepared Query object cannot be exhibited by
a pure function."""
from __future__ import annotations

import copy
import warnings

from .core import Suite, cN, clist, ctuple
from . import c04
from .c04 import (C04, Unmodelled, c_alg, c_graph, c_tpat, r_group, render, term, term_id, translate_query, var_id,
                  visible_vars)

warnings.filterwarnings("ignore", category=DeprecationWarning)
from rdflib import Dataset, Graph, URIRef, Variable  # noqa: E402
from rdflib.graph import ReadOnlyGraphAggregate  # noqa: E402
from rdflib.plugins.sparql import prepareQuery  # noqa: E402
from rdflib.plugins.stores.auditable import AuditableStore  # noqa: E402
from rdflib.plugins.stores.memory import Memory, SimpleMemory  # noqa: E402

JOINABLE = ("bgp", "group", "union", "graph", "values", "sub")


# ---------------------------------------------------------------- AST rewritings
def map_groups(g, f):
    """apply f to every group (bottom-up), returning a new AST"""
    els = []
    for x in g[1]:
        k = x[0]
        if k in ("opt", "minus"):
            els.append([k, map_groups(x[1], f)])
        elif k == "union":
            els.append(["union"] + [map_groups(h, f) for h in x[1:]])
        elif k == "graph":
            els.append(["graph", x[1], map_groups(x[2], f)])
        elif k == "sub":
            els.append(["sub", x[1], x[2], map_groups(x[3], f)])
        elif k == "group":
            els.append(map_groups(x, f))
        elif k == "filter":
            els.append(["filter", map_expr(x[1], f)])
        elif k == "bind":
            els.append(["bind", map_expr(x[1], f), x[2]])
        else:
            els.append(copy.deepcopy(x))
    return f(["group", els])


def map_expr(e, f):
    k = e[0]
    if k == "exists":
        return ["exists", e[1], map_groups(e[2], f)]
    if k in ("and", "or"):
        return [k, map_expr(e[1], f), map_expr(e[2], f)]
    if k == "not":
        return ["not", map_expr(e[1], f)]
    if k == "cmp":
        return ["cmp", e[1], map_expr(e[2], f), map_expr(e[3], f)]
    return list(e)


def permute_triples(q, rng):
    def f(g):
        for x in g[1]:
            if x[0] == "bgp":
                rng.shuffle(x[1])
        return g
    return map_groups(q, f)


def swap_operands(q, rng):
    def f(g):
        els = g[1]
        for x in els:
            if x[0] == "union" and rng.random() < 0.8:
                x[1], x[2] = x[2], x[1]
        idx = [i for i in range(len(els) - 1) if els[i][0] in JOINABLE and els[i + 1][0] in JOINABLE]
        if idx and rng.random() < 0.8:
            i = rng.choice(idx)
            els[i], els[i + 1] = els[i + 1], els[i]
        return g
    return map_groups(q, f)


def rename_ast(q, ren):
    def rv(v):
        return ren.get(v, v)

    def rt(x):
        return -rv(-x) if x < 0 else x

    def re_(e):
        k = e[0]
        if k == "var":
            return ["var", rv(e[1])]
        if k == "bound":
            return ["bound", rv(e[1])]
        if k == "exists":
            return ["exists", e[1], rg(e[2])]
        if k in ("and", "or"):
            return [k, re_(e[1]), re_(e[2])]
        if k == "not":
            return ["not", re_(e[1])]
        if k == "cmp":
            return ["cmp", e[1], re_(e[2]), re_(e[3])]
        return list(e)

    def rg(g):
        els = []
        for x in g[1]:
            k = x[0]
            if k == "bgp":
                els.append(["bgp", [[rt(t) for t in tp] for tp in x[1]]])
            elif k in ("opt", "minus"):
                els.append([k, rg(x[1])])
            elif k == "union":
                els.append(["union"] + [rg(h) for h in x[1:]])
            elif k == "graph":
                els.append(["graph", rt(x[1]), rg(x[2])])
            elif k == "sub":
                els.append(["sub", x[1], sorted(rv(v) for v in x[2]), rg(x[3])])
            elif k == "group":
                els.append(rg(x))
            elif k == "filter":
                els.append(["filter", re_(x[1])])
            elif k == "bind":
                els.append(["bind", re_(x[1]), rv(x[2])])
            elif k == "values":
                els.append(["values", [rv(v) for v in x[1]], copy.deepcopy(x[2])])
        return ["group", els]

    return rg(q)


def has_kind(g, kind):
    found = []

    def f(h):
        if any(x[0] == kind for x in h[1]):
            found.append(1)
        return h
    map_groups(g, f)
    return bool(found)


# ---------------------------------------------------------------- suite
class C15(Suite):
    name = "variants"
    imports = "From RV Require Import Sparql.Variants.\nSet Printing Width 1000000."
    case_ty = "vcase"
    obs_ty = "vobs"
    model = "model_obs15"
    oeq = "obs_eqb15"
    spec = "spec_ok15"
    kf = "kf15"
    kf_ids = {1: "F-C15-1", 2: "F-C15-2"}
    corr = "Graph.query / Dataset.query, prepareQuery + Graph.query(prepared), SPARQLProcessor.query, evaluate.evalQuery (initBindings), algebra.reorderTriples/analyse, back ends Memory / SimpleMemory / AuditableStore / ReadOnlyGraphAggregate"
    quick_n = 300
    thorough_n = 3000
    timeout_s = 20.0

    def __init__(self):
        self.base = C04()

    # case = {"base": c04case (SELECT), "perm": q, "swap": q, "ren": {"map": {v: w}, "q": q},
    #         "init": None | {"var": v, "term": t}, "alt": [[s,p,o]...] (default graph of the alternate data)}
    def gen(self, rng, i):
        while True:
            b = self.base.gen(rng, i)
            if b["form"] == "select":
                break
        b["proj"] = None
        q = b["q"]
        nv = max([abs(v) for v in _all_vars(q)] + [1])
        vs = list(range(1, nv + 2))
        sh = vs[:]
        rng.shuffle(sh)
        ren = {str(v): w for v, w in zip(vs, sh)}
        case = {"base": b,
                "perm": permute_triples(q, rng),
                "swap": swap_operands(q, rng),
                "ren": {"map": ren, "q": rename_ast(q, {int(k): v for k, v in ren.items()})},
                "init": None,
                "dupprefix": rng.random() < 0.08 and "<http://e/" in r_group(q),
                "alt": None}
        alt = [t for t in b["default"] if rng.random() < 0.5] + ([[1, 4, 2]] if rng.random() < 0.5 else [])
        case["alt"] = sorted([list(t) for t in {tuple(t) for t in alt}])
        # initBindings: a variable of the outermost BGP, no sub-query anywhere
        first = q[1][0]
        if first[0] == "bgp" and not has_kind(q, "sub") and rng.random() < 0.7:
            cands = sorted({-t for tp in first[1] for t in tp if t < 0})
            if cands:
                terms = sorted({t[0] for t in b["default"]} | {t[2] for t in b["default"]})
                if terms:
                    case["init"] = {"var": rng.choice(cands), "term": rng.choice(terms)}
        return case

    # ------------------------------------------------------------ implementation
    def _rows(self, res, ren=None):
        rows = []
        for b in res.bindings:
            row = []
            for k, v in b.items():
                vid = var_id(k)
                if ren is not None:
                    vid = ren[vid]
                row.append([vid, term_id(v)])
            rows.append(sorted(row))
        return {"sel": sorted(rows)}

    def _q(self, store, text, ren=None, **kw):
        try:
            return self._rows(store.query(text, **kw), ren)
        except Exception as e:  # noqa: BLE001
            return {"err": type(e).__name__}

    def variant_case(self, b, q):
        return dict(b, q=q)

    def run_impl(self, case):
        b = case["base"]
        text = render(b)
        for qq in (b["q"], case["perm"], case["swap"], case["ren"]["q"]):
            try:
                translate_query(render(dict(b, q=qq)))
            except Exception as e:  # noqa: BLE001
                return [[{"err": "unmodelled: " + type(e).__name__}]]
        store = self.base.build(b)
        g1 = [self._q(store, text)]
        # (a) (b) (c): own algebra
        g1.append(self._q(store, render(dict(b, q=case["perm"]))))
        g1.append(self._q(store, render(dict(b, q=case["swap"]))))
        inv = {w: int(v) for v, w in case["ren"]["map"].items()}
        g1.append(self._q(store, render(dict(b, q=case["ren"]["q"])), ren=inv))
        # (d) prefix spellings
        g1.append(self._q(store, "PREFIX e: <http://e/> SELECT * WHERE " + _prefixed(b["q"], "e:", "e:")))
        g1.append(self._q(store, "BASE <http://e/> SELECT * WHERE " + r_group(b["q"]).replace("<http://e/", "<")))
        # (f) prepared query, three evaluations on alternating graphs
        alt_case = dict(b, default=case["alt"], named=[[n, []] for n, _ in b["named"]])
        alt = self.base.build(alt_case)
        g3 = [self._q(alt, text)]
        try:
            pq = prepareQuery(text)
            g1.append(self._q(store, pq))
            g3.append(self._q(alt, pq))
            g1.append(self._q(store, pq))
        except Exception as e:  # noqa: BLE001
            g1.append({"err": type(e).__name__})
            g3.append({"err": type(e).__name__})
            g1.append({"err": type(e).__name__})
        # (g) back ends
        for st in self.backends(b):
            g1.append(self._q(st, text))
        groups = [g1]
        # (e) initBindings against a VALUES row
        if case["init"]:
            v, t = case["init"]["var"], case["init"]["term"]
            qv = ["group", b["q"][1] + [["values", [v], [[t]]]]]
            gv = [self._q(store, render(dict(b, q=qv))),
                  self._q(store, text, initBindings={Variable(f"v{v}"): term(t)})]
            groups.append(gv)
        groups.append(g3)
        if case.get("dupprefix"):
            # two prefixes declared for one namespace, both used
            groups.append([g1[0], self._q(store, "PREFIX x: <http://e/> PREFIX : <http://e/> SELECT * WHERE "
                                          + _prefixed(b["q"], "x:", ":"))])
        return groups

    def backends(self, b):
        out = []
        if b["ds"]:
            return out
        triples = [tuple(term(x) for x in t) for t in b["default"]]
        g = Graph(store=SimpleMemory())
        for t in triples:
            g.add(t)
        out.append(g)
        g = Graph(store=AuditableStore(Memory()))
        for t in triples:
            g.add(t)
        out.append(g)
        m1, m2 = Graph(), Graph()
        for i, t in enumerate(triples):
            (m1 if i % 2 == 0 else m2).add(t)
        out.append(ReadOnlyGraphAggregate([m1, m2]))
        return out

    def n_same(self, b):
        return 2 + 2 + (0 if b["ds"] else 3)

    # ------------------------------------------------------------ Coq text
    def coq_case(self, case):
        b = case["base"]
        base = self.base.coq_case(b)
        inv = sorted((w, int(v)) for v, w in case["ren"]["map"].items())
        vs = [
            ctuple(self.base.coq_case(dict(b, q=case["perm"])), "[]"),
            ctuple(self.base.coq_case(dict(b, q=case["swap"])), "[]"),
            ctuple(self.base.coq_case(dict(b, q=case["ren"]["q"])), clist(ctuple(cN(a), cN(c)) for a, c in inv)),
        ]
        groups = ["{| g_base := " + base + "; g_vars := " + clist(vs) + f"; g_same := {cN(self.n_same(b))}; g_pushed := [] |}}"]
        if case["init"]:
            v, t = case["init"]["var"], case["init"]["term"]
            qv = ["group", b["q"][1] + [["values", [v], [[t]]]]]
            groups.append("{| g_base := " + self.base.coq_case(dict(b, q=qv)) + "; g_vars := []; g_same := 1%N; g_pushed := "
                          + clist([cN(v)]) + " |}")
        alt_case = dict(b, default=case["alt"], named=[[n, []] for n, _ in b["named"]])
        groups.append("{| g_base := " + self.base.coq_case(alt_case) + "; g_vars := []; g_same := 1%N; g_pushed := [] |}")
        if case.get("dupprefix"):
            groups.append("{| g_base := " + base + "; g_vars := []; g_same := 1%N; g_pushed := [99%N] |}")
        return clist(groups)

    def coq_obs(self, obs):
        return clist(clist(self.base.coq_obs(o) for o in g) for g in obs)

    def on_timeout(self, case):
        return [[{"err": "timeout"}]]

    def nontrivial(self, case, obs):
        return len(obs) > 1 and any(o.get("sel") for o in obs[0])

    def features(self, case, obs):
        f = {"with_initBindings": int(bool(case["init"])), "dataset": int(case["base"]["ds"]),
             "observations": sum(len(g) for g in obs),
             "nonempty": int(len(obs) > 1 and bool(obs[0][0].get("sel")))}
        return f

    def shrink(self, case):
        b = case["base"]
        for i in range(len(b["default"])):
            nb = dict(b, default=b["default"][:i] + b["default"][i + 1:])
            yield dict(case, base=nb)
        if case["init"]:
            yield dict(case, init=None)
        if case.get("dupprefix"):
            yield dict(case, dupprefix=False)
        for q in c04.shrink_group(b["q"]):
            nb = dict(b, q=q)
            ren = {int(k): v for k, v in case["ren"]["map"].items()}
            c = dict(case, base=nb, perm=q, swap=q, ren={"map": case["ren"]["map"], "q": rename_ast(q, ren)})
            if c["init"]:
                first = q[1][0] if q[1] else ["x"]
                if first[0] != "bgp" or -c["init"]["var"] not in [t for tp in first[1] for t in tp]:
                    c["init"] = None
            yield c
        # keep the query, make one variant equal to the base
        yield dict(case, perm=b["q"])
        yield dict(case, swap=b["q"])


def _all_vars(g):
    out = set()

    def f(h):
        for x in h[1]:
            if x[0] == "bgp":
                out.update(-t for tp in x[1] for t in tp if t < 0)
            elif x[0] == "values":
                out.update(x[1])
            elif x[0] == "bind":
                out.add(x[2])
            elif x[0] == "graph" and x[1] < 0:
                out.add(-x[1])
            elif x[0] == "sub":
                out.update(x[2])
        return h
    map_groups(g, f)

    def walk_e(e):
        if e[0] in ("var", "bound"):
            out.add(e[1])
        elif e[0] in ("and", "or"):
            walk_e(e[1]), walk_e(e[2])
        elif e[0] == "not":
            walk_e(e[1])
        elif e[0] == "cmp":
            walk_e(e[2]), walk_e(e[3])

    def g2(h):
        for x in h[1]:
            if x[0] == "filter":
                walk_e(x[1])
            elif x[0] == "bind":
                walk_e(x[1])
        return h
    map_groups(g, g2)
    return out


def _prefixed(q, p1, p2):
    """render with IRIs spelled through two different prefixes, alternating"""
    text = r_group(q)
    out, i, n = [], 0, 0
    while True:
        j = text.find("<http://e/", i)
        if j < 0:
            out.append(text[i:])
            break
        k = text.find(">", j)
        out.append(text[i:j])
        out.append((p1 if n % 2 == 0 else p2) + text[j + len("<http://e/"):k])
        n += 1
        i = k + 1
    return "".join(out)


SUITES = [C15()]

TRUSTED = [
    "Coq 8.16.1 kernel and vm_compute",
    "harness/c15.py: the rewritings of the query AST (permutation, operand swap, renaming and its inverse applied to the answers), "
    "harness/c04.py (rendering, algebra conversion, observation)",
    "coq/Sparql/Variants.v: equality of all observations of a group as the reading of 'does not depend on how the query is written, prepared or stored'",
]
ASSUMPTIONS = [
    "prefix spellings, prepared-query re-evaluation, back ends and initBindings have no counterpart in the pure model: for these the check "
    "is conformance testing (all observed answers equal, and equal to the model's answer for the one algebra); state leaking between "
    "evaluations of one prepared Query object cannot be exhibited by a pure function",
    "initBindings is compared with an added VALUES row only for a variable of the outermost basic graph pattern of a query without sub-SELECT",
    "ReadOnlyGraphAggregate is exercised with disjoint member graphs and without property paths (finding F16 concerns paths, model of C11)",
    "SELECT * queries only; the vocabulary of C04",
]
RULE = ("every generated C04 SELECT case, posed (a) with the triple patterns of every BGP shuffled, (b) with union branches and one pair of adjacent "
        "join operands per group swapped, (c) with variables renamed by a random permutation, (d) with two prefix spellings, (e) with initBindings "
        "against a VALUES row, (f) as a prepared query evaluated on the graph, on an alternate graph and on the graph again, (g) on SimpleMemory, "
        "AuditableStore(Memory) and a ReadOnlyGraphAggregate of two disjoint graphs; non-trivial = some variant returns a solution")
