"""T1 for C16: the result parser / serializer plugins registered in rdflib/plugin.py, by name, rendered as Coq
tables (coq/Gen/Tables_results.v).  Class tags: 1 JSON, 2 XML, 3 TSV, 4 CSV, 5 TXT, 6 graph result (CONSTRUCT/DESCRIBE)."""
from __future__ import annotations

TAGS = {"JSONResultParser": 1, "XMLResultParser": 2, "TSVResultParser": 3, "CSVResultParser": 4, "GraphResultParser": 6,
        "JSONResultSerializer": 1, "XMLResultSerializer": 2, "CSVResultSerializer": 4, "TXTResultSerializer": 5}


def _s(x):
    return "[" + "; ".join(f"{ord(c)}%N" for c in str(x)) + "]"


def _tab(kind, rdflib):
    import rdflib.plugin as P
    rows = sorted((p.name, TAGS.get(p.getClass().__name__, 0)) for p in P.plugins(None, kind))
    return "[" + ";\n  ".join(f"({_s(n)}, {t}%N)" for n, t in rows) + "]"


def render(rdflib) -> str:
    from rdflib.query import ResultParser, ResultSerializer
    return ("(* plugin.get(name, ResultParser) *)\n"
            "Definition result_parsers : list (list N * N) :=\n  " + _tab(ResultParser, rdflib) + ".\n"
            "(* plugin.get(name, ResultSerializer) *)\n"
            "Definition result_serializers : list (list N * N) :=\n  " + _tab(ResultSerializer, rdflib) + ".\n")
