"""C09 - Literal <-> Python value mapping: correspondence between the Coq models and rdflib/term.py
(Literal.__new__, normalize, eq, __eq__, _castLexicalToPython, _castPythonToLiteral, _well_formed_*, _parseBoolean):
suite `literal` (coq/Literal/Model.v): integer types, boolean, decimal, string family;
suite `binary` (coq/Literal/BinaryModel.v): hexBinary, base64Binary with the hexlify/unhexlify/b64 codecs;
suite `temporal` (coq/Literal/TemporalModel.v): date, time, dateTime on lexical forms of the XSD shape, and
python date/time/datetime values;
suite `double` (coq/Literal/FloatModel.v): xsd:double / xsd:float on the exact fragment - INF, -INF, NaN, signed zero,
integer-valued doubles below 2^53 written without a fraction, and python floats with such values;
suite `conformance` (no Coq model, only an oracle written here): float/double outside that fragment, durations,
language, anyURI, XMLLiteral, bytes, and again date/time/binary forms of any shape."""
from __future__ import annotations

import logging
import math
import re
import warnings
from datetime import date, datetime, time, timedelta, timezone
from decimal import Decimal
from fractions import Fraction

from .core import Suite, cN, cZ, cbool, clist, copt, cstr, import_rdflib

rdflib = import_rdflib()
warnings.filterwarnings("ignore")
logging.getLogger("rdflib.term").setLevel(logging.CRITICAL)
from rdflib import Literal, URIRef  # noqa: E402
from rdflib.namespace import RDF, XSD  # noqa: E402
from rdflib.xsd_datetime import Duration  # noqa: E402

TRUSTED = [
    "Coq 8.16.1 kernel and vm_compute",
    "the XSD sides of coq/Literal/Model.v, BinaryModel.v, TemporalModel.v (lexical spaces, lexical-to-value maps, "
    "xsd_range, denote, seven-property date/time values, the guard in_guard), and of FloatModel.v (the fragment of the "
    "double lexical space, identity vs equality of double values) as a reading of XML Schema part 2",
    "CPython's int(str), Decimal(str), format(Decimal,'f'), str.strip, str.lower, binascii.unhexlify/hexlify, "
    "binascii.a2b_base64 (non-strict) / b64encode, date/time/datetime.fromisoformat / isoformat on forms of the "
    "XSD shape, and float(str) / repr(float) on the exact fragment (specials, signed zero, integers below 2^53), as modelled (character classes reflected from the running interpreter by harness/reflect_literal.py)",
    "harness/c09.py: canonicalisation of python values (type(v) is int/bool/Decimal/str/bytes/date/time/datetime, "
    "Decimal.as_tuple, utcoffset in minutes), and - for the conformance suite only - the XSD oracle written in this file",
    "harness/reflect_literal.py: identification of converters / lexicalisers by object identity and probing of the "
    "_well_formed_* checkers (interval, empty form, accepted forms)",
]
ASSUMPTIONS = [
    "lexical forms have fewer than 4300 digits (CPython's int<->str conversion limit) and Decimal exponents stay "
    "inside the context limits",
    "no language tags; rdflib.NORMALIZE_LITERALS and DAWG_LITERAL_COLLATION at the values reflected / default",
    "sNaN and NaN-with-payload forms of Decimal are outside the model (never generated for the modelled suite)",
    "xsd:float is judged with double precision (rdflib maps both float and double to Python float)",
    "xsd:double / xsd:float OUTSIDE the exact fragment of coq/Literal/FloatModel.v (fractions, negative exponents, "
    "values at or above 2^53, anything that needs rounding or shortest-repr printing), the three duration types, xsd:language, xsd:anyURI, rdf:XMLLiteral, python float/timedelta/Duration/"
    "bytes/Document values, gYear/gYearMonth lexicalisation: DIFFERENTIAL TESTING of rdflib against the oracle written "
    "in this file (suite conformance), no model and no theorem (C09_conformance_glue is bookkeeping only); rdf:HTML is "
    "not a recognised datatype in this installation (no html5rdf)",
    "temporal model: only lexical forms of the XSD shape ([-]Y{4,}-MM-DD, hh:mm:ss[.f+], T separator, Z|+-hh:mm) are "
    "offered to it; python's fromisoformat accepts further ISO 8601 forms, which stay in the conformance suite; "
    "python values: utcoffset in whole minutes of at most 14:00 (python allows up to 23:59, which isoformat() writes "
    "as a zone outside the XSD lexical space); no pairs (eq across different offsets is not modelled)",
    "nothing is demanded about forms outside the lexical space of the datatype (flag, value): the property constrains "
    "valid forms; accepted invalid forms are only counted in the evidence distribution (invalid_form_not_flagged_*, "
    "overaccepted_not_judged_*); 'term equality implies eq' is not demanded of decimals built from invalid forms "
    "(Decimal('NaN') != Decimal('NaN'))",
]
RULE = ("cases are (datatype, lexical form, normalize flag), python values, or pairs of literals; forms are built from "
        "a sign, boundary magnitudes of the datatype, leading zeros, a point/exponent (decimals also with more than 28 "
        "significant digits and a non-zero fraction, and 30-40 digit whole numbers), and decorations (python white "
        "space incl. NBSP/U+3000/U+001C, underscores, non-ASCII digits, junk); distinct by full case content; "
        "non-trivial = the form is in the XSD lexical space or is accepted by the code")

INT_TYPES = ["integer", "nonPositiveInteger", "long", "nonNegativeInteger", "negativeInteger", "int", "unsignedLong",
             "positiveInteger", "short", "unsignedInt", "byte", "unsignedShort", "unsignedByte"]
MODELLED = ["plain"] + INT_TYPES + ["boolean", "decimal", "string", "normalizedString", "token"]
BOUNDS = {"byte": (-128, 127), "unsignedByte": (0, 255), "short": (-32768, 32767), "unsignedShort": (0, 65535),
          "int": (-2 ** 31, 2 ** 31 - 1), "unsignedInt": (0, 2 ** 32 - 1), "long": (-2 ** 63, 2 ** 63 - 1),
          "unsignedLong": (0, 2 ** 64 - 1), "nonPositiveInteger": (None, 0), "negativeInteger": (None, -1),
          "nonNegativeInteger": (0, None), "positiveInteger": (1, None), "integer": (None, None)}


def dt_uri(d):
    return None if d == "plain" else XSD[d]


def coq_dt(d):
    return "DPlain" if d == "plain" else "D" + d[0].upper() + d[1:]


def dt_local(u):
    if u is None:
        return "plain"
    s = str(u)
    return s[len(str(XSD)):] if s.startswith(str(XSD)) else "other:" + s


# ------------------------------------------------------------------ values across the boundary
def canon_val(v):
    if v is None:
        return None
    t = type(v)
    if t is bool:
        return ["bool", v]
    if t is int:
        return ["int", v]
    if t is str:
        return ["str", v]
    if t is Decimal:
        s, digits, e = v.as_tuple()
        if e == "F":
            return ["inf", bool(s)]
        if e == "n" and not digits:
            return ["nan", bool(s)]
        if isinstance(e, int):
            return ["dec", bool(s), int("".join(map(str, digits)) or "0"), e]
    return ["other", repr(v)[:40]]


def py_val(cv):
    k = cv[0]
    if k in ("bool", "int", "str"):
        return cv[1]
    if k == "dec":
        return Decimal((1 if cv[1] else 0, tuple(int(c) for c in str(cv[2])), cv[3]))
    if k == "inf":
        return Decimal("-Infinity" if cv[1] else "Infinity")
    if k == "nan":
        return Decimal("-NaN" if cv[1] else "NaN")
    raise ValueError(cv)


def coq_val(cv):
    k = cv[0]
    if k == "int":
        return f"(VInt {cZ(cv[1])})"
    if k == "bool":
        return f"(VBool {cbool(cv[1])})"
    if k == "str":
        return f"(VStr {cstr(cv[1])})"
    if k == "dec":
        return f"(VDec (DFin {cbool(cv[1])} {cN(cv[2])} {cZ(cv[3])}))"
    if k == "inf":
        return f"(VDec (DInf {cbool(cv[1])}))"
    if k == "nan":
        return f"(VDec (DNaN {cbool(cv[1])}))"
    return "VOther"


def obs_lit(x):
    return {"lex": str.__str__(x), "ill": x.ill_typed, "val": canon_val(x.value)}


def coq_lit(o):
    return ("{| l_lex := " + cstr(o["lex"]) + "; l_ill := " + copt(o["ill"], cbool) + "; l_val := "
            + copt(o["val"], coq_val) + " |}")


def eqres(a, b):
    try:
        r = a.eq(b)
    except TypeError:
        return "ETypeError"
    except Exception:  # noqa: BLE001
        return "EOtherError"
    return "ETrue" if r is True else "EFalse" if r is False else "EOtherError"


# ------------------------------------------------------------------ generators of lexical forms
SPACES = [" ", "\t", "\n", " ", "　", "\x1c", "\r", "\x0b", "\x85"]
ALT_DIGITS = [0x0660, 0xFF10, 0x1D7CE, 0x0966]  # Arabic-Indic, fullwidth, mathematical bold (astral), Devanagari


def alt_digits(rng, s):
    base = rng.choice(ALT_DIGITS)
    return "".join(chr(base + ord(c) - 48) if c.isdigit() and rng.random() < 0.7 else c for c in s)


def magnitudes(rng, d):
    lo, hi = BOUNDS.get(d, (None, None))
    pool = [0, 1, 2, 7, 10, 12, 100, 127, 128, 255, 256, 1000]
    for b in (lo, hi):
        if b is not None:
            pool += [abs(b), abs(b) + 1, abs(b) - 1 if abs(b) else 0] * 3
    if rng.random() < 0.1:
        pool += [2 ** 63, 2 ** 64, 2 ** 64 - 1, 2 ** 31, 10 ** 30, 2 ** 63 - 1, 2 ** 32]
    return pool


def decorate(rng, s):
    """non-XSD decorations the python converters tolerate, and junk"""
    r = rng.random()
    if r < 0.25:
        return rng.choice(SPACES) * rng.choice([1, 2]) + s if rng.random() < 0.5 else s + rng.choice(SPACES)
    if r < 0.35:
        return rng.choice(SPACES) + s + rng.choice(SPACES)
    if r < 0.55 and len(s) > 1:
        i = rng.randrange(0, len(s) + 1)
        return s[:i] + rng.choice(["_", "_", "__"]) + s[i:]
    if r < 0.7:
        return alt_digits(rng, s)
    if r < 0.8 and s:
        i = rng.randrange(0, len(s) + 1)
        return s[:i] + rng.choice([" ", "x", "é", "\x00", ".", "-", "+", "e", "²"]) + s[i:]
    return rng.choice(["", "+", "-", "--1", "+-1", "0x10", "1e3", "1.0", "abc", "1 2", "_", ".", "1.", ".5", "e5", "١٢",
                       "NaN", "inf", "-INF", "Infinity", "nan", "-nan", "true", "false", "1E-2", "1e+5", "0e5", "-0e-2"])


def gen_int_form(rng, d):
    m = rng.choice(magnitudes(rng, d))
    sign = rng.choice(["", "", "", "-", "-", "+"])
    s = sign + "0" * rng.choice([0, 0, 0, 1, 2]) + str(m)
    if rng.random() < 0.3:
        s = decorate(rng, s)
    return s


def gen_dec_form(rng):
    # incl. more than 28 significant digits (python's default context precision) with a non-zero fraction,
    # and long whole numbers written as decimals
    ip = rng.choice(["", "0", "1", "12", "007", "100", "9", "123456789012345678901",
                     "1234567890123456789012345678901", "9" * 40, "1" + "0" * 35])
    fp = rng.choice([None, "", "0", "5", "50", "05", "000", "125", "10",
                     "0" * 28 + "1", "12345678901234567890123456789", "0" * 30, "5" + "0" * 29 + "7", "9" * 33])
    s = rng.choice(["", "", "-", "+"]) + ip + ("" if fp is None else "." + fp)
    r = rng.random()
    if r < 0.15:
        s += rng.choice(["e", "E"]) + rng.choice(["", "+", "-"]) + rng.choice(["0", "1", "2", "5", "", "12"])
    elif r < 0.4:
        s = decorate(rng, s)
    return s


BOOL_FORMS = ["true", "false", "1", "0", "TRUE", "True", "FALSE", "False", "tRuE", " true", "true ", "yes", "no", "",
              "01", "00", "10", "t", "f", "2", "-0", "+1", " 1", "truе", "１", "true\n"]
STR_ATOMS = ["a", "b", " ", "  ", "\t", "\n", "\r", " ", "　", "é", "\x1c", "x y", "1", "\U0001d7ce"]


def gen_str_form(rng):
    return "".join(rng.choice(STR_ATOMS) for _ in range(rng.choice([0, 1, 1, 2, 3, 4, 5])))


def gen_form(rng, d):
    if rng.random() < 0.08:  # a form of another family
        d = rng.choice(["integer", "decimal", "boolean", "token"])
    if d in INT_TYPES:
        return gen_int_form(rng, d)
    if d == "decimal":
        return gen_dec_form(rng)
    if d == "boolean":
        return rng.choice(BOOL_FORMS)
    return gen_str_form(rng)


def gen_pyval(rng):
    r = rng.random()
    if r < 0.35:
        m = rng.choice([0, 1, 7, 10, 127, 128, 255, 1000, 2 ** 31, 2 ** 63, 2 ** 64, 10 ** 30, 99999])
        return ["int", m * rng.choice([1, 1, -1])]
    if r < 0.45:
        return ["bool", rng.random() < 0.5]
    if r < 0.85:
        if rng.random() < 0.08:
            return rng.choice([["inf", False], ["inf", True], ["nan", False], ["nan", True]])
        if rng.random() < 0.3:  # beyond the 28-digit context precision
            return ["dec", rng.random() < 0.4,
                    rng.choice([10 ** 28 + 1, 10 ** 30 + 1, 10 ** 40 + 7, 123456789012345678901234567890123,
                                int("9" * 35), 10 ** 29, 5 * 10 ** 33 + 50]),
                    rng.choice([0, -1, -2, -28, -29, -33, -40, -45, 1, 3])]
        return ["dec", rng.random() < 0.4, rng.choice([0, 0, 1, 5, 10, 12, 100, 125, 1050, 10 ** 25 + 1]),
                rng.choice([0, 0, -1, -2, -3, -5, -30, 1, 2, 5, 30])]
    return ["str", gen_str_form(rng)]


_RE_INT = re.compile(r"[+-]?[0-9]+\Z")
_RE_DECIMAL = re.compile(r"[+-]?(?:[0-9]+(?:\.[0-9]*)?|\.[0-9]+)\Z")


def xsd_valid(d, l):
    """statistic only (the judgement is made by spec_ok in Coq)"""
    if d in INT_TYPES:
        if not _RE_INT.match(l):
            return False
        lo, hi = {"long": (-2 ** 63, 2 ** 63 - 1), "unsignedLong": (0, 2 ** 64 - 1)}.get(d, BOUNDS[d])
        v = int(l)
        return (lo is None or lo <= v) and (hi is None or v <= hi)
    if d == "decimal":
        return bool(_RE_DECIMAL.match(l))
    if d == "boolean":
        return l in ("true", "false", "1", "0")
    if d == "normalizedString":
        return not re.search(r"[\t\n\r]", l)
    if d == "token":
        return not re.search(r"[\t\n\r]|^ | $|  ", l)
    return True


class C09(Suite):
    name = "literal"
    imports = "From RV Require Import Literal.Model."
    case_ty = "case"
    obs_ty = "obs"
    kf = "kf"
    kf_ids = {3: "F14b", 6: "F14f", 7: "F14g"}
    corr = ("Literal.__new__/normalize/eq/__eq__, _castLexicalToPython, _castPythonToLiteral, _well_formed_*, "
            "_parseBoolean, _normalise_XSD_STRING, _strip_and_collapse_whitespace")
    quick_n = 1600
    thorough_n = 30000

    def gen(self, rng, i):
        r = rng.random()
        if r < 0.6:
            d = rng.choice(MODELLED)
            return {"k": "lex", "d": d, "l": gen_form(rng, d), "n": rng.random() < 0.7}
        if r < 0.75:
            return {"k": "py", "v": gen_pyval(rng)}
        # pairs: same family, few values, many spellings
        fam = rng.choice(["num", "num", "bool", "str", "mixed"])
        if fam == "num":
            d1, d2 = rng.choice(INT_TYPES + ["decimal"] * 4), rng.choice(INT_TYPES + ["decimal"] * 4)
            if rng.random() < 0.15:
                a = "1." + "0" * 28 + rng.choice(["1", "2", "10"])
                b = rng.choice([a, "1." + "0" * 28 + "1", "1", "1.0", "+01." + "0" * 28 + "10"])
                return {"k": "eq", "d1": "decimal", "l1": a, "n1": rng.random() < 0.7,
                        "d2": rng.choice(["decimal", "decimal", "integer"]), "l2": b, "n2": rng.random() < 0.7}
            v = rng.choice([0, 1, 1, 5, 10, 127, 128, -1, 255])
            w = v if rng.random() < 0.6 else rng.choice([0, 1, 5, 10, -1])

            def spell(d, x):
                s = ("-" if x < 0 else rng.choice(["", "", "+"])) + rng.choice(["", "", "0", "00"]) + str(abs(x))
                if d == "decimal" and rng.random() < 0.7:
                    s += rng.choice([".", ".0", ".00"])
                if rng.random() < 0.1:
                    s = decorate(rng, s)
                return s
            l1, l2 = spell(d1, v), spell(d2, w)
        elif fam == "bool":
            d1 = d2 = "boolean"
            l1, l2 = rng.choice(BOOL_FORMS[:10]), rng.choice(BOOL_FORMS[:10])
        elif fam == "str":
            d1 = rng.choice(["plain", "string", "normalizedString", "token"])
            d2 = d1 if rng.random() < 0.7 else rng.choice(["plain", "string", "normalizedString", "token"])
            l1 = gen_str_form(rng)
            l2 = l1 if rng.random() < 0.3 else rng.choice(
                [l1.replace("\t", " "), l1.strip(), " " + l1, l1 + "\n", gen_str_form(rng), re.sub(" +", " ", l1)])
        else:
            d1, d2 = rng.choice(MODELLED), rng.choice(MODELLED)
            l1, l2 = gen_form(rng, d1), gen_form(rng, d2)
        return {"k": "eq", "d1": d1, "l1": l1, "n1": rng.random() < 0.7, "d2": d2, "l2": l2, "n2": rng.random() < 0.7}

    # ------------------------------------------------------------ implementation
    def run_impl(self, c):
        k = c["k"]
        if k == "lex":
            dt = dt_uri(c["d"])
            x = Literal(c["l"], datatype=dt, normalize=c["n"])
            n1 = x.normalize()
            n2 = n1.normalize()
            re_ = Literal(str.__str__(x), datatype=dt, normalize=True)
            return {"x": obs_lit(x), "n1": obs_lit(n1), "n2": obs_lit(n2), "re": obs_lit(re_),
                    "eq": eqres(x, n1), "same": bool(x == n1),
                    "dts": [dt_local(y.datatype) for y in (x, n1, n2, re_)]}
        if k == "py":
            x = Literal(py_val(c["v"]))
            back = Literal(str.__str__(x), datatype=x.datatype)
            return {"dt": dt_local(x.datatype), "x": obs_lit(x), "back": obs_lit(back), "eq": eqres(x, back)}
        if k == "eq":
            a = Literal(c["l1"], datatype=dt_uri(c["d1"]), normalize=c["n1"])
            b = Literal(c["l2"], datatype=dt_uri(c["d2"]), normalize=c["n2"])
            return {"same": bool(a == b), "eq": eqres(a, b), "hash_ok": (not (a == b)) or hash(a) == hash(b)}
        raise ValueError(k)

    # ------------------------------------------------------------ Coq text
    def coq_case(self, c):
        k = c["k"]
        if k == "lex":
            return f"CLex {coq_dt(c['d'])} {cstr(c['l'])} {cbool(c['n'])}"
        if k == "py":
            return f"CPy {coq_val(c['v'])}"
        return (f"CEq {coq_dt(c['d1'])} {cstr(c['l1'])} {cbool(c['n1'])} "
                f"{coq_dt(c['d2'])} {cstr(c['l2'])} {cbool(c['n2'])}")

    def coq_obs(self, o):
        if "re" in o:
            # the datatype must never change along the way: a changed datatype is reported as a wrong observation
            if len(set(o["dts"])) != 1:
                return "OConf 999%N"
            return (f"OLex {coq_lit(o['x'])} {coq_lit(o['n1'])} {coq_lit(o['n2'])} {coq_lit(o['re'])} "
                    f"{o['eq']} {cbool(o['same'])}")
        if "back" in o:
            d = o["dt"]
            dr = "RNone" if d == "plain" else f"(RDt {coq_dt(d)})" if d in MODELLED else "ROther"
            return f"OPy {dr} {coq_lit(o['x'])} {coq_lit(o['back'])} {o['eq']}"
        if "hash_ok" in o:
            if not o["hash_ok"]:
                return "OConf 998%N"
            return f"OEq {cbool(o['same'])} {o['eq']}"
        return "OConf 997%N"

    def nontrivial(self, c, o):
        if c["k"] == "lex":
            return o["x"]["ill"] is not True
        return True

    def features(self, c, o):
        f = {"kind_" + c["k"]: 1}
        if c["k"] == "lex":
            f["dt_" + c["d"]] = 1
            f["ill_" + str(o["x"]["ill"])] = 1
            if o["x"]["lex"] != c["l"]:
                f["lex_rewritten"] = 1
            if o["x"]["ill"] is False and not xsd_valid(c["d"], c["l"]):
                f["invalid_form_not_flagged_" + c["d"]] = 1
        if c["k"] == "eq":
            f["eq_" + o["eq"]] = 1
            f["same_" + str(o["same"])] = 1
        return f

    def shrink(self, c):
        for key in ("l", "l1", "l2"):
            if key in c:
                s = c[key]
                for i in range(len(s)):
                    yield dict(c, **{key: s[:i] + s[i + 1:]})
        if c["k"] == "py" and c["v"][0] == "int":
            yield dict(c, v=["int", c["v"][1] // 10])

    def sweep(self):
        """every modelled datatype x every string of length <= 3 over a small alphabet, both flags for a subset"""
        alpha = ["0", "1", "-", "+", " ", "_", ".", "e", "١"]
        forms = [""] + alpha + [a + b for a in alpha for b in alpha]
        forms += [a + b + c for a in alpha[:7] for b in alpha[:7] for c in alpha[:4]]
        for d in ["integer", "byte", "unsignedByte", "positiveInteger", "nonPositiveInteger", "decimal", "boolean",
                  "token", "normalizedString"]:
            for f in forms:
                yield {"k": "lex", "d": d, "l": f, "n": True}
        for d in MODELLED:
            for f in BOOL_FORMS + ["128", "-128", "-129", "127", "255", "256", "0", "-0", "+0", "1.0", "1.50", "-.5"]:
                yield {"k": "lex", "d": d, "l": f, "n": False}


# ====================================================================== conformance-only suite
# Laws sampled (one per case):
#   law 1: python value -> literal: documented datatype, lexical form in the lexical space, denotes the value, reads back
#   law 2: valid lexical form: not flagged, oracle value; the stored (normalised) form is valid and denotes the same value
#   law 3: normalize() preserves the value and is idempotent; re-reading the stored form gives the same form
#   law 0: form outside the lexical space - nothing demanded, only counted (accepted without the ill-typed flag or not)
# flags: 1, 2, 4 for a failed law 1..3; 16 = the harness' own oracle could not judge (counts as failure)

_DEC = r"(?:[0-9]+(?:\.[0-9]*)?|\.[0-9]+)"
RE_DOUBLE = re.compile(rf"^(?:[+-]?{_DEC}(?:[eE][+-]?[0-9]+)?|[+-]?INF|NaN)\Z")
_TZ = r"(Z|[+-](?:(?:0[0-9]|1[0-3]):[0-5][0-9]|14:00))?"
_YEAR = r"(-?(?:[1-9][0-9]{3,}|0[0-9]{3}))"
_TIME = r"(?:([01][0-9]|2[0-3]):([0-5][0-9]):([0-5][0-9])(?:\.([0-9]+))?|(24):(00):(00)(?:\.(0+))?)"
RE_DATETIME = re.compile(rf"^{_YEAR}-(0[1-9]|1[0-2])-(0[1-9]|[12][0-9]|3[01])T{_TIME}{_TZ}\Z")
RE_DATE = re.compile(rf"^{_YEAR}-(0[1-9]|1[0-2])-(0[1-9]|[12][0-9]|3[01]){_TZ}\Z")
RE_TIME = re.compile(rf"^{_TIME}{_TZ}\Z")
RE_DURATION = re.compile(r"^(-)?P(?:([0-9]+)Y)?(?:([0-9]+)M)?(?:([0-9]+)D)?"
                         r"(?:(T)(?:([0-9]+)H)?(?:([0-9]+)M)?(?:([0-9]+)(?:\.([0-9]+))?S)?)?\Z")
RE_HEX = re.compile(r"^(?:[0-9a-fA-F]{2})*\Z")


def days_in_month(y, m):
    if m == 2:
        leap = (y % 4 == 0 and y % 100 != 0) or y % 400 == 0
        return 29 if leap else 28
    return 30 if m in (4, 6, 9, 11) else 31


def tz_minutes(tz):
    if not tz:
        return None
    if tz == "Z":
        return 0
    sign = -1 if tz[0] == "-" else 1
    return sign * (int(tz[1:3]) * 60 + int(tz[4:6]))


def oracle_double(l):
    if not RE_DOUBLE.match(l):
        return None
    if l.endswith("INF"):
        return ("f", (float("-inf") if l.startswith("-") else float("inf")).hex())
    if l == "NaN":
        return ("f", "nan")
    m = re.match(rf"^([+-]?)({_DEC})(?:[eE]([+-]?[0-9]+))?\Z", l)
    sign, mant, ex = m.group(1), m.group(2), int(m.group(3) or 0)
    ip, _, fp = mant.partition(".")
    num = Fraction(int((ip + fp) or "0")) * Fraction(10) ** (ex - len(fp))
    try:
        v = float(num)  # int/int true division: correctly rounded
    except OverflowError:
        v = float("inf")
    if sign == "-":
        v = -v
    return ("f", v.hex())


def canon_float(v):
    if type(v) is not float:
        return ("?", repr(v)[:30])
    return ("f", "nan" if math.isnan(v) else v.hex())


def _time_fields(g):
    """groups of _TIME -> (h, mi, s, frac string) with 24:00:00 kept as hour 24"""
    if g[4] is not None:
        return 24, 0, 0, ""
    return int(g[0]), int(g[1]), int(g[2]), (g[3] or "").rstrip("0")


def oracle_datetime(l):
    m = RE_DATETIME.match(l)
    if not m:
        return None
    y, mo, d = int(m.group(1)), int(m.group(2)), int(m.group(3))
    if y == 0 and False:
        return None
    if d > days_in_month(y if y > 0 else 2000 + y % 400, mo):
        return None
    h, mi, s, frac = _time_fields(m.groups()[3:11])
    return ("dt", y, mo, d, h, mi, s, frac, tz_minutes(m.group(12)))


def oracle_date(l):
    m = RE_DATE.match(l)
    if not m:
        return None
    y, mo, d = int(m.group(1)), int(m.group(2)), int(m.group(3))
    if d > days_in_month(y if y > 0 else 2000 + y % 400, mo):
        return None
    return ("d", y, mo, d, tz_minutes(m.group(4)))


def oracle_time(l):
    m = RE_TIME.match(l)
    if not m:
        return None
    h, mi, s, frac = _time_fields(m.groups()[0:8])
    if h == 24:
        h = 0  # 24:00:00 is the same time of day as 00:00:00
    return ("t", h, mi, s, frac, tz_minutes(m.group(9)))


def oracle_duration(l, kind):
    m = RE_DURATION.match(l)
    if not m:
        return None
    neg, Y, M, D, T, H, MI, S, F = m.groups()
    if all(x is None for x in (Y, M, D, H, MI, S)):
        return None
    if T and all(x is None for x in (H, MI, S)):
        return None
    if kind == "dayTimeDuration" and (Y or M):
        return None
    if kind == "yearMonthDuration" and (D or T):
        return None
    months = int(Y or 0) * 12 + int(M or 0)
    secs = Fraction(int(D or 0) * 86400 + int(H or 0) * 3600 + int(MI or 0) * 60 + int(S or 0)) + (
        Fraction(int(F), 10 ** len(F)) if F else 0)
    sg = -1 if neg else 1
    return ("dur", sg * months, str(sg * secs))


def canon_temporal(v):
    if type(v) is datetime:
        off = v.utcoffset()
        return ("dt", v.year, v.month, v.day, v.hour, v.minute, v.second,
                ("%06d" % v.microsecond).rstrip("0"), None if off is None else int(off.total_seconds() // 60)
                if off.total_seconds() % 60 == 0 else ("sec", off.total_seconds()))
    if type(v) is date:
        return ("d", v.year, v.month, v.day, None)
    if type(v) is time:
        off = v.utcoffset()
        return ("t", v.hour, v.minute, v.second, ("%06d" % v.microsecond).rstrip("0"),
                None if off is None else int(off.total_seconds() // 60))
    if type(v) is timedelta:
        return ("dur", 0, str(Fraction(v.days * 86400 + v.seconds) + Fraction(v.microseconds, 10 ** 6)))
    if isinstance(v, Duration):
        td = v.tdelta
        return ("dur", int(v.years * 12 + v.months),
                str(Fraction(td.days * 86400 + td.seconds) + Fraction(td.microseconds, 10 ** 6)))
    return ("?", repr(v)[:40])


def norm_dt_value(o):
    """24:00:00 denotes 00:00:00 of the next day"""
    if o and o[0] == "dt" and o[4] == 24:
        _, y, mo, d, h, mi, s, frac, tz = o
        d += 1
        if d > days_in_month(y if y > 0 else 2000 + y % 400, mo):
            d, mo = 1, mo + 1
            if mo > 12:
                mo, y = 1, y + 1
        return ("dt", y, mo, d, 0, 0, 0, "", tz)
    return o


def oracle(d, l):
    """-> None if l is outside the lexical space of d, else a canonical value"""
    if d in ("double", "float"):
        return oracle_double(l)
    if d == "dateTime":
        return norm_dt_value(oracle_datetime(l))
    if d == "date":
        return oracle_date(l)
    if d == "time":
        return oracle_time(l)
    if d in ("duration", "dayTimeDuration", "yearMonthDuration"):
        return oracle_duration(l, d)
    if d == "hexBinary":
        return ("b", bytes.fromhex(l).hex()) if RE_HEX.match(l) else None
    if d == "language":
        return ("s", l) if re.match(r"[a-zA-Z]{1,8}(-[a-zA-Z0-9]{1,8})*\Z", l) else None
    if d == "anyURI":
        return ("s", l)
    if d == "XMLLiteral":
        return xml_canon("<r>" + l + "</r>")
    if d == "base64Binary":
        s = re.sub(r"[ \t\n\r]", "", l)
        if not re.match(r"^(?:[A-Za-z0-9+/]{4})*(?:[A-Za-z0-9+/]{2}[AEIMQUYcgkosw048]=|[A-Za-z0-9+/][AQgw]==)?\Z", s):
            return None
        import base64
        return ("b", base64.b64decode(s, validate=True).hex())
    raise ValueError(d)


def xml_canon(doc):
    """independent reading of an XML literal: well-formed content, compared in canonical form (C14N 2.0)"""
    import xml.etree.ElementTree as ET
    if "<?xml" in doc or "<!DOCTYPE" in doc:
        return None
    try:
        return ("xml", ET.canonicalize(xml_data=doc))
    except Exception:  # noqa: BLE001
        return None


def conf_dt_uri(d):
    return RDF.XMLLiteral if d == "XMLLiteral" else XSD[d]


def canon_any(d, v):
    if v is None:
        return None
    if d in ("language", "anyURI"):
        return ("s", v) if type(v) is str else ("?", repr(v)[:30])
    if d == "XMLLiteral":
        try:
            return xml_canon(v.documentElement.toxml().replace("rdflibtoplevelelement", "r"))
        except Exception:  # noqa: BLE001
            return ("?", repr(v)[:30])
    if d in ("double", "float"):
        return canon_float(v)
    if d in ("hexBinary", "base64Binary"):
        return ("b", v.hex()) if type(v) is bytes else ("?", repr(v)[:30])
    return canon_temporal(v)


CONF_DT = ["double", "float", "dateTime", "date", "time", "duration", "dayTimeDuration", "yearMonthDuration",
           "hexBinary", "base64Binary", "language", "anyURI", "XMLLiteral"]

LANG_FORMS = ["en", "en-GB", "de-CH-1901", "x-klingon", "EN", "", "e n", "toolonglanguage", "en-", "-en", "en_GB", "zh-Hant-TW",
              "a1", "1a", "en--GB"]
URI_FORMS = ["http://a/b", "", "a b", "%zz", "urn:x:y", "http://é/ü", "#frag", "../rel", "mailto:a@b", "http://a/b?q=1#f"]
XML_FORMS = ["", "a", "<b>x</b>", "<b>x", "a &amp; b", "a & b", "<a x='1'/>", "<a/><b/>", "<?xml version='1.0'?><a/>",
             " <a> </a> ", "<a xmlns='u:'/>", "é<a>ü</a>", "<a><b/></a>", "<a b='2' a='1'/>", "<a></a>", "x<!-- c -->y",
             "<![CDATA[<]]>", "&lt;", "<a>&#65;</a>", "</a>", "<a", "<a b=1/>", "<p:a xmlns:p='u:'/>", "<p:a/>"]


def gen_double_form(rng):
    mant = rng.choice(["0", "1", "-0", "1.5", "0.1", ".5", "5.", "-1.25", "+3", "9007199254740993", "1.7976931348623157",
                       "4.9", "2.2250738585072014", "0.30000000000000004", "100", "1e0"[:1]])
    r = rng.random()
    if r < 0.45:
        s = mant
    elif r < 0.8:
        s = mant + rng.choice(["e", "E"]) + rng.choice(["", "+", "-"]) + rng.choice(["0", "1", "5", "22", "308", "309",
                                                                                         "324", "400", "07"])
    elif r < 0.9:
        s = rng.choice(["INF", "-INF", "+INF", "NaN"])
    else:
        s = rng.choice(["inf", "-inf", "nan", "Infinity", "infinity", "NAN", " 1.0", "1.0 ", "1_0.0", "1e", "e5", "",
                        "0x1p3", "1,5", "--1", "+-1", "１.５", "1 .0", "-NaN", "+NaN", "iNf", "1e1_0"])
    return s


def gen_tz(rng):
    return rng.choice(["", "", "", "Z", "+00:00", "-00:00", "+14:00", "-14:00", "+05:30", "-09:00", "+13:59"])


def gen_time_form(rng):
    hms = rng.choice(["00:00:00", "12:34:56", "23:59:59", "24:00:00", "01:02:03", "23:59:60", "12:00:00"])
    frac = rng.choice(["", "", "", ".5", ".123", ".123456", ".000001", ".1234567", ".0", ".000", ".9999999"])
    return hms + frac


def gen_date_form(rng):
    y = rng.choice(["2020", "1999", "0001", "9999", "2000", "1900", "0000", "-0001", "10000", "-2020", "0100", "2024"])
    md = rng.choice(["01-01", "12-31", "02-28", "02-29", "02-30", "06-15", "04-31", "11-30", "00-10", "13-01", "10-00"])
    return y + "-" + md


def gen_temporal_form(rng, d):
    r = rng.random()
    if d == "dateTime":
        s = gen_date_form(rng) + rng.choice(["T"] * 12 + [" ", "t"]) + gen_time_form(rng) + gen_tz(rng)
    elif d == "date":
        s = gen_date_form(rng) + gen_tz(rng)
    else:
        s = gen_time_form(rng) + gen_tz(rng)
    if r < 0.06:
        s = rng.choice(["", " " + s, s + " ", s.replace("-", "", 1), s.replace(":", ""), "2020-W01-1", "20200101",
                        "2020-01-01T00:00", "12:00", "T12:00:00", s + "+14:01", s + "+15:00", s + "+5:00"])
    return s


def gen_duration_form(rng, d):
    parts = []
    ym = d != "dayTimeDuration"
    dtm = d != "yearMonthDuration"
    if ym and rng.random() < 0.5:
        parts.append(rng.choice(["1", "0", "2", "10", "100"]) + "Y")
    if ym and rng.random() < 0.5:
        parts.append(rng.choice(["1", "0", "11", "12", "13", "25"]) + "M")
    if dtm and rng.random() < 0.5:
        parts.append(rng.choice(["1", "0", "30", "31", "365", "400"]) + "D")
    t = []
    if dtm and rng.random() < 0.4:
        t.append(rng.choice(["1", "0", "23", "24", "25", "100"]) + "H")
    if dtm and rng.random() < 0.4:
        t.append(rng.choice(["1", "0", "59", "60", "61", "90"]) + "M")
    if dtm and rng.random() < 0.4:
        t.append(rng.choice(["1", "0", "59", "60", "0.5", "1.25", "0.000001", "0.0000001", "3600", "1.0", "60.5"]) + "S")
    s = rng.choice(["", "", "", "-"]) + "P" + "".join(parts) + ("T" + "".join(t) if t else "")
    if rng.random() < 0.08:
        s = rng.choice(["P", "PT", "P1W", "P1.5D", "P1Y2", "1Y", "+P1D", "P-1D", "P1DT", "p1d", " P1D", "P1M1Y", "PT1S1M",
                        "P1,5D", "-P", "P0Y"])
    return s


def gen_binary_form(rng, d):
    if d == "hexBinary":
        n = rng.choice([0, 1, 1, 2, 3, 4])
        s = "".join(rng.choice("0123456789abcdefABCDEF") for _ in range(2 * n))
        if rng.random() < 0.2:
            s = rng.choice([s + "0", s + "g0", " " + s, s + " ", "0x" + s, s + "\n"])
        return s
    import base64
    raw = bytes(rng.choice([0, 1, 97, 98, 255, 62 * 4, 63 * 4 + 3]) for _ in range(rng.choice([0, 1, 2, 3, 4, 5, 6])))
    s = base64.b64encode(raw).decode()
    r = rng.random()
    if r < 0.1 and len(s) > 4:
        s = s[:4] + rng.choice([" ", "\n"]) + s[4:]
    elif r < 0.25:
        s = rng.choice([s.rstrip("="), s + "=", s + "A", "*" + s, s[:-1] + "-" if s else "-", s + "é"])
    return s


def region_of(c):
    """finding region, decided on the input alone (never on what rdflib answered)"""
    law, d = c["law"], c.get("d")
    if law == 1:
        return 3 if c["py"][0] == "bytes" else 0
    l = c["l"]
    o = oracle(d, l)
    if law == 3 and o is not None and d == "duration" and o[1] < 0 and int(abs(Fraction(o[2])) * 10 ** 6) != 0:
        return 7
    if law == 2 and o is not None:
        if d in ("dateTime", "time", "date"):
            # python's datetime cannot hold these values: hour 24, years outside 1..9999, more than 6 fraction digits,
            # a date with a time zone
            if "24:00:00" in l:
                return 4
            if d != "time":
                y = int(re.match(r"-?[0-9]+", l).group(0))
                if not 1 <= y <= 9999:
                    return 4
            fr = re.search(r"\.([0-9]+)", l)
            if fr and len(fr.group(1).rstrip("0")) > 6:
                return 4
            if d == "date" and o[4] is not None:
                return 4
        if d in ("duration", "dayTimeDuration", "yearMonthDuration"):
            fr = re.search(r"\.([0-9]+)", l)
            if fr and len(fr.group(1).rstrip("0")) > 6:
                return 4
            # negative durations with a year-month and a day-time part make the constructor raise;
            # a zero yearMonthDuration is re-written to P0D
            if o[1] < 0 and Fraction(o[2]) < 0:
                return 4
            if d == "yearMonthDuration" and o[1] == 0:
                return 4
    return 0


class C09Conf(Suite):
    name = "conformance"
    imports = "From RV Require Import Literal.Model."
    case_ty = "case"
    obs_ty = "obs"
    kf = "kf"
    kf_ids = C09.kf_ids
    corr = ("(conformance only, no model) float/double, xsd_datetime.parse_*/duration_isoformat, hexBinary/base64Binary, "
            "bytes")
    quick_n = 900
    thorough_n = 20000

    def gen(self, rng, i):
        r = rng.random()
        if r < 0.22:
            k = rng.random()
            if k < 0.45:
                f = rng.choice(["0.1", "1e22", "1e21", "1e16", "123456789.125", "1e-7", "5e-324",
                                "1.7976931348623157e308", "0.30000000000000004", "-1.5", "1e100",
                                "2.5e-5", "9007199254740992.0", "0.5", "-2.25e-3"])
                c = {"law": 1, "py": ["float", f]}
            elif k < 0.65:
                c = {"law": 1, "py": ["datetime", rng.choice([1, 1000, 1999, 2020, 9999]), rng.choice([1, 2, 12]),
                                      rng.choice([1, 28]), rng.choice([0, 12, 23]),
                                      rng.choice([0, 59]), rng.choice([0, 59]), rng.choice([0, 0, 1, 500000, 999999]),
                                      rng.choice([None, None, 0, 330, -540, 840, -840, 1])]}
            elif k < 0.72:
                c = {"law": 1, "py": ["date", rng.choice([1, 999, 2020, 9999]), rng.choice([1, 2, 12]), rng.choice([1, 28])]}
            elif k < 0.8:
                c = {"law": 1, "py": ["time", rng.choice([0, 12, 23]), rng.choice([0, 59]), rng.choice([0, 59]),
                                      rng.choice([0, 0, 1, 500000]), rng.choice([None, None, 0, 330, -540, 840])]}
            elif k < 0.92:
                c = {"law": 1, "py": ["timedelta", rng.choice([0, 0, 1, -1, 400]), rng.choice([0, 0, 1, 3600, 86399]),
                                      rng.choice([0, 0, 1, 500000])]}
            elif k < 0.97:
                c = {"law": 1, "py": ["duration", rng.choice([0, 1, 2]), rng.choice([0, 1, 13]),
                                      rng.choice([0, 1, 400]), rng.choice([0, 0, 3661])]}
            elif k < 0.98:
                c = {"law": 1, "py": ["bytes", rng.choice(["", "ab", "00ff", "e9"])]}
            elif k < 0.99:
                c = {"law": 1, "py": ["xmldoc", rng.choice(["<r><b>x</b>y</r>", "<r/>", "<r a='1'>&amp;</r>"])]}
            else:
                c = {"law": 1, "py": ["gdate", rng.choice(["gYear", "gYearMonth"]), rng.choice([1, 5, 999, 2020, 9999]),
                                      rng.choice([1, 3, 12])]}
        else:
            d = rng.choice(CONF_DT)
            if d in ("double", "float"):
                # the exact fragment (specials, signed zero, integer-valued below 2^53) belongs to the model-backed
                # suite `double`; here only what needs rounding / fractions / negative exponents
                l = next((x for x in (gen_double_form(rng) for _ in range(20)) if not in_double_fragment(x)), "0.1")
            elif d in ("dateTime", "date", "time"):
                l = gen_temporal_form(rng, d)
            elif d in ("hexBinary", "base64Binary"):
                l = gen_binary_form(rng, d)
            elif d == "language":
                l = rng.choice(LANG_FORMS)
            elif d == "anyURI":
                l = rng.choice(URI_FORMS)
            elif d == "XMLLiteral":
                l = rng.choice(XML_FORMS)
            else:
                l = gen_duration_form(rng, d)
            valid = oracle(d, l) is not None
            if valid:
                law = rng.choice([2, 2, 3])
            else:
                law = 0  # a form outside the lexical space: nothing is demanded; acceptance is counted in the evidence
            c = {"law": law, "d": d, "l": l}
        c["region"] = region_of(c)
        return c

    @staticmethod
    def _mk(py):
        k = py[0]
        if k == "float":
            return float(py[1])
        if k == "datetime":
            tz = None if py[8] is None else timezone(timedelta(minutes=py[8]))
            return datetime(py[1], py[2], py[3], py[4], py[5], py[6], py[7], tzinfo=tz)
        if k == "date":
            return date(py[1], py[2], py[3])
        if k == "time":
            tz = None if py[5] is None else timezone(timedelta(minutes=py[5]))
            return time(py[1], py[2], py[3], py[4], tzinfo=tz)
        if k == "timedelta":
            return timedelta(days=py[1], seconds=py[2], microseconds=py[3])
        if k == "duration":
            return Duration(years=py[1], months=py[2], days=py[3], seconds=py[4])
        if k == "bytes":
            return bytes.fromhex(py[1])
        if k == "xmldoc":
            import xml.dom.minidom
            return xml.dom.minidom.parseString(py[1])
        raise ValueError(py)

    DOC = {"float": "double", "datetime": "dateTime", "date": "date", "time": "time", "timedelta": "dayTimeDuration",
           "duration": "duration", "bytes": None}

    def run_impl(self, c):
        law = c["law"]
        info = {}
        try:
            if law == 1 and c["py"][0] == "gdate":
                # the specific rules (date, gYear) / (date, gYearMonth): form of the XSD shape, the right year / month
                _, g, y, m = c["py"]
                x = Literal(date(y, m, 1), datatype=XSD[g])
                lex = str.__str__(x)
                want = f"{y:04d}" if g == "gYear" else f"{y:04d}-{m:02d}"
                ok = lex == want and x.datatype == XSD[g] and str.__str__(x.normalize()) == lex
                return {"flags": 0 if ok else 1, "info": {"lex": lex}}
            if law == 1 and c["py"][0] == "xmldoc":
                v = self._mk(c["py"])
                x = Literal(v)
                lex = str.__str__(x)
                back = Literal(lex, datatype=x.datatype)
                # (a Document is not among the python classes of the property; x.eq(back) is False here because the
                # re-read value carries rdflib's wrapper element and the user's document does not - not judged)
                ok = (x.datatype == RDF.XMLLiteral and xml_canon(lex) == xml_canon(c["py"][1])
                      and back.ill_typed is False and canon_any("XMLLiteral", back.value) == xml_canon("<r>" + lex + "</r>"))
                return {"flags": 0 if ok else 1, "info": {"lex": lex}}
            if law == 1:
                v = self._mk(c["py"])
                try:
                    x = Literal(v)
                except Exception as e:  # noqa: BLE001
                    return {"flags": 1, "info": {"raised": type(e).__name__}}
                d = dt_local(x.datatype)
                lex = str.__str__(x)
                info = {"dt": d, "lex": lex}
                want = self.DOC[c["py"][0]]
                if c["py"][0] == "bytes":
                    # documented: bytes are utf-8 text (Literal(b"...") decodes); judge only that
                    ok = lex == v.decode("utf-8", "replace") or (d == "hexBinary" and lex.lower() == v.hex())
                    return {"flags": 0 if ok else 1, "info": info}
                if d != want:
                    return {"flags": 1, "info": info}
                o = oracle(d, lex)
                cv = canon_any(d, v)
                if c["py"][0] == "duration" and cv is not None:
                    pass
                ok = o is not None and o == cv
                back = Literal(lex, datatype=x.datatype)
                ok = ok and canon_any(d, back.value) == cv and back.ill_typed is False
                return {"flags": 0 if ok else 1, "info": info}
            d, l = c["d"], c["l"]
            o = oracle(d, l)
            x = Literal(l, datatype=conf_dt_uri(d))
            info = {"lex": str.__str__(x), "ill": x.ill_typed, "val": repr(x.value)[:60]}
            if law == 0:
                return {"flags": 0, "info": info, "overaccepted": x.ill_typed is False}
            if law == 2:
                ok = x.ill_typed is False and canon_any(d, x.value) == o and oracle(d, str.__str__(x)) == o
                return {"flags": 0 if ok else 2, "info": info}
            if law == 3:
                n1 = x.normalize()
                n2 = n1.normalize()
                re_ = Literal(str.__str__(x), datatype=conf_dt_uri(d))
                info.update(n1=str.__str__(n1), n2=str.__str__(n2))
                ok = (canon_any(d, n1.value) == canon_any(d, x.value) and str.__str__(n2) == str.__str__(n1)
                      and canon_any(d, n2.value) == canon_any(d, n1.value) and str.__str__(re_) == str.__str__(x)
                      and n1.datatype == x.datatype)
                return {"flags": 0 if ok else 4, "info": info}
        except Exception as e:  # noqa: BLE001
            # an exception out of Literal()/normalize()/eq is a failure of the law under test
            return {"flags": {0: 0, 1: 1, 2: 2, 3: 4}.get(law, 16),
                    "info": {"raised": f"{type(e).__name__}: {e}"[:200], **info}}
        return {"flags": 16, "info": info}

    def coq_case(self, c):
        return f"CConf {cN(c['law'])} {cN(c['region'])}"

    def coq_obs(self, o):
        return f"OConf {cN(o['flags'])}"

    def nontrivial(self, c, o):
        return c["law"] != 0

    def features(self, c, o):
        f = {f"law_{c['law']}": 1, f"region_{c['region']}": 1}
        if "d" in c:
            f["dt_" + c["d"]] = 1
        if o.get("overaccepted"):
            f["overaccepted_not_judged_" + c["d"]] = 1
        return f

    def shrink(self, c):
        if "l" in c:
            s = c["l"]
            for i in range(len(s)):
                c2 = dict(c, l=s[:i] + s[i + 1:])
                # keep the law meaningful for the shrunk form
                valid = oracle(c2["d"], c2["l"]) is not None
                if c["law"] in (2, 3) and valid:
                    c2["region"] = region_of(c2)
                    yield c2


# ====================================================================== binary suite (modelled: coq/Literal/BinaryModel.v)
def cbytes(b):
    return clist(cN(x) for x in b)


def obs_blit(x):
    v = x.value
    return {"lex": str.__str__(x), "ill": x.ill_typed, "val": None if v is None else (list(v) if type(v) is bytes else "other")}


def coq_blit(o):
    return ("{| b_lex := " + cstr(o["lex"]) + "; b_ill := " + copt(o["ill"], cbool) + "; b_val := "
            + copt(o["val"], cbytes) + " |}")


B64ALPHA = "ABCDEFGHIJKLMNOPQRSTUVWXYZabcdefghijklmnopqrstuvwxyz0123456789+/"


def gen_bin_form(rng, d):
    import base64
    raw = bytes(rng.choice([0, 1, 97, 98, 255, 0xAB, 0x7F, 0x80, 0xFE, 62 * 4, 63 * 4 + 3, 0x10, 0x0F])
                for _ in range(rng.choice([0, 1, 1, 2, 2, 3, 3, 4, 5, 6, 7])))
    if d == "hexBinary":
        s = "".join(rng.choice([f"{b:02x}", f"{b:02X}", f"{b:02x}".capitalize()]) for b in raw)
        r = rng.random()
        if r < 0.25:
            i = rng.randrange(0, len(s) + 1)
            s = rng.choice([s + "0", s[:i] + "g" + s[i:], " " + s, s + " ", "0x" + s, s + "\n", s[:i] + " " + s[i:],
                            s[:i] + "é" + s[i:], s[1:], s[:i] + "G0" + s[i:], s + "/", s[:i] + ":" + s[i:], s + "@`"])
        return s
    s = base64.b64encode(raw).decode()
    r = rng.random()
    if r < 0.3 and s:   # XSD allows single blanks between characters
        out = []
        for ch in s:
            out.append(ch)
            if rng.random() < 0.3:
                out.append(" ")
        s = "".join(out).rstrip(" ") if rng.random() < 0.8 else "".join(out)
    elif r < 0.6:
        i = rng.randrange(0, len(s) + 1)
        s = rng.choice([s.rstrip("="), s + "=", s + "A", "*" + s, s[:i] + "-" + s[i:], s + "é", s[:i] + "=" + s[i:],
                        s[:i] + "  " + s[i:], " " + s, s + " ", s[:i] + "\n" + s[i:], s + s, s[:-1], s[:i] + "_" + s[i:],
                        s.replace("=", "", 1), s[:-2] + rng.choice(B64ALPHA) + s[-1:] if len(s) > 1 else "A",
                        s[:-3] + rng.choice(B64ALPHA) + s[-2:] if len(s) > 2 else "AB", s + "==", "=" + s, s[:i] + "\x7f" + s[i:]])
    return s


class C09Binary(Suite):
    name = "binary"
    imports = "From RV Require Import Literal.BinaryModel."
    case_ty = "bcase"
    obs_ty = "bobs"
    model = "bmodel_obs"
    oeq = "bobs_eqb"
    spec = "bspec_ok"
    kf = "bkf"
    kf_ids = {}
    corr = ("Literal.__new__/normalize/eq for xsd:hexBinary and xsd:base64Binary: term._unhexlify, binascii.hexlify, "
            "base64.b64decode, base64.b64encode, _castPythonToLiteral specific rules")
    quick_n = 700
    thorough_n = 15000

    def gen(self, rng, i):
        if rng.random() < 0.75:
            d = rng.choice(["hexBinary", "base64Binary"])
            return {"k": "blex", "d": d, "l": gen_bin_form(rng, d), "n": rng.random() < 0.7}
        d1 = rng.choice(["hexBinary", "base64Binary"])
        d2 = d1 if rng.random() < 0.85 else rng.choice(["hexBinary", "base64Binary"])
        l1 = gen_bin_form(rng, d1)
        r = rng.random()
        l2 = l1 if r < 0.2 else l1.lower() if r < 0.35 else l1.upper() if r < 0.45 else l1.replace(" ", "") if r < 0.6 \
            else gen_bin_form(rng, d2)
        return {"k": "bpair", "d1": d1, "l1": l1, "n1": rng.random() < 0.7, "d2": d2, "l2": l2, "n2": rng.random() < 0.7}

    def run_impl(self, c):
        if c["k"] == "blex":
            dt = XSD[c["d"]]
            x = Literal(c["l"], datatype=dt, normalize=c["n"])
            n1 = x.normalize()
            n2 = n1.normalize()
            re_ = Literal(str.__str__(x), datatype=dt, normalize=True)
            return {"x": obs_blit(x), "n1": obs_blit(n1), "n2": obs_blit(n2), "re": obs_blit(re_),
                    "eq": eqres(x, n1), "same": bool(x == n1),
                    "dts": [dt_local(y.datatype) for y in (x, n1, n2, re_)]}
        a = Literal(c["l1"], datatype=XSD[c["d1"]], normalize=c["n1"])
        b = Literal(c["l2"], datatype=XSD[c["d2"]], normalize=c["n2"])
        return {"same": bool(a == b), "eq": eqres(a, b)}

    @staticmethod
    def _d(d):
        return "BHex" if d == "hexBinary" else "BB64"

    def coq_case(self, c):
        if c["k"] == "blex":
            return f"BLex {self._d(c['d'])} {cstr(c['l'])} {cbool(c['n'])}"
        return (f"BPair {self._d(c['d1'])} {cstr(c['l1'])} {cbool(c['n1'])} "
                f"{self._d(c['d2'])} {cstr(c['l2'])} {cbool(c['n2'])}")

    def coq_obs(self, o):
        if "re" in o:
            if len(set(o["dts"])) != 1 or any(o[k]["val"] == "other" for k in ("x", "n1", "n2", "re")):
                return "OBBad"
            return (f"OBLex {coq_blit(o['x'])} {coq_blit(o['n1'])} {coq_blit(o['n2'])} {coq_blit(o['re'])} "
                    f"{o['eq']} {cbool(o['same'])}")
        return f"OBPair {cbool(o['same'])} {o['eq']}"

    def nontrivial(self, c, o):
        return o["x"]["val"] is not None if "x" in o else True

    def features(self, c, o):
        f = {"kind_" + c["k"]: 1}
        if c["k"] == "blex":
            f["dt_" + c["d"]] = 1
            f["accepted" if o["x"]["val"] is not None else "rejected"] = 1
            if o["x"]["lex"] != c["l"]:
                f["lex_rewritten"] = 1
        else:
            f["eq_" + o["eq"]] = 1
        return f

    def shrink(self, c):
        for key in ("l", "l1", "l2"):
            if key in c:
                s = c[key]
                for i in range(len(s)):
                    yield dict(c, **{key: s[:i] + s[i + 1:]})

    def sweep(self):
        alpha = ["A", "Q", "g", "/", "=", " ", "B", "*"]
        import itertools
        for n in range(0, 6):
            for t in itertools.product(alpha, repeat=n):
                yield {"k": "blex", "d": "base64Binary", "l": "".join(t), "n": True}
        for n in range(0, 5):
            for t in itertools.product(["0", "a", "F", "g", " "], repeat=n):
                yield {"k": "blex", "d": "hexBinary", "l": "".join(t), "n": n % 2 == 0}


# ====================================================================== temporal suite (modelled: coq/Literal/TemporalModel.v)
def canon_tval(v):
    def off(o):
        if o is None:
            return None
        sec = o.total_seconds()
        return int(sec // 60) if sec % 60 == 0 else "other"
    if v is None:
        return None
    if type(v) is datetime:
        return ["datetime", v.year, v.month, v.day, v.hour, v.minute, v.second, v.microsecond, off(v.utcoffset())]
    if type(v) is date:
        return ["date", v.year, v.month, v.day]
    if type(v) is time:
        return ["time", v.hour, v.minute, v.second, v.microsecond, off(v.utcoffset())]
    return ["other"]


def coq_tval(cv):
    if cv[0] == "date":
        return f"(VDate {cN(cv[1])} {cN(cv[2])} {cN(cv[3])})"
    if cv[0] == "time":
        return "(VTime " + " ".join(cN(x) for x in cv[1:5]) + " " + copt(cv[5], cZ) + ")"
    return "(VDateTime " + " ".join(cN(x) for x in cv[1:8]) + " " + copt(cv[8], cZ) + ")"


def tval_bad(cv):
    return cv is not None and (cv[0] == "other" or cv[-1] == "other")


def obs_tlit(x):
    return {"lex": str.__str__(x), "ill": x.ill_typed, "val": canon_tval(x.value)}


def coq_tlit(o):
    return ("{| t_lex := " + cstr(o["lex"]) + "; t_ill := " + copt(o["ill"], cbool) + "; t_val := "
            + copt(o["val"], coq_tval) + " |}")


T_YEARS = ["2020", "1999", "0001", "9999", "2000", "1900", "0000", "-0001", "10000", "-2020", "0100", "2024", "12345",
           "02020", "-0000", "2021", "0400"]
T_MD = ["01-01", "12-31", "02-28", "02-29", "02-30", "06-15", "04-30", "04-31", "11-30", "00-10", "13-01", "10-00", "10-32"]
T_HMS = ["00:00:00", "12:34:56", "23:59:59", "24:00:00", "01:02:03", "23:59:60", "12:00:00", "12:60:00", "25:00:00",
         "24:00:01", "09:05:07"]
T_FRAC = ["", "", "", ".5", ".123", ".123456", ".000001", ".1234567", ".0", ".000", ".9999999", ".1234560", ".0000000",
          ".1234565000", ".50", ".000000"]
T_TZ = ["", "", "", "Z", "+00:00", "-00:00", "+14:00", "-14:00", "+05:30", "-09:00", "+13:59", "+14:01", "+15:00", "+23:59",
        "+24:00", "+01:60", "-23:60", "-13:59", "+00:01", "-05:45", "+05:45", "-03:30", "-00:01", "-09:15"]
T_OFFS = [None, None, 0, 330, -540, 840, -840, 1, -1, 839, -345, 345, -210, -555, -839]  # XSD time zones: at most 14:00 either way


def gen_tform(rng, d):
    ymd = rng.choice(T_YEARS) + "-" + rng.choice(T_MD)
    hms = rng.choice(T_HMS) + rng.choice(T_FRAC)
    if d == "date":
        return ymd + rng.choice(T_TZ)
    if d == "time":
        return hms + rng.choice(T_TZ)
    return ymd + "T" + hms + rng.choice(T_TZ)


class C09Temporal(Suite):
    name = "temporal"
    imports = "From RV Require Import Literal.TemporalModel."
    case_ty = "tcase"
    obs_ty = "tobs"
    model = "tmodel_obs"
    oeq = "tobs_eqb"
    spec = "tspec_ok"
    kf = "tkf"
    kf_ids = {7: "F14g"}
    corr = ("Literal.__new__/normalize/eq for xsd:date, xsd:time, xsd:dateTime on forms of the XSD shape: "
            "xsd_datetime.parse_xsd_date, date/time/datetime.fromisoformat, .isoformat()")
    quick_n = 700
    thorough_n = 15000

    def gen(self, rng, i):
        if rng.random() < 0.8:
            d = rng.choice(["date", "time", "dateTime", "dateTime"])
            return {"k": "tlex", "d": d, "l": gen_tform(rng, d), "n": rng.random() < 0.7}
        k = rng.choice(["date", "time", "datetime", "datetime"])
        y, m = rng.choice([1, 999, 1900, 2000, 2020, 2024, 9999]), rng.choice([1, 2, 4, 12])
        dd = rng.choice([1, 28, 29, 30, 31])
        dd = min(dd, days_in_month(y, m))
        h, mi, sec = rng.choice([0, 9, 12, 23]), rng.choice([0, 5, 59]), rng.choice([0, 7, 59])
        us = rng.choice([0, 0, 1, 500000, 999999, 123456, 100, 120000])
        tz = rng.choice(T_OFFS)
        if k == "date":
            return {"k": "tpy", "v": ["date", y, m, dd]}
        if k == "time":
            return {"k": "tpy", "v": ["time", h, mi, sec, us, tz]}
        return {"k": "tpy", "v": ["datetime", y, m, dd, h, mi, sec, us, tz]}

    @staticmethod
    def _mk(cv):
        if cv[0] == "date":
            return date(cv[1], cv[2], cv[3])
        tz = None if cv[-1] is None else timezone(timedelta(minutes=cv[-1]))
        if cv[0] == "time":
            return time(cv[1], cv[2], cv[3], cv[4], tzinfo=tz)
        return datetime(*cv[1:8], tzinfo=tz)

    def run_impl(self, c):
        if c["k"] == "tlex":
            dt = XSD[c["d"]]
            x = Literal(c["l"], datatype=dt, normalize=c["n"])
            n1 = x.normalize()
            n2 = n1.normalize()
            re_ = Literal(str.__str__(x), datatype=dt, normalize=True)
            return {"x": obs_tlit(x), "n1": obs_tlit(n1), "n2": obs_tlit(n2), "re": obs_tlit(re_),
                    "eq": eqres(x, n1), "same": bool(x == n1),
                    "dts": [dt_local(y.datatype) for y in (x, n1, n2, re_)]}
        x = Literal(self._mk(c["v"]))
        back = Literal(str.__str__(x), datatype=x.datatype)
        return {"dt": dt_local(x.datatype), "x": obs_tlit(x), "back": obs_tlit(back), "eq": eqres(x, back)}

    _D = {"date": "TDate", "time": "TTime", "dateTime": "TDateTime"}

    def coq_case(self, c):
        if c["k"] == "tlex":
            return f"TLex {self._D[c['d']]} {cstr(c['l'])} {cbool(c['n'])}"
        return f"TPy {coq_tval(c['v'])}"

    def coq_obs(self, o):
        if "re" in o:
            if len(set(o["dts"])) != 1 or any(tval_bad(o[k]["val"]) for k in ("x", "n1", "n2", "re")):
                return "OTBad"
            return (f"OTLex {coq_tlit(o['x'])} {coq_tlit(o['n1'])} {coq_tlit(o['n2'])} {coq_tlit(o['re'])} "
                    f"{o['eq']} {cbool(o['same'])}")
        if tval_bad(o["x"]["val"]) or tval_bad(o["back"]["val"]):
            return "OTBad"
        d = copt(self._D.get(o["dt"]))
        return f"OTPy {d} {coq_tlit(o['x'])} {coq_tlit(o['back'])} {o['eq']}"

    def nontrivial(self, c, o):
        return o["x"]["val"] is not None

    def features(self, c, o):
        f = {"kind_" + c["k"]: 1}
        if c["k"] == "tlex":
            f["dt_" + c["d"]] = 1
            f["accepted" if o["x"]["val"] is not None else "rejected"] = 1
            if o["x"]["lex"] != c["l"]:
                f["lex_rewritten"] = 1
        return f

    def shrink(self, c):
        return []

    def sweep(self):
        for y in ["2020", "1900", "2000", "0001", "9999", "0000", "10000", "-0001"]:
            for md in T_MD:
                for tz in ["", "Z", "+14:00", "-00:00"]:
                    yield {"k": "tlex", "d": "date", "l": y + "-" + md + tz, "n": True}
        for hms in T_HMS:
            for fr in T_FRAC[2:]:
                for tz in T_TZ[2:]:
                    yield {"k": "tlex", "d": "time", "l": hms + fr + tz, "n": fr != ".5"}
                    yield {"k": "tlex", "d": "dateTime", "l": "2024-02-29T" + hms + fr + tz, "n": True}


# ====================================================================== double suite (modelled fragment: coq/Literal/FloatModel.v)
_RE_FRAG = re.compile(r"[+-]?([0-9]+)(?:\.0*)?(?:[eE]\+?([0-9]+))?\Z")


def in_double_fragment(l):
    """the forms coq/Literal/FloatModel.v has something to say about (must agree with fl_parse <> None:
    a disagreement shows up as the model answering OFOut)"""
    b = l[1:] if l[:1] in ("+", "-") else l
    if b.lower() in ("inf", "infinity", "nan"):
        return True
    m = _RE_FRAG.match(l)
    if not m:
        return False
    e = int(m.group(2) or 0)
    return e <= 400 and int(m.group(1)) * 10 ** e < 2 ** 53


def canon_fval(v):
    if v is None:
        return None
    if type(v) is not float:
        return "other"
    if math.isnan(v):
        return ["nan"]
    if math.isinf(v):
        return ["inf", v < 0]
    if v == int(v) and abs(v) < 2 ** 53:
        return ["int", math.copysign(1.0, v) < 0, abs(int(v))]
    return "other"


def coq_fval(cv):
    if cv[0] == "nan":
        return "FNaN"
    if cv[0] == "inf":
        return f"(FInf {cbool(cv[1])})"
    return f"(FInt {cbool(cv[1])} {cN(cv[2])})"


def obs_flit(x):
    return {"lex": str.__str__(x), "ill": x.ill_typed, "val": canon_fval(x.value)}


def coq_flit(o):
    return ("{| f_lex := " + cstr(o["lex"]) + "; f_ill := " + copt(o["ill"], cbool) + "; f_val := "
            + copt(o["val"], coq_fval) + " |}")


F_INTS = ["0", "1", "7", "10", "100", "007", "00", "9007199254740991", "9007199254740992", "123456789012345", "4503599627370496",
          "9007199254740993", "12", "900719925474099", "1000000000000000", "255"]
F_FRAC = [None, None, "", "0", "00", "000000"]
F_EXP = [None, None, None, "e0", "E0", "e1", "e+2", "E3", "e15", "e+0", "e16", "E+1", "e00"]
F_SPECIAL = ["INF", "-INF", "+INF", "NaN", "inf", "-inf", "nan", "Infinity", "-infinity", "NAN", "+nan", "-NaN", "iNf"]
F_PY = ["0.0", "-0.0", "1.0", "-1.0", "9007199254740991.0", "1e15", "inf", "-inf", "nan", "123456789.0", "-255.0",
        "4503599627370496.0", "-9007199254740991.0", "100.0"]


def gen_double_frag(rng):
    for _ in range(50):
        if rng.random() < 0.2:
            l = rng.choice(F_SPECIAL)
        else:
            fr = rng.choice(F_FRAC)
            l = rng.choice(["", "", "+", "-"]) + rng.choice(F_INTS) + ("" if fr is None else "." + fr) + (rng.choice(F_EXP) or "")
        if in_double_fragment(l):
            return l
    return "0"


class C09Double(Suite):
    name = "double"
    imports = "From RV Require Import Literal.FloatModel."
    case_ty = "fcase"
    obs_ty = "fobs"
    model = "fmodel_obs"
    oeq = "fobs_eqb"
    spec = "fspec_ok"
    kf = "fkf"
    kf_ids = {}
    corr = ("Literal.__new__/normalize/eq for xsd:double / xsd:float on the exact fragment (INF, -INF, NaN, signed zero, "
            "integer-valued doubles below 2^53 written without a fraction): float(), _float_lexical")
    quick_n = 500
    thorough_n = 10000

    def gen(self, rng, i):
        r = rng.random()
        if r < 0.6:
            return {"k": "flex", "d": rng.choice(["double", "double", "float"]), "l": gen_double_frag(rng), "n": rng.random() < 0.7}
        if r < 0.75:
            return {"k": "fpy", "v": rng.choice(F_PY)}
        return {"k": "fpair", "l1": gen_double_frag(rng), "n1": rng.random() < 0.7,
                "l2": gen_double_frag(rng), "n2": rng.random() < 0.7}

    def run_impl(self, c):
        if c["k"] == "flex":
            dt = XSD[c["d"]]
            x = Literal(c["l"], datatype=dt, normalize=c["n"])
            n1 = x.normalize()
            n2 = n1.normalize()
            re_ = Literal(str.__str__(x), datatype=dt, normalize=True)
            return {"x": obs_flit(x), "n1": obs_flit(n1), "n2": obs_flit(n2), "re": obs_flit(re_),
                    "eq": eqres(x, n1), "same": bool(x == n1),
                    "dts": [dt_local(y.datatype) for y in (x, n1, n2, re_)]}
        if c["k"] == "fpy":
            x = Literal(float(c["v"]))
            back = Literal(str.__str__(x), datatype=x.datatype)
            return {"dt": dt_local(x.datatype), "x": obs_flit(x), "back": obs_flit(back), "eq": eqres(x, back)}
        a = Literal(c["l1"], datatype=XSD.double, normalize=c["n1"])
        b = Literal(c["l2"], datatype=XSD.double, normalize=c["n2"])
        return {"same": bool(a == b), "eq": eqres(a, b)}

    def coq_case(self, c):
        if c["k"] == "flex":
            return f"FLex {'FDouble' if c['d'] == 'double' else 'FFloat'} {cstr(c['l'])} {cbool(c['n'])}"
        if c["k"] == "fpy":
            return f"FPy {coq_fval(canon_fval(float(c['v'])))}"
        return f"FPair {cstr(c['l1'])} {cbool(c['n1'])} {cstr(c['l2'])} {cbool(c['n2'])}"

    def coq_obs(self, o):
        if "re" in o:
            if len(set(o["dts"])) != 1 or any(o[k]["val"] == "other" for k in ("x", "n1", "n2", "re")):
                return "OFOut"
            return (f"OFLex {coq_flit(o['x'])} {coq_flit(o['n1'])} {coq_flit(o['n2'])} {coq_flit(o['re'])} "
                    f"{o['eq']} {cbool(o['same'])}")
        if "back" in o:
            if o["dt"] != "double" or o["x"]["val"] == "other" or o["back"]["val"] == "other":
                return "OFOut"
            return f"OFPy {coq_flit(o['x'])} {coq_flit(o['back'])} {o['eq']}"
        return f"OFPair {cbool(o['same'])} {o['eq']}"

    def features(self, c, o):
        f = {"kind_" + c["k"]: 1}
        if c["k"] == "flex":
            f["dt_" + c["d"]] = 1
            if o["x"]["lex"] != c["l"]:
                f["lex_rewritten"] = 1
            v = o["x"]["val"]
            if isinstance(v, list):
                f["value_" + v[0]] = 1
        return f

    def sweep(self):
        for sign in ["", "+", "-"]:
            for ip in F_INTS:
                for fr in F_FRAC[1:]:
                    for ex in F_EXP[2:]:
                        l = sign + ip + ("" if fr is None else "." + fr) + (ex or "")
                        if in_double_fragment(l):
                            yield {"k": "flex", "d": "double", "l": l, "n": True}
            for sp in ["INF", "NaN", "inf", "nan", "infinity"]:
                yield {"k": "flex", "d": "float", "l": sign + sp, "n": sign != "+"}


SUITES = [C09(), C09Conf(), C09Binary(), C09Temporal(), C09Double()]
