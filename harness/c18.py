"""C18 - auditable store: correspondence between coq/Auditable/Model.v and
rdflib/plugins/stores/auditable.py (over Memory and SimpleMemory)."""
from __future__ import annotations

import itertools
import warnings

from .core import Suite, cN, cbool, clist, copt, ctuple
from .terms import GRAPH_POOL, gname, graph_id, rdflib, term, term_id, tkey

warnings.filterwarnings("ignore", category=DeprecationWarning)
from rdflib import ConjunctiveGraph, Graph, URIRef  # noqa: E402
from rdflib.plugins.stores.auditable import AuditableStore  # noqa: E402
from rdflib.plugins.stores.memory import Memory, SimpleMemory  # noqa: E402

DEFAULT = URIRef("urn:x-verif:cg-default")
# how an operation reaches the wrapper: through a Graph over it, through the ConjunctiveGraph over it with the graph named by
# its identifier, by the ConjunctiveGraph's own Graph object, by a Graph object that belongs to the INNER store, or by a Graph
# object of the OTHER wrapper (the wrapper re-wraps every context it is given; the operation belongs to the wrapper called)
VIAS = ["graph", "cg", "cgobj", "graph", "cg", "cgobj", "cginner", "cgother"]


def c_triple(t):
    return ctuple(*(cN(x) for x in t))


def c_pat(p):
    return ctuple(*(copt(x, cN) for x in p))


def c_quad(q):
    return ctuple(c_triple(q[:3]), cN(q[3]))


def c_qset(qs):
    return clist(c_quad(q) for q in qs)


class C18(Suite):
    name = "auditable"
    imports = "From RV Require Import Auditable.Model."
    case_ty = "case"
    obs_ty = "list qset"
    corr = "AuditableStore.add/remove/commit/rollback"
    # counts (evidence: trigger_hits) the histories that leave the scope of the two-wrapper statement; number 9 is
    # mapped to no finding, so nothing is waived for them
    kf = "scope_kf"
    kf_ids = {9: "out-of-scope (statistic only)"}
    quick_n = 700
    thorough_n = 30000

    # case = {"store": "memory"|"simple", "init": [[s,p,o,c]...], "ops": [op...]}
    # op = ["add", w, [s,p,o], c, via] | ["rem", w, [s|None,...], c|None, via] | ["commit", w, via] | ["rollback", w, via]

    def gen(self, rng, i):
        simple = rng.random() < 0.15
        two = (not simple) and rng.random() < 0.3
        nterms = rng.choice([2, 2, 3])
        subs = rng.sample([1, 2, 5, 6, 8, 12], nterms)
        preds = rng.sample([3, 4], rng.choice([1, 2]))
        objs = rng.sample([1, 5, 6, 7, 9, 10, 11, 13, 14], nterms)
        pool = [[s, p, o] for s in subs for p in preds for o in objs]
        rng.shuffle(pool)
        pool = pool[: rng.choice([2, 3, 4, 5])]
        cids = [1] if simple else rng.sample([0, 1, 2, 3, 4], rng.choice([1, 2, 3]))
        # wrapper 1 mostly works on its own triples (the property's disjointness hypothesis)
        if two:
            k = max(1, len(pool) // 2)
            pools = [pool[:k], pool[k:] or pool[:1]]
            if rng.random() < 0.15:
                pools[1] = pool
        else:
            pools = [pool, pool]
        init = []
        for t in pool:
            for c in cids:
                if rng.random() < 0.35:
                    init.append(t + [c])
        ops = []
        n = rng.choice([2, 3, 4, 5, 6, 8, 10, 12])
        for _ in range(n):
            w = rng.choice([0, 1]) if two else 0
            r = rng.random()
            t = rng.choice(pools[w])
            c = rng.choice(cids)
            if r < 0.36:
                ops.append(["add", w, t, c, rng.choice(VIAS)])
            elif r < 0.56:
                ops.append(["rem", w, t, c, rng.choice(VIAS)])
            elif r < 0.70:
                p = [x if rng.random() < 0.5 else None for x in t]
                if two and rng.random() < 0.8:
                    p = t  # keep wildcards rare with two wrappers: they touch everything
                ops.append(["rem", w, p, c, rng.choice(["graph", "cg"])])
            elif r < 0.78 and not simple:
                p = [x if rng.random() < 0.6 else None for x in t]
                ops.append(["rem", w, p, None, "cg"])
            elif r < 0.86:
                ops.append(["commit", w, rng.choice(["store", "cg"])])
            else:
                ops.append(["rollback", w, rng.choice(["store", "cg"])])
        if rng.random() < 0.6:
            ops.append(["rollback", rng.choice([0, 1]) if two else 0, "store"])
        if simple:
            for o in ops:
                if o[0] in ("add", "rem"):
                    o[4] = "graph"
                else:
                    o[2] = "store"
        return {"store": "simple" if simple else "memory", "init": init, "ops": ops}

    # ------------------------------------------------------------ implementation
    def run_impl(self, case):
        simple = case["store"] == "simple"
        inner = SimpleMemory() if simple else Memory()
        if simple:
            base = Graph(inner, identifier=gname(1))
            for q in case["init"]:
                base.add(tuple(term(x) for x in q[:3]))
        else:
            base = ConjunctiveGraph(store=inner, identifier=DEFAULT)
            for q in case["init"]:
                base.add(tuple(term(x) for x in q[:3]) + (gname(q[3], DEFAULT),))
        auds = [AuditableStore(inner), AuditableStore(inner)]
        cgs = [None if simple else ConjunctiveGraph(store=a, identifier=DEFAULT) for a in auds]

        def content():
            if simple:
                return sorted([term_id(s), term_id(p), term_id(o), 1] for s, p, o in Graph(inner, identifier=gname(1)))
            out = []
            for s, p, o, g in ConjunctiveGraph(store=inner, identifier=DEFAULT).quads((None, None, None)):
                out.append([term_id(s), term_id(p), term_id(o), graph_id(g.identifier if hasattr(g, "identifier") else g, DEFAULT)])
            return sorted(out)

        obs = []
        for op in case["ops"]:
            kind, w = op[0], op[1]
            try:
                if kind == "add":
                    t = tuple(term(x) for x in op[2])
                    name = gname(op[3], DEFAULT)
                    if op[4] == "graph":
                        Graph(auds[w], identifier=name).add(t)
                    elif op[4] == "cgobj":
                        cgs[w].add(t + (cgs[w].get_context(name),))
                    elif op[4] == "cginner":
                        cgs[w].add(t + (Graph(inner, identifier=name),))
                    elif op[4] == "cgother":
                        cgs[w].add(t + (cgs[1 - w].get_context(name),))
                    else:
                        cgs[w].add(t + (name,))
                elif kind == "rem":
                    p = tuple(None if x is None else term(x) for x in op[2])
                    if op[3] is None:
                        cgs[w].remove(p)
                    else:
                        name = gname(op[3], DEFAULT)
                        if op[4] == "graph":
                            Graph(auds[w], identifier=name).remove(p)
                        elif op[4] == "cgobj":
                            cgs[w].remove(p + (cgs[w].get_context(name),))
                        elif op[4] == "cginner":
                            cgs[w].remove(p + (Graph(inner, identifier=name),))
                        elif op[4] == "cgother":
                            cgs[w].remove(p + (cgs[1 - w].get_context(name),))
                        else:
                            cgs[w].remove(p + (name,))
                elif kind == "addn":
                    quads = [tuple(term(x) for x in q[:3]) + (cgs[w].get_context(gname(q[3], DEFAULT)),)
                             for q in op[2]]
                    if op[3] == "cg":
                        cgs[w].addN(quads)
                    else:
                        auds[w].addN(quads)
                elif kind == "commit":
                    (auds[w] if op[2] == "store" else cgs[w]).commit()
                elif kind == "rollback":
                    (auds[w] if op[2] == "store" else cgs[w]).rollback()
                obs.append(content())
            except Exception as e:  # noqa: BLE001
                obs.append([[997, 997, 997, 997], [type(e).__name__.__hash__() % 7, 0, 0, 0]])
        return obs

    # ------------------------------------------------------------ Coq text
    def coq_case(self, case):
        ops = []
        for op in case["ops"]:
            w = cbool(op[1])
            if op[0] == "add":
                ops.append(f"AAdd {w} {c_triple(op[2])} {cN(op[3])}")
            elif op[0] == "rem":
                ops.append(f"ARemove {w} {c_pat(op[2])} {copt(op[3], cN)}")
            elif op[0] == "commit":
                ops.append(f"ACommit {w}")
            else:
                ops.append(f"ARollback {w}")
        return "{| c_init := " + c_qset(case["init"]) + "; c_ops := " + clist(ops) + " |}"

    def coq_obs(self, obs):
        return clist(c_qset(s) for s in obs)

    def nontrivial(self, case, obs):
        kinds = {o[0] for o in case["ops"]}
        return "rollback" in kinds and ("add" in kinds or "rem" in kinds)

    def features(self, case, obs):
        f = {"store_" + case["store"]: 1, "ops_total": len(case["ops"]),
             "two_wrappers": int(any(o[1] == 1 for o in case["ops"]))}
        for o in case["ops"]:
            k = o[0]
            if k == "rem":
                k = "rem_noctx" if o[3] is None else ("rem_bound" if None not in o[2] else "rem_wild")
            f["op_" + k] = f.get("op_" + k, 0) + 1
            if o[0] in ("add", "rem"):
                f["via_" + str(o[4])] = f.get("via_" + str(o[4]), 0) + 1
        return f

    def shrink(self, case):
        ops = case["ops"]
        for i in range(len(ops)):
            yield dict(case, ops=ops[:i] + ops[i + 1:])
        for i in range(len(case["init"])):
            yield dict(case, init=case["init"][:i] + case["init"][i + 1:])

    def sweep(self):
        """all single-wrapper histories of length <= 4 over 2 triples x 2 contexts ending in rollback"""
        ts = [[1, 3, 5], [2, 3, 6]]
        cids = [1, 2]
        alphabet = []
        for t in ts:
            for c in cids:
                alphabet.append(["add", 0, t, c, "graph"])
                alphabet.append(["rem", 0, t, c, "graph"])
        alphabet.append(["rem", 0, [None, 3, None], 1, "graph"])
        alphabet.append(["rem", 0, [None, None, None], None, "cg"])
        alphabet.append(["commit", 0, "store"])
        alphabet.append(["rollback", 0, "store"])
        inits = [[], [[1, 3, 5, 1]], [[1, 3, 5, 1], [1, 3, 5, 2], [2, 3, 6, 2]]]
        for n in (1, 2, 3):
            for seq in itertools.product(alphabet, repeat=n):
                for init in inits:
                    yield {"store": "memory", "init": init, "ops": [list(o) for o in seq] + [["rollback", 0, "store"]]}


class C18Batch(C18):
    """Histories with bulk adds (addN): only the content after the whole batch is observable."""
    name = "auditable_batch"
    imports = "From RV Require Import Auditable.Batch."
    case_ty = "bcase"
    obs_ty = "list qset"
    model = "bmodel_obs"
    oeq = "list_eqb qseteqb"
    spec = "bspec_ok"
    kf = "bscope_kf"
    corr = "AuditableStore via Store.addN (Graph.addN / ConjunctiveGraph.addN)"
    quick_n = 400
    thorough_n = 12000

    def gen(self, rng, i):
        while True:
            case = super().gen(rng, i)
            if case["store"] == "memory":
                break
        ops, pool = [], []
        for o in case["ops"]:
            if o[0] in ("add", "rem") and None not in o[2]:
                pool.append(o[2])
        pool = pool or [[1, 3, 5]]
        cids = sorted({o[3] for o in case["ops"] if o[0] in ("add", "rem") and o[3] is not None}) or [1]
        for o in case["ops"]:
            if o[0] == "add" and rng.random() < 0.6:
                n = rng.choice([1, 2, 2, 3, 4])
                quads = []
                for _ in range(n):
                    t = o[2] if rng.random() < 0.5 else rng.choice(pool)  # repeats within a batch are frequent
                    quads.append(list(t) + [rng.choice(cids) if rng.random() < 0.4 else o[3]])
                ops.append(["addn", o[1], quads, rng.choice(["cg", "store"])])
            else:
                ops.append(o)
        case["ops"] = ops
        return case

    def coq_case(self, case):
        ops = []
        for op in case["ops"]:
            w = cbool(op[1])
            if op[0] == "add":
                ops.append(f"BOne (AAdd {w} {c_triple(op[2])} {cN(op[3])})")
            elif op[0] == "rem":
                ops.append(f"BOne (ARemove {w} {c_pat(op[2])} {copt(op[3], cN)})")
            elif op[0] == "commit":
                ops.append(f"BOne (ACommit {w})")
            elif op[0] == "rollback":
                ops.append(f"BOne (ARollback {w})")
            else:
                ops.append(f"BAddN {w} " + clist(c_quad(q) for q in op[2]))
        return "{| b_init := " + c_qset(case["init"]) + "; b_ops := " + clist(ops) + " |}"

    def features(self, case, obs):
        f = super().features(case, obs)
        for o in case["ops"]:
            if o[0] == "addn":
                f["addn_quads"] = f.get("addn_quads", 0) + len(o[2])
                f["addn_with_repeat"] = f.get("addn_with_repeat", 0) + int(len({tuple(q) for q in o[2]}) < len(o[2]))
        return f

    def sweep(self):
        return []


class C18Memory(C18):
    """The same histories judged against the wrapper composed with C01's Memory store model
    (coq/Auditable/OverMemory.v): every store access of auditable.py goes through the Memory
    model's own add / remove / triples.  Every operation names its graph (the context-less
    remove goes through ConjunctiveGraph.quads and stays with the suite `auditable`)."""
    name = "auditable_memory"
    imports = "From RV Require Import Auditable.OverMemory."
    case_ty = "mcase"
    obs_ty = "list qset"
    model = "mm_obs"
    oeq = "obs_eqb"
    spec = "mspec_ok"
    kf = "mscope_kf"
    corr = "AuditableStore.add/remove/commit/rollback over rdflib.plugins.stores.memory.Memory (add, remove, triples)"
    quick_n = 400
    thorough_n = 12000

    def gen(self, rng, i):
        while True:
            case = super().gen(rng, i)
            if case["store"] == "memory":
                break
        cids = sorted({o[3] for o in case["ops"] if o[0] in ("add", "rem") and o[3] is not None}) or [1]
        for o in case["ops"]:
            if o[0] == "rem" and o[3] is None:
                o[3] = rng.choice(cids)
                o[4] = rng.choice(["graph", "cg"])
        return case

    def coq_case(self, case):
        ops = []
        for op in case["ops"]:
            w = cbool(op[1])
            if op[0] == "add":
                ops.append(f"CAdd {w} {c_triple(op[2])} {cN(op[3])}")
            elif op[0] == "rem":
                ops.append(f"CRemove {w} {c_pat(op[2])} {cN(op[3])}")
            elif op[0] == "commit":
                ops.append(f"CCommit {w}")
            else:
                ops.append(f"CRollback {w}")
        return "{| m_init := " + c_qset(case["init"]) + "; m_ops := " + clist(ops) + " |}"

    def sweep(self):
        for case in super().sweep():
            if all(not (o[0] == "rem" and o[3] is None) for o in case["ops"]):
                yield case

TRUSTED = [
    "Coq 8.16.1 kernel incl. vm_compute (no native_compute); every theorem of coq/Props/C18.v is Closed under the global context",
    "hand-written models coq/Auditable/Model.v, Batch.v (auditable.py over the specification-level quad set) and "
    "OverStore.v/OverMemory.v (auditable.py over C01's Memory model): modelled, not verified - tied to the code by the suites below",
    "coq/Store/Model.v (C01's model of memory.py) is reused; its three laws mem_add_ok / mem_remove_ok / mem_triples_exact are "
    "C01's theorems, its faithfulness is C01's correspondence suite plus the suite auditable_memory here",
    "harness/c18.py: generator, the drivers Graph(AuditableStore(..)) / ConjunctiveGraph(store=AuditableStore(..)) / addN, the reading of "
    "the INNER store's content through ConjunctiveGraph.quads after every operation, harness/terms.py term numbering, printing of cases "
    "as Gallina literals (harness/core.py)",
]
ASSUMPTIONS = [
    "the two-wrapper statement covers a history up to the first operation that changes a quad the other wrapper changed in its still-open "
    "transaction (the property's disjointness hypothesis, at quad level)",
    "graph identifiers are non-empty strings (auditable.py tests `if ctxId:`); thread interleavings inside one call are not modelled: "
    "operations of the two wrappers interleave at call granularity",
    "OverStore.v: every operation names its graph; the context-less remove (ConjunctiveGraph.quads over all graphs) is modelled only "
    "over the quad set (Model.v)",
]
RULE = ("histories of 2-13 operations over 2-5 triples x 1-3 graph names (IRI- and bnode-named with equal strings, the front end's default "
        "graph), 35% of (triple, graph) pairs present initially, adds/removes of present and absent triples, wildcard removes with and "
        "without graph, commits/rollbacks through store and front end, 30% two-wrapper histories, bulk adds (suite auditable_batch), the "
        "same histories against the Memory-composed model (suite auditable_memory); distinct by full case content; non-trivial = contains "
        "a rollback and at least one add or remove")


SUITES = [C18(), C18Batch(), C18Memory()]
