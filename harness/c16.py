"""C16 - SPARQL results survive their exchange formats: correspondence between
coq/Results/Model.v and rdflib/plugins/sparql/results/{json,xml,tsv,csv}results.py
(through Result.serialize / Result.parse)."""
from __future__ import annotations

import csv
import io
import re
import itertools
import warnings

from .core import Suite, cN, cbool, clist, copt, cstr, ctuple
from .terms import rdflib

warnings.filterwarnings("ignore")
import logging  # noqa: E402

logging.getLogger("rdflib.term").setLevel(logging.ERROR)

from rdflib import BNode, Graph, Literal, URIRef, Variable  # noqa: E402
from rdflib.query import Result, ResultException  # noqa: E402

XSD = "http://www.w3.org/2001/XMLSchema#"

# ---------------------------------------------------------------- terms <-> case encoding
# term = ["I", s] | ["B", s] | ["L", lex, dt|None, lang|None]; structural, never uses rdflib __eq__/__hash__


def tk(t):
    if isinstance(t, Literal):
        dt, lang = t.datatype, t.language
        return ["L", str.__str__(t), None if dt is None else str.__str__(dt), None if lang is None else str.__str__(lang)]
    if isinstance(t, BNode):
        return ["B", str.__str__(t)]
    if isinstance(t, URIRef):
        return ["I", str.__str__(t)]
    return ["?", repr(t)]


def build(k):
    if k[0] == "I":
        return URIRef(k[1])
    if k[0] == "B":
        return BNode(k[1])
    return Literal(k[1], datatype=None if k[2] is None else URIRef(k[2]), lang=k[3])


def c_term(k):
    if k[0] == "I":
        return f"(IRI {cstr(k[1])})"
    if k[0] == "B":
        return f"(BNode {cstr(k[1])})"
    return f"(Lit {cstr(k[1])} {copt(k[2], cstr)} {copt(k[3], cstr)})"


# ---------------------------------------------------------------- an independent W3C TSV writer
def tsv_term(k, st):
    if k[0] == "I":
        return "<" + k[1] + ">"
    if k[0] == "B":
        return "_:" + k[1]
    lex, dt, lang = k[1], k[2], k[3]
    if st["bare"] and lang is None:
        if dt == XSD + "integer" and lex.isascii() and lex.isdigit() and (lex == "0" or not lex.startswith("0")):
            return lex
        if dt == XSD + "boolean" and lex in ("true", "false"):
            return lex
        if dt == XSD + "integer" and re.fullmatch(r"-[1-9][0-9]*", lex):
            return lex
        if dt == XSD + "decimal" and re.fullmatch(r"-?(0|[1-9][0-9]*)\.[0-9]+", lex):
            return lex
    q = "'" if st["sq"] else '"'
    out = [q]
    for ch in lex:
        if ch == "\t":
            out.append("\\t")
        elif ch == "\n":
            out.append("\\n")
        elif ch == "\r":
            out.append("\\r")
        elif ch == "\\":
            out.append("\\\\")
        elif ch == q:
            out.append("\\" + q)
        elif st["esc_all"] and ch == "\b":
            out.append("\\b")
        elif st["esc_all"] and ch == "\f":
            out.append("\\f")
        elif st["cross"] and ch in "\"'":
            out.append("\\" + ch)
        else:
            out.append(ch)
    out.append(q)
    if lang is not None:
        out.append("@" + lang)
    elif dt is not None:
        out.append("^^<" + dt + ">")
    return "".join(out)


def table_cell(row, v):
    for k, t in row:
        if k == v:
            return t
    return None


def tsv_doc(case):
    st = case["style"]
    lines = ["\t".join("?" + v for v in case["vars"])]
    for row in case["rows"]:
        cells = []
        for v in case["vars"]:
            t = table_cell(row, v)
            cells.append("" if t is None else tsv_term(t, st))
        lines.append("\t".join(cells))
    return "\n".join(lines) + "\n"


def csv_source(text, src):
    """the three kinds of source a CSV document is read from"""
    if src == 0:
        return io.BytesIO(text.encode("utf-8"))     # rdflib wraps it in codecs.getreader("utf-8")
    if src == 1:
        return io.StringIO(text, newline="")        # what the csv module asks for
    return io.StringIO(text)                         # newline LF: lines end at LF only


# ---------------------------------------------------------------- generators
PLAIN = list("abx 1")
SPECIAL = list("\"'\\&<>\t\n;#@^{}|`,") + ["&amp;", "&#13;", "]]>", "\\n", "\\u0041", "\"\"", "''"]
CR = ["\r", "\r\n", "a\rb"]
CONTROL = ["\x00", "\x01", "\x08", "\x0b", "\x0c", "\x1c", "\x1e", "\x1f"]
BREAKS = ["\x85", "\u2028", "\u2029", "\x0c", "\x1d"]
UNI = ["\u00e9", "\ufffd", "\U0001F600", "\U0010FFFF", "\ud7ff", "\ue000", "\x7f", "\x9f", "\u00a0"]
NONCHAR = ["\ufffe", "\uffff"]

VARS = ["x", "y", "z", "a_1", "v2", "_u", "\u00e9"]
VARS_EXOTIC = ["x&\"<'", "v w", "q'", "n\tt", "c\x0bv", "e\ufffe", "r\rn"]
IRIS = ["http://e/a", "http://e/b", "urn:x:c", "http://e/p?q=1&r='2'#f", "http://e/\u00e9\U0001F600"]
BLABELS = ["b1", "b2", "b.c", "1a", "_x", "b-\u00e9", "N0"]
LANGS = ["en", "en-GB", "x-1a", "de-CH-1996", "FR"]
DTS = [XSD + "string", "http://e/dt", "http://e/d'&t", "http://e/XMLSchema#integer"]


def gen_string(rng, profile):
    n = rng.choice([0, 1, 1, 2, 3, 4])
    out = []
    for _ in range(n):
        r = rng.random()
        if r < 0.45:
            out.append(rng.choice(PLAIN))
        elif r < 0.75:
            out.append(rng.choice(SPECIAL))
        elif r < 0.87:
            out.append(rng.choice(UNI))
        elif r < 0.87 + profile["cr"]:
            out.append(rng.choice(CR))
        elif r < 0.87 + profile["cr"] + profile["ctl"]:
            out.append(rng.choice(CONTROL + NONCHAR + NONCHAR + NONCHAR))
        elif r < 0.87 + profile["cr"] + profile["ctl"] + profile["brk"]:
            out.append(rng.choice(BREAKS))
        else:
            out.append(rng.choice(PLAIN))
    return "".join(out)


def iri_ok_tsv(s):
    return all(ord(c) > 32 and c not in '<>"{}|^`\\' for c in s)


def gen_term(rng, fmt, profile):
    r = rng.random()
    if r < 0.25:
        s = rng.choice(IRIS)
        if rng.random() < 0.25:
            extra = gen_string(rng, profile)
            if fmt == "tsv":
                extra = "".join(c for c in extra if iri_ok_tsv(c))
            s = s + extra
        if fmt != "tsv" and rng.random() < 0.03:
            s = ""
        return ["I", s]
    if r < 0.40:
        s = rng.choice(BLABELS)
        if fmt not in ("tsv",) and rng.random() < 0.1:
            s = s + gen_string(rng, profile)
        return ["B", s]
    lex = gen_string(rng, profile)
    r = rng.random()
    if r < 0.40:
        return ["L", lex, None, None]
    if r < 0.62:
        return ["L", lex, None, rng.choice(LANGS)]
    if r < 0.66:
        return ["L", rng.choice(["0", "7", "42", "1000", "-7", "-10"]), XSD + "integer", None]
    if r < 0.70:
        return ["L", rng.choice(["1.5", "0.50", "10.0", "0.0", "-1.5", "-0.50", "12.345"]), XSD + "decimal", None]
    if r < 0.72:
        return rng.choice([["L", "0.0", XSD + "double", None], ["L", "0.0", XSD + "decimal", None],
                           ["L", "P0D", XSD + "duration", None], ["L", "", XSD + "string", None]])
    if r < 0.78:
        return ["L", rng.choice(["true", "false"]), XSD + "boolean", None]
    dt = rng.choice(DTS)
    if fmt != "tsv" and rng.random() < 0.2:
        dt = dt + gen_string(rng, profile)
    if fmt != "tsv" and rng.random() < 0.03:
        dt = ""
    return ["L", lex, dt, None]


def stable(k):
    """the term is a fixed point of its own constructor (normalisation is property C09's business)"""
    try:
        t = build(k)
        return tk(t) == k and tk(build(tk(t))) == k
    except Exception:  # noqa: BLE001
        return False


class C16(Suite):
    name = "results"
    imports = "From RV Require Import Results.Model."
    case_ty = "case"
    obs_ty = "obs"
    # no open finding: the default trigger (no_kf) applies
    corr = ("JSONResultSerializer.serialize/termToJSON/_bindingToJSON, JSONResult/parseJsonTerm, "
            "XMLResultSerializer/SPARQLXMLWriter, XMLResult/parseTerm, TSVResultParser.parse/convertTerm, "
            "CSVResultSerializer.serialize/serializeTerm, Result.serialize, Result.parse")
    quick_n = 1600
    thorough_n = 30000
    timeout_s = 20.0

    # ------------------------------------------------------------ generation
    def gen(self, rng, i):
        fmt = rng.choice(["json", "xml", "xml", "tsv", "tsv", "csv", "csvp", "csvp"])
        # most cases stay outside the trigger regions of the known findings
        # control characters make an XML result inexpressible (the writer must refuse): keep most XML cases expressible
        hot = fmt != "xml" or rng.random() < 0.25
        profile = {"cr": 0.05, "ctl": 0.05 if hot else 0.0, "brk": 0.05}
        if fmt in ("json", "xml") and rng.random() < 0.08:
            return self._mk(fmt, rng.choice([True, False]), [], [], rng, via=rng.choice(["direct", "query"]))
        nv = rng.choice([0, 1, 1, 2, 2, 3, 4]) if fmt != "tsv" else rng.choice([1, 1, 2, 2, 3, 4])
        pool = list(VARS)
        if fmt in ("json", "xml") and rng.random() < 0.15:
            pool = pool[:3] + VARS_EXOTIC
        vars_ = rng.sample(pool, nv)
        nrows = rng.choice([0, 1, 1, 2, 3, 4, 6])
        dead = rng.choice(vars_) if vars_ and rng.random() < 0.2 else None  # a column unbound everywhere
        if dead is not None and rng.random() < 0.6:
            dead = vars_[-1]
        p_bound = rng.choice([0.5, 0.7, 0.9])
        allow_empty_rows = True
        if fmt == "tsv" and vars_ and rng.random() < 0.08:
            if dead == vars_[-1]:
                dead = vars_[-1] + "\u1680"
            vars_[-1] = vars_[-1] + "\u1680"   # legal VARNAME character that str.strip() treats as blank
        rows = []
        for _ in range(nrows):
            row = []
            for v in vars_:
                if v == dead or rng.random() > p_bound:
                    if fmt in ("json", "csv", "csvp") and rng.random() < 0.15:
                        row.append([v, None])
                    continue
                for _try in range(5):
                    t = gen_term(rng, fmt, profile)
                    if stable(t):
                        break
                else:
                    t = ["L", "x", None, None]
                row.append([v, t])
            if allow_empty_rows and rng.random() < 0.12:
                row = [kv for kv in row if kv[1] is None]
            if not allow_empty_rows and not any(kv[1] is not None for kv in row) and vars_:
                v = rng.choice([x for x in vars_ if x != dead] or vars_)
                row = [[v, ["I", "http://e/a"]]]
            rng.shuffle(row)
            rows.append(row)
        via = "query" if rng.random() < 0.25 else "direct"
        case = self._mk(fmt, None, vars_, rows, rng, via)
        if via == "query":
            if fmt != "tsv" and self._query_spells_table(case):
                # a lazily evaluated result may be partly iterated (and asked for its length) before it is serialised
                case["pre"] = rng.choice([0, 0, 1, 1, 2, 3, 7])
                case["touch"] = rng.choice([None, None, "len", "bool"])
            else:
                case["via"] = "direct"
        return case

    def _mk(self, fmt, ask, vars_, rows, rng, via="direct"):
        return {"fmt": fmt, "ask": ask, "vars": vars_, "rows": rows,
                "style": {"sq": rng.random() < 0.4, "esc_all": rng.random() < 0.5, "bare": rng.random() < 0.5,
                          "cross": rng.random() < 0.3},
                "bytes": rng.random() < 0.75, "via": via,
                # CSV: 0 byte source (rdflib parser only), 1 text newline="", 2 text newline LF
                "src": rng.choice([0, 0, 1, 2]) if fmt == "csvp" else rng.choice([1, 2]), "pre": 0, "touch": None}

    # ------------------------------------------------------------ implementation
    def _result(self, case):
        """the Result object to serialise: built directly, or by the engine from a VALUES query when the
        case can be spelled as one"""
        if case["via"] == "query":
            r = self._via_query(case)
            if r is not None:
                return r
        if case["ask"] is not None:
            r = Result("ASK")
            r.askAnswer = case["ask"]
            return r
        r = Result("SELECT")
        r.vars = [Variable(v) for v in case["vars"]]
        r.bindings = [{Variable(k): (None if t is None else build(t)) for k, t in row} for row in case["rows"]]
        return r

    def _query_text(self, case):
        """the table as a VALUES query, or None when it cannot be spelled as one"""
        if case["ask"] is not None:
            return "ASK {}" if case["ask"] else "ASK { <urn:a> <urn:b> <urn:c> }"
        vars_ = case["vars"]
        if not vars_ or any(not (v.isascii() and v.replace("_", "a").isalnum()) for v in vars_):
            return None
        lines = []
        for row in case["rows"]:
            if any(t is None for _, t in row):
                return None          # a solution of the engine never binds a variable to None
            cells = []
            for v in vars_:
                t = dict((k, x) for k, x in row).get(v)
                if t is None:
                    cells.append("UNDEF")
                elif t[0] == "B" or (t[0] == "I" and not iri_ok_tsv(t[1])) or (t[0] == "L" and t[2] and not iri_ok_tsv(t[2])):
                    return None
                else:
                    cells.append(build(t).n3())
            lines.append("(" + " ".join(cells) + ")")
        return "SELECT %s WHERE { VALUES (%s) { %s } }" % (" ".join("?" + v for v in vars_), " ".join("?" + v for v in vars_),
                                                         " ".join(lines))

    def _query_spells_table(self, case):
        """generation time: the engine's answer to the query is the table of the case"""
        q = self._query_text(case)
        if q is None:
            return False
        if case["ask"] is not None:
            return True
        try:
            r = Graph().query(q)
            got = [[tk(b[v]) if v in b else None for v in r.vars] for b in r.bindings]
            want = [[dict((k, x) for k, x in row).get(v) for v in case["vars"]] for row in case["rows"]]
            return [str(v) for v in r.vars] == case["vars"] and got == want
        except Exception:  # noqa: BLE001
            return False

    def _via_query(self, case):
        """a fresh, still lazy result of the engine"""
        q = self._query_text(case)
        return None if q is None else Graph().query(q)

    def run_impl(self, case):
        fmt = case["fmt"]
        try:
            if fmt == "tsv":
                doc = tsv_doc(case)
                src = io.BytesIO(doc.encode("utf-8")) if case["bytes"] else io.StringIO(doc)
                return self._obs(Result.parse(src, format="tsv"))
            res = self._result(case)
            if case.get("pre"):
                it = iter(res)
                for _ in range(case["pre"]):
                    next(it, None)
            if case.get("touch") == "len":
                len(res)
            elif case.get("touch") == "bool":
                bool(res)
            try:
                data = res.serialize(format="csv" if fmt == "csvp" else fmt)
            except ResultException:
                return {"k": "refused"}   # the serialiser says the result cannot be expressed in this format
            if fmt in ("csv", "csvp"):
                text = data.decode("utf-8")
                src = csv_source(text, case.get("src", 1))
                if fmt == "csv":
                    return {"k": "cells", "m": list(csv.reader(src))}
                return self._obs(Result.parse(src, format="csv"))
            return self._obs(Result.parse(io.BytesIO(data), format=fmt))
        except Exception as e:  # noqa: BLE001
            return {"k": "err", "exc": type(e).__name__}

    def _obs(self, r):
        if r.type == "ASK":
            return {"k": "ask", "b": bool(r.askAnswer)}
        return {"k": "sel", "vars": [str.__str__(v) for v in r.vars],
                "rows": [[[str.__str__(k), tk(t)] for k, t in b.items()] for b in r.bindings]}

    def on_timeout(self, case):
        return {"k": "err", "exc": "timeout"}

    # ------------------------------------------------------------ Coq text
    def coq_case(self, case):
        fmt = {"json": "FJson", "xml": "FXml", "tsv": "FTsv", "csv": "FCsv", "csvp": "FCsvP"}[case["fmt"]]
        st = case["style"]
        rows = clist(clist(ctuple(cstr(k), copt(t, c_term)) for k, t in row) for row in case["rows"])
        return ("{| c_fmt := %s; c_ask := %s; c_vars := %s; c_rows := %s; "
                "c_style := {| st_sq := %s; st_esc_all := %s; st_bare := %s; st_cross := %s |}; c_bytes := %s; c_src := %s; c_pre := %s |}"
                % (fmt, copt(case["ask"], cbool), clist(cstr(v) for v in case["vars"]), rows,
                   cbool(st["sq"]), cbool(st["esc_all"]), cbool(st["bare"]), cbool(st["cross"]), cbool(case["bytes"]), cN(case.get("src", 1)), cN(case.get("pre", 0))))

    def coq_obs(self, o):
        if o["k"] == "err":
            return "OErr"
        if o["k"] == "refused":
            return "ORefused"
        if o["k"] == "ask":
            return f"(OAsk {cbool(o['b'])})"
        if o["k"] == "cells":
            return "(OCells %s)" % clist(clist(cstr(x) for x in row) for row in o["m"])
        return "(OSel %s %s)" % (clist(cstr(v) for v in o["vars"]),
                                 clist(clist(ctuple(cstr(k), c_term(t)) for k, t in row) for row in o["rows"]))

    def nontrivial(self, case, obs):
        return case["ask"] is not None or any(t is not None for row in case["rows"] for _, t in row)

    def features(self, case, obs):
        f = {"fmt_" + case["fmt"]: 1, "obs_" + obs["k"]: 1, "rows": len(case["rows"]), "via_" + case["via"]: 1}
        if case["ask"] is not None:
            f["ask"] = 1
        f["vars_%d" % len(case["vars"])] = 1
        for row in case["rows"]:
            bound = [t for _, t in row if t is not None]
            if not bound:
                f["row_all_unbound"] = f.get("row_all_unbound", 0) + 1
            if case["vars"] and table_cell(row, case["vars"][-1]) is None:
                f["row_trailing_unbound"] = f.get("row_trailing_unbound", 0) + 1
            for t in bound:
                f["term_" + t[0]] = f.get("term_" + t[0], 0) + 1
                txt = "".join(x for x in t[1:] if x)
                if any(ord(c) > 0xFFFF for c in txt):
                    f["non_bmp"] = f.get("non_bmp", 0) + 1
                if any(ord(c) < 32 for c in txt):
                    f["control_char"] = f.get("control_char", 0) + 1
        return f

    def shrink(self, case):
        for c in self._shrink_raw(case):
            # a smaller case of a query result must still be a table the engine produces from a VALUES query
            if c.get("via") != "query" or self._query_spells_table(c):
                yield c

    def _shrink_raw(self, case):
        rows, vars_ = case["rows"], case["vars"]
        for i in range(len(rows)):
            yield dict(case, rows=rows[:i] + rows[i + 1:])
        for v in vars_:
            if case["fmt"] == "tsv" and len(vars_) == 1:
                break
            c2 = dict(case, vars=[x for x in vars_ if x != v], rows=[[kv for kv in row if kv[0] != v] for row in rows])
            if len(vars_) == 1:
                c2.update(via="direct", pre=0)
            yield c2
        for i, row in enumerate(rows):
            for j, (k, t) in enumerate(row):
                yield dict(case, rows=rows[:i] + [row[:j] + row[j + 1:]] + rows[i + 1:])
                if t is None:
                    continue
                for pos in range(1, len(t)):
                    s = t[pos]
                    if not s:
                        continue
                    for cut in range(len(s)):
                        t2 = list(t)
                        t2[pos] = s[:cut] + s[cut + 1:]
                        if stable(t2) and (t2[0] != "B" or t2[1]):
                            yield dict(case, rows=rows[:i] + [row[:j] + [[k, t2]] + row[j + 1:]] + rows[i + 1:])
        if case["via"] != "direct" and not case.get("pre"):
            yield dict(case, via="direct")
        if case.get("pre"):
            yield dict(case, pre=case["pre"] - 1)
        if case.get("touch"):
            yield dict(case, touch=None)

    def sweep(self):
        """every unbound pattern of a 2x2 table, and every character of the alphabet in every string
        position of a term, for every format"""
        base_style = {"sq": False, "esc_all": False, "bare": False, "cross": False}
        a, b = ["I", "http://e/a"], ["L", "x", None, "en"]
        for fmt in ("json", "xml", "tsv", "csv", "csvp"):
            for mask in itertools.product([0, 1], repeat=4):
                rows = []
                for r in range(2):
                    row = []
                    if mask[2 * r]:
                        row.append(["x", a])
                    if mask[2 * r + 1]:
                        row.append(["y", b])
                    rows.append(row)
                yield {"fmt": fmt, "ask": None, "vars": ["x", "y"], "rows": rows, "style": base_style,
                       "bytes": True, "via": "direct"}
            alphabet = PLAIN[:2] + list("\"'\\&<>\t\n\r;,") + CONTROL + BREAKS + UNI + NONCHAR
            for ch in alphabet:
                for sq in (False, True):
                    st = dict(base_style, sq=sq, esc_all=sq)
                    terms = [["L", "a" + ch + "b", None, None], ["L", ch, None, "en"], ["L", "x", "http://e/d" + ch, None],
                             ["I", "http://e/" + ch], ["B", "b" + ch + "c"]]
                    for t in terms:
                        if not stable(t):
                            continue
                        if fmt == "tsv" and ((t[0] == "I" and not iri_ok_tsv(t[1])) or (t[0] == "L" and t[2] and not iri_ok_tsv(t[2]))
                                             or t[0] == "B"):
                            continue
                        for bytes_ in (True, False) if fmt == "tsv" else (True,):
                            for src in {"csv": (1, 2), "csvp": (0, 1, 2)}.get(fmt, (1,)):
                                yield {"fmt": fmt, "ask": None, "vars": ["x"], "rows": [[["x", t]]], "style": st,
                                       "bytes": bytes_, "via": "direct", "src": src}
                    if fmt != "tsv" and not sq:
                        break


# ---------------------------------------------------------------- the csv module itself
CSV_ATOMS = ["a", "b", "", " ", ",", '"', '""', "\r", "\n", "\r\n", "x,y", 'q"r', "\x0c", "\x85", "\u2028", "\x1c", "\x0b",
             "\u00e9", "\U0001F600", "'", ";", "\t", "_:", "http://"]


class CsvTable(Suite):
    """ties the model of csv.writer / csv.reader (dialect of CSVResultSerializer) to Python's csv module:
    arbitrary tables of strings written and read back, and arbitrary text given to the reader"""

    name = "csvtable"
    imports = "From RV Require Import Results.Model."
    case_ty = "csvcase"
    obs_ty = "(list N * option (list (list (list N))))%type"
    model = "csvt_model"
    oeq = "csvt_obs_eqb"
    spec = "csvt_spec"
    corr = "csv.writer(delimiter=',').writerow, csv.reader over codecs.StreamReader / io.StringIO(newline='') / io.StringIO"
    quick_n = 700
    thorough_n = 15000

    def gen(self, rng, i):
        src = rng.choice([0, 1, 1, 2])
        if rng.random() < 0.3:
            n = rng.choice([0, 1, 2, 4, 8])
            raw = "".join(rng.choice(CSV_ATOMS + ["\r\n", ",", '"', "a"]) for _ in range(n))
            return {"src": src, "table": [], "raw": raw}
        table = []
        for _ in range(rng.choice([0, 1, 1, 2, 3, 4])):
            row = []
            for _ in range(rng.choice([0, 1, 1, 2, 3])):
                row.append("".join(rng.choice(CSV_ATOMS) for _ in range(rng.choice([0, 1, 1, 2, 3]))))
            table.append(row)
        return {"src": src, "table": table, "raw": None}

    def run_impl(self, case):
        if case["raw"] is not None:
            text = case["raw"]
        else:
            buf = io.StringIO(newline="")
            w = csv.writer(buf, delimiter=",")
            for row in case["table"]:
                w.writerow(row)
            text = buf.getvalue()
        src = csv_source(text, case["src"])
        if case["src"] == 0:
            import codecs
            src = codecs.getreader("utf-8")(src)
        try:
            rows = list(csv.reader(src, delimiter=","))
        except csv.Error:
            rows = None
        return {"text": text, "rows": rows}

    def coq_case(self, case):
        return "{| ct_src := %s; ct_table := %s; ct_raw := %s |}" % (
            cN(case["src"]), clist(clist(cstr(x) for x in row) for row in case["table"]), copt(case["raw"], cstr))

    def coq_obs(self, o):
        return ctuple(cstr(o["text"]), copt(o["rows"], lambda m: clist(clist(cstr(x) for x in row) for row in m)))

    def nontrivial(self, case, obs):
        return bool(case["raw"]) or any(case["table"])

    def features(self, case, obs):
        return {"src_%d" % case["src"]: 1, "raw": int(case["raw"] is not None), "error": int(obs["rows"] is None)}

    def shrink(self, case):
        if case["raw"] is not None:
            r = case["raw"]
            for i in range(len(r)):
                yield dict(case, raw=r[:i] + r[i + 1:])
            return
        t = case["table"]
        for i in range(len(t)):
            yield dict(case, table=t[:i] + t[i + 1:])
            for j in range(len(t[i])):
                yield dict(case, table=t[:i] + [t[i][:j] + t[i][j + 1:]] + t[i + 1:])
                for k in range(len(t[i][j])):
                    yield dict(case, table=t[:i] + [t[i][:j] + [t[i][j][:k] + t[i][j][k + 1:]] + t[i][j + 1:]] + t[i + 1:])

    def sweep(self):
        atoms = ["a", "", ",", '"', "\r", "\n", "\x0c"]
        for src in (0, 1, 2):
            for a in atoms:
                for b in atoms:
                    yield {"src": src, "table": [[a + b]], "raw": None}
                    yield {"src": src, "table": [[a, b], [b]], "raw": None}
                    for c in atoms:
                        yield {"src": src, "table": [], "raw": a + b + c}


# ---------------------------------------------------------------- documents rdflib did not write
NS = "{http://www.w3.org/2005/sparql-results#}"
XMLNS = "{http://www.w3.org/XML/1998/namespace}"


def c_json(v):
    if v is None:
        return "JNull"
    if v is True or v is False:
        return f"(JBool {cbool(v)})"
    if isinstance(v, str):
        return f"(JStr {cstr(v)})"
    if isinstance(v, list):
        return "(JArr %s)" % clist(c_json(x) for x in v)
    return "(JObj %s)" % clist(ctuple(cstr(k), c_json(x)) for k, x in v.items())


def c_pelem(e):
    tag, attrs, text, kids = e
    return "(PE %s %s %s %s)" % (cstr(tag), clist(ctuple(cstr(k), cstr(v)) for k, v in attrs), copt(text, cstr),
                                 clist(c_pelem(k) for k in kids))


def et_of(e):
    import xml.etree.ElementTree as ET
    tag, attrs, text, kids = e
    el = ET.Element(tag, {k: v for k, v in attrs})
    el.text = text
    for k in kids:
        el.append(et_of(k))
    return el


RTEXT = ["x", "a b", " pad ", "7", "true", "&<>\"'", "\u00e9\U0001F600", "http://e/a", "_:b", "?v"]
RNAMES = ["x", "y", "?x", "?", "a_1", "\u00e9"]


class Readers(Suite):
    """the JSON and XML result readers on documents that rdflib did not write: legacy and foreign shapes,
    extra and missing members, unexpected elements; pure correspondence (reader model = reader)"""

    name = "readers"
    imports = "From RV Require Import Results.Model."
    case_ty = "rcase"
    obs_ty = "obs"
    model = "reader_obs"
    oeq = "obs_eqb"
    spec = "reader_spec"
    corr = "JSONResult.__init__/_get_bindings/parseJsonTerm, XMLResult.__init__/parseTerm, Variable.__new__"
    quick_n = 600
    thorough_n = 12000

    # ---- JSON
    def _jterm(self, rng):
        r = rng.random()
        v = rng.choice(RTEXT)
        if r < 0.2:
            d = {"type": "uri", "value": v}
        elif r < 0.35:
            d = {"type": "bnode", "value": v}
        elif r < 0.5:
            d = {"type": "literal", "value": v}
        elif r < 0.6:
            d = {"type": "literal", "value": v, "xml:lang": rng.choice(["en", "en-GB", ""])}
        elif r < 0.72:
            d = {"type": "literal", "value": v, "datatype": rng.choice(["http://e/dt", "", XSD + "string"])}
        elif r < 0.84:
            d = {"type": "typed-literal", "value": v, "datatype": rng.choice(["http://e/dt", XSD + "string"])}
        elif r < 0.88:
            d = {"type": "typed-literal", "value": v}
        elif r < 0.92:
            d = {"type": rng.choice(["triple", "URI", ""]), "value": v}
        elif r < 0.95:
            d = {"type": "literal", "value": v, "datatype": "http://e/dt", "xml:lang": "en"}
        elif r < 0.97:
            d = {"type": "literal", "value": v, "datatype": None, "xml:lang": None}
        else:
            d = {"value": v}
        if rng.random() < 0.05:
            d.pop("value", None)
        if rng.random() < 0.1:
            d["extra"] = [True, None, {}]
        if rng.random() < 0.2:
            d = dict(reversed(list(d.items())))
        return d

    def _json(self, rng):
        names = rng.sample(RNAMES, rng.choice([0, 1, 2, 3]))
        rows = []
        for _ in range(rng.choice([0, 1, 2, 3])):
            row = {}
            for n in names + ([rng.choice(RNAMES)] if rng.random() < 0.2 else []):
                if rng.random() < 0.6:
                    row[n] = self._jterm(rng)
            rows.append(row if rng.random() < 0.93 else rng.choice([[], "row", None]))
        doc = {"head": {"vars": names}, "results": {"bindings": rows}}
        r = rng.random()
        if r < 0.15:
            doc = {"head": {}, "boolean": rng.choice([True, False, "false", "", None, [], [False], {}])}
        elif r < 0.2:
            doc["boolean"] = rng.choice([True, False])
        elif r < 0.25:
            doc.pop("head")
        elif r < 0.3:
            doc["head"] = rng.choice([{}, {"link": []}, {"vars": names + [rng.choice(["", None, True])]}])
        elif r < 0.34:
            doc["results"] = rng.choice([{}, {"bindings": {}}, [], None])
        elif r < 0.37:
            doc = rng.choice([[], [doc], {}, {"head": {"vars": []}}])
        if rng.random() < 0.3:
            doc = dict(reversed(list(doc.items()))) if isinstance(doc, dict) else doc
        return doc

    # ---- XML
    def _xterm(self, rng):
        r = rng.random()
        text = rng.choice(RTEXT + [None])
        if r < 0.25:
            return [NS + "uri", [], text, []]
        if r < 0.4:
            return [NS + "bnode", [], text or "b0", []]
        attrs = []
        if rng.random() < 0.35:
            attrs.append(["datatype", rng.choice(["http://e/dt", "", XSD + "string"])])
        if rng.random() < 0.35:
            attrs.append([XMLNS + "lang", rng.choice(["en", "en-GB", ""])])
        if rng.random() < 0.1:
            attrs.append(["other", "1"])
        tag = NS + "literal" if r < 0.9 else rng.choice([NS + "triple", "literal", "{urn:other}literal"])
        kids = [[NS + "uri", [], "http://nested", []]] if rng.random() < 0.05 else []
        return [tag, attrs, text, kids]

    def _xml(self, rng):
        names = rng.sample(RNAMES, rng.choice([0, 1, 2, 3]))
        head_kids = []
        for n in names:
            head_kids.append([NS + "variable", [["name", n]] if rng.random() < 0.93 else [], None, []])
            if rng.random() < 0.15:
                head_kids.append([NS + "link", [["href", "http://e/l"]], None, []])
        results = []
        for _ in range(rng.choice([0, 1, 2, 3])):
            binds = []
            for n in names + ([rng.choice(RNAMES)] if rng.random() < 0.25 else []):
                if rng.random() < 0.6:
                    kids = [self._xterm(rng)] if rng.random() < 0.93 else []
                    if rng.random() < 0.1:
                        kids.append(self._xterm(rng))
                    attrs = [["name", n]] if rng.random() < 0.93 else []
                    binds.append([NS + "binding" if rng.random() < 0.93 else rng.choice([NS + "bind", "binding"]), attrs, None, kids])
            results.append([NS + "result" if rng.random() < 0.9 else rng.choice([NS + "results", "{urn:other}result"]),
                            [], None, binds])
        kids = [[NS + "head", [], None, head_kids], [NS + "results", [], None, results]]
        r = rng.random()
        if r < 0.15:
            kids = [[NS + "head", [], None, []],
                    [NS + "boolean", [], rng.choice(["true", "false", " TRUE \n", "True", "1", "", None, "truex"]), []]]
        elif r < 0.2:
            kids.append([NS + "boolean", [], "true", []])
        elif r < 0.25:
            kids.insert(0, [NS + "head", [], None, [[NS + "variable", [["name", "extra"]], None, []]]])
        elif r < 0.3:
            kids = kids[:1]
        elif r < 0.35:
            kids = [kids[1]]
        elif r < 0.4:
            kids = [[NS + "wrapper", [], None, kids]]
        if rng.random() < 0.3:
            kids.reverse()
        for k in kids:
            if k[2] == "":
                k[2] = None
        return [rng.choice([NS + "sparql", "sparql", NS + "other"]), [], None, kids]

    def gen(self, rng, i):
        if rng.random() < 0.5:
            return {"k": "json", "doc": self._json(rng)}
        return {"k": "xml", "doc": self._xml(rng)}

    def run_impl(self, case):
        try:
            if case["k"] == "json":
                import json as _json
                data = _json.dumps(case["doc"], ensure_ascii=False).encode("utf-8")
                return C16._obs(None, Result.parse(io.BytesIO(data), format="json"))
            import xml.etree.ElementTree as ET
            data = ET.tostring(et_of(case["doc"]), encoding="utf-8")
            return C16._obs(None, Result.parse(io.BytesIO(data), format="xml"))
        except Exception as e:  # noqa: BLE001
            return {"k": "err", "exc": type(e).__name__}

    def coq_case(self, case):
        if case["k"] == "json":
            return "(RJson %s)" % c_json(case["doc"])
        return "(RXml %s)" % c_pelem(case["doc"])

    coq_obs = C16.coq_obs

    def nontrivial(self, case, obs):
        return obs["k"] != "err"

    def features(self, case, obs):
        return {"k_" + case["k"]: 1, "obs_" + obs["k"]: 1}

    def shrink(self, case):
        return []


# ---------------------------------------------------------------- Result.parse / Result.serialize dispatch
# (the graph result parsers registered under RDF media types are not probed: they fail in format-specific ways)
D_NAMES = ["json", "xml", "csv", "tsv", "txt", "application/sparql-results+json", "application/sparql-results+xml",
           "text/csv", "text/tab-separated-values", "application/x-unknown", "", "JSON", "json "]
D_PARAMS = ["", ";charset=utf-8", "; charset=utf-8", " ;q=1", ";", ";;x"]


class Dispatch(Suite):
    """which parser Result.parse(format=, content_type=) and which serialiser Result.serialize(format=) pick, observed on
    the real code path: the parser is recognised by how it fails on an empty source, the serialiser by what it writes for an
    ASK result"""

    name = "dispatch"
    imports = "From RV Require Import Results.Dispatch."
    case_ty = "dcase"
    obs_ty = "option N"
    model = "dispatch_obs"
    oeq = "dispatch_eqb"
    spec = "dispatch_spec"
    corr = "Result.parse (plugin key from format / content_type), Result.serialize (format), rdflib.plugin registrations"
    quick_n = 150
    thorough_n = 1500

    def gen(self, rng, i):
        if rng.random() < 0.3:
            return {"ser": True, "format": rng.choice(D_NAMES + [None]), "ct": None}
        fmt = rng.choice(D_NAMES + [None, None, None]) if rng.random() < 0.5 else None
        ct = (rng.choice(D_NAMES) + rng.choice(D_PARAMS)) if rng.random() < 0.8 else None
        return {"ser": False, "format": fmt, "ct": ct}

    def run_impl(self, case):
        from rdflib.plugin import PluginException
        if case["ser"]:
            r = Result("SELECT")
            r.vars = [Variable("x")]
            r.bindings = []
            try:
                data = r.serialize(**({} if case["format"] is None else {"format": case["format"]}))
            except PluginException:
                return None
            if data.startswith(b"{"):
                return 1
            if data.startswith(b"<?xml"):
                return 2
            if data == b"x\r\n":
                return 4
            return 5
        try:
            Result.parse(io.BytesIO(b""), format=case["format"], content_type=case["ct"])
            return 0
        except PluginException:
            return None
        except Exception as e:  # noqa: BLE001
            n = type(e).__name__
            return {"JSONDecodeError": 1, "ParseError": 2, "ParseException": 3, "StopIteration": 4}.get(n, 6)

    def coq_case(self, case):
        return "{| d_ser := %s; d_format := %s; d_ct := %s |}" % (cbool(case["ser"]), copt(case["format"], cstr), copt(case["ct"], cstr))

    def coq_obs(self, o):
        return copt(o, cN)

    def features(self, case, obs):
        return {"ser": int(case["ser"]), "unknown": int(obs is None)}

    def sweep(self):
        for n in D_NAMES + [None]:
            yield {"ser": True, "format": n, "ct": None}
            for p in D_PARAMS:
                yield {"ser": False, "format": None, "ct": None if n is None else n + p}
                yield {"ser": False, "format": n, "ct": "text/csv" + p}


SUITES = [C16(), CsvTable(), Readers(), Dispatch()]

TRUSTED = [
    "Coq 8.16.1 kernel and standard library; coqc's vm_compute",
    "harness/c16.py: case encoding, the structural term key tk(), the independent W3C TSV writer tsv_doc(), the three kinds of "
    "CSV source (csv_source), ElementTree's serialiser for the foreign XML documents of the readers suite, the probes of the "
    "dispatch suite (a parser is recognised by how it fails on an empty source)",
    "Python's json module (json.loads(json.dumps(v)) == v on str/bool/list/dict values; a quantified hypothesis of "
    "C16_json_result), xml.sax.saxutils.XMLGenerator element structure and ignorableWhitespace writing verbatim, "
    "expat/ElementTree tokenisation outside character data and attribute values, pyparsing's And/MatchFirst/ZeroOrMore/Regex "
    "semantics; the csv module is NOT trusted any more: its writer and reader are modelled (Modules/_csv.c) and tied by the "
    "csvtable suite",
]
ASSUMPTIONS = [
    "Literal(lex, datatype, lang) keeps the triple (lex, datatype, lang) for the terms of a case (normalisation is "
    "property C09); generated literals are checked to be fixed points of their constructor",
    "row dictionaries bind only variables of the result, each at most once (a Python dict); variable names are not empty "
    "and do not start with '?' (Variable() changes such names before any format is involved)",
    "strings are sequences of Unicode scalar values (no lone surrogates)",
    "TSV: the model has no pyparsing whitespace skipping; on conformant renderings no token is preceded by blanks. "
    "The writer family: IRIREF, BLANK_NODE_LABEL, STRING_LITERAL1/2 with any optional ECHARs, and the bare forms true/false, "
    "[-]INTEGER, [-]DECIMAL in the spelling Literal() keeps; DOUBLE shorthands and +signed numbers are outside it (Literal() "
    "re-spells their lexical form), long-quoted strings and \\u escapes are not TSV term syntax for the reader",
    "results of Graph.query are lazily evaluated SELECT results; next() on iter(result) and len()/bool() before serialising are "
    "part of the case (Result object layer)",
    "XML: the model starts from the element tree with raw strings at the leaves (element nesting and tag recognition are those "
    "of the XML library); XMLGenerator.ignorableWhitespace writes its argument verbatim; a ResultException raised by "
    "Result.serialize is the observation 'refused' (demanded exactly for results with a character outside the XML 1.0 Char "
    "production)",
    "CSV: csv.writer/csv.reader behave as Modules/_csv.c of CPython 3.12 for the dialect (',', '\"', doublequote, CRLF, "
    "QUOTE_MINIMAL, no escapechar, not strict); io.StringIO(newline='') yields lines ending at LF, CR, CRLF, io.StringIO() at LF, "
    "codecs.StreamReader where str.splitlines cuts",
    "readers suite: BNode(None) (an empty <bnode/>) mints a label that is not compared; foreign documents avoid it",
    "lxml and orjson are not installed in the checked environment (the ElementTree / json code paths are the ones modelled)",
]
RULE = ("results: random result tables: format in {json, xml, tsv, csv read by csv.reader, csv read by CSVResultParser}, 0-4 "
        "variables from a pool of 7 (+7 exotic names incl. VT, U+FFFE, CR; TSV: names ending in U+1680), 0-6 rows, each cell "
        "bound with p in {.5,.7,.9}, explicit None values (json/csv), forced all-unbound rows and dead/trailing columns, terms: "
        "IRIs, blank nodes, plain/language/typed literals whose strings mix plain characters, XML/JSON/TSV/CSV metacharacters, "
        "entity look-alikes, CR/CRLF, C0/C1 controls, line separators, non-characters and non-BMP characters; ASK true/false; "
        "Result built directly or by the engine from a VALUES query (then kept lazy, next() called 0-7 times, len()/bool() asked); "
        "typed literals incl. negative integers and (negative) decimals; TSV rendering style and source kind random; CSV source "
        "kind in {bytes, text newline='', text newline LF}. csvtable: tables of 0-4 rows x 0-3 fields over 24 atoms (quotes, "
        "commas, CR, LF, CRLF, blanks, line separators, empty) and raw texts of 0-8 atoms, three line iterators. readers: "
        "foreign JSON/XML result documents derived from a valid one by ~12 kinds of perturbation each. dispatch: format names and "
        "content types with parameters. Distinct by full case content; non-trivial = ASK or at least one bound cell "
        "(results), a non-empty table/text (csvtable), a document the reader accepts (readers).")
