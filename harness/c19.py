"""C19 - Collection behaves like a Python list: correspondence between
coq/Collection/Model.v and rdflib/collection.py (+ Graph.value/items/set/remove).

Two suites: `collection` (histories of list operations on a well-formed list,
after every operation the result, list(c), len(c), every c[i] and all triples of
the graph are observed) and `collreads` (reads on cyclic / broken / forked chains)."""
from __future__ import annotations

import gc
import itertools
import signal
import warnings

from .core import CaseTimeout, Suite, cN, cZ, cbool, clist, ctuple
from .terms import TERM_POOL, rdflib, term, tkey

warnings.filterwarnings("ignore", category=DeprecationWarning)
from rdflib import RDF, BNode, Graph, Literal, URIRef  # noqa: E402
from rdflib.collection import Collection  # noqa: E402

NIL, FIRST, REST, HEAD, CELL0 = 20, 21, 22, 30, 100
FCELL0 = 50
FALSY = (5, 6, 7, 14)
STATIC = {NIL: RDF.nil, FIRST: RDF.first, REST: RDF.rest, HEAD: BNode("h")}
STATIC_ID = {tkey(t): i for i, t in STATIC.items()}
for _i, _t in enumerate(TERM_POOL):
    STATIC_ID[tkey(_t)] = _i + 1

# tie of the model's [truthy] table and of "distinct ids = unequal terms" to the real terms
for _i in list(range(1, 15)) + [NIL, FIRST, REST, HEAD]:
    _t = STATIC[_i] if _i in STATIC else term(_i)
    assert bool(_t) == (_i not in FALSY), ("truthy table of Collection/Model.v is wrong for", _i)
for _a, _b in itertools.combinations(list(range(1, 15)), 2):
    assert term(_a) != term(_b) and not (term(_a) == term(_b))

OP_TIMEOUT = 0.5  # CPU seconds: a single Collection call that computes longer is a hang


def _vtalarm(signum, frame):
    raise CaseTimeout()


def guarded(fn, seconds=OP_TIMEOUT):
    """run fn under a CPU-time alarm (ITIMER_VIRTUAL: immune to machine load); the enclosing
    per-case wall-clock alarm of the driver stays armed"""
    signal.signal(signal.SIGVTALRM, _vtalarm)
    was = gc.isenabled()
    gc.disable()  # a full collection of the driver's large heap must not be mistaken for a hang
    signal.setitimer(signal.ITIMER_VIRTUAL, seconds)
    try:
        return fn()
    finally:
        signal.setitimer(signal.ITIMER_VIRTUAL, 0)
        if was:
            gc.enable()


class World:
    """numbering of terms: pool ids, fixed ids, cells 100.. in order of creation"""

    def __init__(self, ncells):
        self.by_id = dict(STATIC)
        self.bn = {"h": HEAD, "b1": 8, "b2": 13}
        for k in range(FCELL0, FCELL0 + 6):  # cells of other collections in the same graph ("frozen" subjects)
            self.by_id[k] = BNode("f%d" % k)
            self.bn["f%d" % k] = k
        self.next = CELL0
        for _ in range(ncells):
            self.new_cell()

    def new_cell(self):
        b = BNode("c%d" % self.next)
        self.by_id[self.next] = b
        self.bn[str(b)] = self.next
        self.next += 1
        return b

    def t(self, i):
        return self.by_id[i] if i in self.by_id else term(i)

    def ident(self, t):
        if isinstance(t, BNode):
            k = str.__str__(t)
            if k not in self.bn:
                self.bn[k] = self.next
                self.by_id[self.next] = t
                self.next += 1
            return self.bn[k]
        return STATIC_ID.get(tkey(t), 999)

    def discover(self, g):
        """number the blank nodes created by the last operation in the order the
        code created them: along the chain"""
        node, seen = self.t(HEAD), set()
        while node is not None and node not in seen and len(seen) < 1000:
            seen.add(node)
            self.ident(node)
            node = g.value(node, RDF.rest)
        for s, p, o in sorted(g, key=lambda x: tuple(map(str, x))):
            self.ident(s), self.ident(o)


def outcome(w, fn):
    try:
        v = guarded(fn)
    except CaseTimeout:
        return ["hang"]
    except IndexError:
        return ["exc", "IndexError"]
    except KeyError:
        return ["exc", "KeyError"]
    except ValueError:
        return ["exc", "ValueError"]
    except AssertionError:
        return ["exc", "AssertionError"]
    except Exception:  # noqa: BLE001
        return ["exc", "OtherError"]
    if v is None or isinstance(v, Collection):
        return ["none"]
    if isinstance(v, bool):
        return ["bool", v]
    if isinstance(v, int):
        return ["nat", v]
    if isinstance(v, list):
        return ["list", [w.ident(x) for x in v]]
    return ["term", w.ident(v)]


def apply_op(w, c, op):
    k = op[0]
    if k == "get":
        return outcome(w, lambda: c[op[1]])
    if k == "set":
        return outcome(w, lambda: c.__setitem__(op[1], w.t(op[2])))
    if k == "del":
        return outcome(w, lambda: c.__delitem__(op[1]))
    if k == "append":
        return outcome(w, lambda: c.append(w.t(op[1])))
    if k == "iadd":
        return outcome(w, lambda: c.__iadd__([w.t(x) for x in op[1]]))
    if k == "clear":
        return outcome(w, lambda: c.clear())
    if k == "len":
        return outcome(w, lambda: len(c))
    if k == "iter":
        return outcome(w, lambda: list(c))
    if k == "index":
        return outcome(w, lambda: c.index(w.t(op[1])))
    if k == "contains":
        return outcome(w, lambda: w.t(op[1]) in c)
    if k == "n3":
        return outcome(w, lambda: n3_members(w, c.n3()))
    if k == "iaddself":
        # c += c, c += iter(c), c += another Collection object over the same node
        how = op[1]
        return outcome(w, lambda: c.__iadd__(c if how == 0 else iter(c) if how == 1 else Collection(c.graph, c.uri)))
    raise ValueError(k)


def n3_members(w, text):
    """the members named by Collection.n3(), read back from the string (tokens never contain a blank here)"""
    toks = text.split(" ")
    assert toks[0] == "(" and toks[-1] == ")", text
    by_n3 = {}
    for i in list(range(1, 15)) + [NIL, FIRST, REST, HEAD] + list(range(FCELL0, FCELL0 + 6)) + [k for k in w.by_id if k >= CELL0]:
        by_n3[w.t(i).n3()] = i
    return [w.t(by_n3[t]) if t in by_n3 else URIRef("urn:x-verif:unknown-n3-token") for t in toks[1:-1] if t != ""]


def c_res(r):
    k = r[0]
    if k == "none":
        return "RNone"
    if k == "term":
        return f"(RTerm {cN(r[1])})"
    if k == "nat":
        return f"(RNat {cN(r[1])})"
    if k == "bool":
        return f"(RBool {cbool(r[1])})"
    if k == "list":
        return f"(RList {clist(cN(x) for x in r[1])})"
    if k == "exc":
        return f"(RExc {r[1]})"
    return "RHang"


def c_op(op):
    k = op[0]
    if k == "get":
        return f"OGet {cZ(op[1])}"
    if k == "set":
        return f"OSet {cZ(op[1])} {cN(op[2])}"
    if k == "del":
        return f"ODel {cZ(op[1])}"
    if k == "append":
        return f"OAppend {cN(op[1])}"
    if k == "iadd":
        return f"OIadd {clist(cN(x) for x in op[1])}"
    if k == "clear":
        return "OClear"
    if k == "len":
        return "OLen"
    if k == "iter":
        return "OIter"
    if k == "index":
        return f"OIndex {cN(op[1])}"
    if k == "init":
        return f"OInit {clist(cN(x) for x in op[1])}"
    if k == "n3":
        return "ON3"
    if k == "iaddself":
        return "OIaddSelf"
    return f"OContains {cN(op[1])}"


def c_triples(ts):
    return clist(ctuple(*(cN(x) for x in t)) for t in ts)


def py_step(xs, op):
    """the Python list the history produces (used only to steer generation)"""
    k = op[0]
    try:
        if k == "set":
            xs[op[1]] = op[2]
        elif k == "del":
            del xs[op[1]]
        elif k == "append":
            xs.append(op[1])
        elif k in ("iadd", "init"):
            xs.extend(op[1])
        elif k == "iaddself":
            xs.extend(list(xs))
        elif k == "clear":
            del xs[:]
    except IndexError:
        pass


def triggers(xs, op):
    """the one remaining known-finding region: item assignment at index == len"""
    return op[0] == "set" and op[1] == len(xs)


class C19(Suite):
    name = "collection"
    imports = "From RV Require Import Collection.Model."
    case_ty = "case"
    obs_ty = "list snap"
    kf = "kf"
    kf_ids = {2: "F3d"}
    corr = ("Collection.__getitem__/__setitem__/__delitem__/append/__iadd__/clear/__len__/__iter__/index/"
            "_get_container/_end, Graph.items/value/set/remove")
    quick_n = 900
    thorough_n = 24000
    timeout_s = 30.0

    # case = {"init": [member ids], "noise": [[s,p,o]...], "ops": [op...]}

    def gen(self, rng, i):
        n0 = rng.choice([0, 1, 1, 2, 2, 3, 3, 4, 5])
        vocab = rng.sample([5, 6, 7, 14], rng.choice([1, 2, 2])) + rng.sample([1, 10, 8, 11, NIL, 9], rng.choice([1, 2]))
        init = [rng.choice(vocab) for _ in range(n0)]
        noise = []
        for _ in range(rng.choice([0, 0, 1, 2, 3])):
            # noise never mentions a node the model could later hand out as a fresh cell
            nodes = [1, 2, HEAD, 5, NIL] + ([CELL0] if n0 >= 2 else [])
            noise.append([rng.choice(nodes[:4] + nodes[5:]), rng.choice([3, 4]), rng.choice(nodes)])
        if rng.random() < 0.45:
            # a second collection in the same graph (cells 50..): its tail may lead into the list under test,
            # it may be malformed, its head may be a member of the list under test (nested list)
            k = rng.choice([1, 2, 3])
            tails = [NIL, NIL, HEAD, 12] + ([CELL0] if n0 >= 2 else [])
            for j in range(k):
                noise.append([FCELL0 + j, FIRST, rng.choice(vocab)])
                noise.append([FCELL0 + j, REST, FCELL0 + j + 1 if j + 1 < k else rng.choice(tails)])
            if rng.random() < 0.3:
                noise.append([FCELL0, REST, rng.choice(tails)])  # forked foreign cell
            if rng.random() < 0.3:
                noise.append([2, FIRST, 1])  # a first/rest statement about an unrelated IRI
            if rng.random() < 0.5:
                vocab = vocab + [FCELL0]
            rng.shuffle(noise)
        wild = rng.random() < 0.2  # may enter the remaining trigger region (c[len] = v)
        xs, ops = list(init), []
        for _ in range(rng.choice([1, 2, 3, 4, 5, 6, 8, 10])):
            for _try in range(20):
                op = self._gen_op(rng, xs, vocab)
                if wild or not triggers(xs, op):
                    break
            else:
                op = ["append", rng.choice(vocab)]
            ops.append(op)
            py_step(xs, op)
        return {"init": init, "noise": noise, "ops": ops}

    def _gen_op(self, rng, xs, vocab):
        n = len(xs)
        r = rng.random()
        idx = lambda: rng.choice(list(range(n)) * 3 + [n - 1, n - 1, 0, n, n + 1, n + 2, -1, -2, -n, -n - 1])  # noqa: E731
        if r < 0.10:
            return ["get", idx()]
        if r < 0.24:
            return ["set", idx(), rng.choice(vocab)]
        if r < 0.52:
            return ["del", idx()]
        if r < 0.70:
            return ["append", rng.choice(vocab)]
        if r < 0.80:
            return ["iadd", [rng.choice(vocab) for _ in range(rng.choice([0, 1, 2, 3]))]]
        if r < 0.85:
            return ["clear"]
        if r < 0.87:
            return ["len"]
        if r < 0.89:
            return ["iter"]
        if r < 0.93:
            return ["index", rng.choice(vocab + [12])]
        if r < 0.955:
            return ["init", [rng.choice(vocab) for _ in range(rng.choice([0, 1, 2]))]]
        if r < 0.97:
            return ["n3"]
        if r < 0.985:
            return ["iaddself", rng.choice([0, 0, 1, 2])]
        return ["contains", rng.choice(vocab + [12])]

    # ------------------------------------------------------------ implementation
    def run_impl(self, case):
        init = case["init"]
        w = World(max(0, len(init) - 1))
        g = Graph()
        for s, p, o in case["noise"]:
            g.add((w.t(s), w.t(p), w.t(o)))
        cells = [HEAD] + [CELL0 + k for k in range(len(init) - 1)]
        for k, x in enumerate(init):
            g.add((w.t(cells[k]), RDF.first, w.t(x)))
            g.add((w.t(cells[k]), RDF.rest, w.t(cells[k + 1]) if k + 1 < len(init) else RDF.nil))
        w.next = CELL0 + len(init)  # the model's first fresh cell
        c = Collection(g, w.t(HEAD)) if len(case["ops"]) % 2 else g.collection(w.t(HEAD))
        obs = []
        for op in case["ops"]:
            if op[0] == "init":
                # Collection(graph, uri, seq) on the node that already heads the list: a NEW object, used from now on
                box = []
                r = outcome(w, lambda: box.append(Collection(g, w.t(HEAD), [w.t(x) for x in op[1]])))
                if box:
                    c = box[0]
            else:
                r = apply_op(w, c, op)
            if r == ["hang"]:
                # nothing can be observed after a hang (the graph is in an arbitrary intermediate state): the history ends
                obs.append({"res": r, "items": r, "len": r, "gets": [], "triples": []})
                break
            w.discover(g)
            obs.append(self.snapshot(w, g, c, r))
        return obs

    @staticmethod
    def snapshot(w, g, c, r):
        items = outcome(w, lambda: list(c))
        ln = outcome(w, lambda: len(c))
        gets = []
        if ln[0] == "nat":
            gets = [outcome(w, (lambda j: (lambda: c[j]))(j)) for j in range(ln[1])]
        triples = sorted([w.ident(s), w.ident(p) if tkey(p) in STATIC_ID else 999, w.ident(o)] for s, p, o in g)
        return {"res": r, "items": items, "len": ln, "gets": gets, "triples": triples}

    def on_timeout(self, case):
        return []

    # ------------------------------------------------------------ Coq text
    def coq_case(self, case):
        return ("{| c_init := " + clist(cN(x) for x in case["init"]) + "; c_noise := " + c_triples(case["noise"])
                + "; c_ops := " + clist(c_op(o) for o in case["ops"]) + " |}")

    def coq_obs(self, obs):
        return clist(
            "{| s_res := " + c_res(s["res"]) + "; s_items := " + c_res(s["items"]) + "; s_len := " + c_res(s["len"])
            + "; s_gets := " + clist(c_res(x) for x in s["gets"]) + "; s_triples := " + c_triples(s["triples"]) + " |}"
            for s in obs)

    def nontrivial(self, case, obs):
        return any(o[0] in ("set", "del", "append", "iadd", "clear", "init", "iaddself") for o in case["ops"])

    def features(self, case, obs):
        f = {"ops_total": len(case["ops"]), "init_len_%d" % len(case["init"]): 1,
             "falsy_members": int(any(x in FALSY for x in case["init"])),
             "duplicates": int(len(set(case["init"])) < len(case["init"])),
             "second_collection": int(any(FCELL0 <= t[0] < CELL0 and t[1] in (FIRST, REST) for t in case["noise"])),
             "nested_list_member": int(FCELL0 in case["init"] or any(FCELL0 in o[1:] for o in case["ops"] if o[0] in ("append", "set")))}
        xs = list(case["init"])
        trig = False
        for o in case["ops"]:
            k = o[0]
            if k == "del" and xs:
                k = "del_only" if len(xs) == 1 and o[1] == 0 else "del_head" if o[1] == 0 else \
                    "del_tail" if o[1] == len(xs) - 1 else "del_middle" if 0 < o[1] < len(xs) else "del_other"
            f["op_" + k] = f.get("op_" + k, 0) + 1
            trig = trig or triggers(xs, o)
            py_step(xs, o)
        f["in_trigger_region"] = int(trig)
        for s in obs:
            if s["res"][0] == "exc":
                f["exc_" + s["res"][1]] = f.get("exc_" + s["res"][1], 0) + 1
            if s["res"][0] == "hang":
                f["hang"] = f.get("hang", 0) + 1
        return f

    def shrink(self, case):
        ops = case["ops"]
        for i in range(len(ops)):
            yield dict(case, ops=ops[:i] + ops[i + 1:])
        if case["noise"]:
            yield dict(case, noise=[])
        for i in range(len(case["init"])):
            init = case["init"][:i] + case["init"][i + 1:]
            # noise may mention cell 100 only while it cannot become a fresh cell of the model
            noise = [t for t in case["noise"] if len(init) >= 2 or CELL0 not in (t[0], t[2])]
            yield dict(case, init=init, noise=noise)

    def sweep(self):
        """all trigger-free histories of length <= 3 over a small alphabet (incl. negative indices, del c[0],
        index == len reads and deletes, += []), from lengths 0..3"""
        alpha = [["append", 6], ["append", 1], ["iadd", [5, 6]], ["iadd", []], ["clear"], ["index", 6], ["contains", 5],
                 ["init", [7]], ["iaddself", 0], ["n3"],
                 ["del", 0], ["del", -1], ["del", -2], ["get", -1], ["set", -1, 7], ["set", 0, 14]]
        for n0 in range(4):
            init = [6, 5, 6][:n0]
            for n in (1, 2, 3):
                for seq in itertools.product(range(len(alpha) + 4), repeat=n):
                    xs, ops, ok = list(init), [], True
                    for a in seq:
                        if a < len(alpha):
                            op = alpha[a]
                        elif a == len(alpha):
                            op = ["del", len(xs) - 1]
                        elif a == len(alpha) + 1:
                            op = ["del", 1 if len(xs) > 2 else len(xs)]
                        elif a == len(alpha) + 2:
                            op = ["set", len(xs) // 2, 7]
                        else:
                            op = ["get", len(xs)]
                        if triggers(xs, op):
                            ok = False
                            break
                        ops.append(list(op))
                        py_step(xs, op)
                    if ok:
                        yield {"init": init, "noise": [], "ops": ops}
                        if n0 == 2 and n <= 2:
                            # the same history next to a second collection whose tail leads into this one
                            yield {"init": init, "noise": [[FCELL0, FIRST, 6], [FCELL0, REST, CELL0], [2, FIRST, 1]], "ops": ops}


class C19Reads(Suite):
    name = "collreads"
    imports = "From RV Require Import Collection.Model."
    case_ty = "rcase"
    obs_ty = "list res"
    model = "r_model"
    oeq = "r_obs_eqb"
    spec = "r_spec"
    kf = "r_kf"
    kf_ids = {1: "F3i"}
    corr = "Collection.__getitem__/__len__/__iter__/index/_get_container, Graph.items/value on cyclic, broken, forked chains"
    quick_n = 300
    thorough_n = 6000
    timeout_s = 30.0

    # case = {"graph": [[s,p,o]...] in insertion order, "ops": [read op...]}

    def gen(self, rng, i):
        n = rng.choice([1, 2, 2, 3, 3, 4])
        cells = [HEAD] + [CELL0 + k for k in range(n - 1)]
        members = [rng.choice([5, 6, 1, 10, 7]) for _ in range(n)]
        g = []
        for k in range(n):
            g.append([cells[k], FIRST, members[k]])
            g.append([cells[k], REST, cells[k + 1] if k + 1 < n else NIL])
        kind = rng.choice(["cycle", "cycle", "cycle", "broken", "nofirst", "fork", "fork_front", "literal", "nilfirst", "wf", "shuffle"])
        j = rng.randrange(n)
        if kind == "cycle":
            k = rng.randrange(n)  # rest of cell k points back to cell j <= k (or forward: no cycle)
            g = [t for t in g if not (t[0] == cells[k] and t[1] == REST)]
            g.append([cells[k], REST, cells[min(j, k)]])
        elif kind == "broken":
            g = [t for t in g if not (t[0] == cells[j] and t[1] == REST)]
        elif kind == "nofirst":
            g = [t for t in g if not (t[0] == cells[j] and t[1] == FIRST)]
        elif kind == "fork":
            g.append([cells[j], REST, rng.choice(cells + [NIL])])
        elif kind == "fork_front":
            g.insert(0, [cells[j], REST, rng.choice(cells + [NIL])])
        elif kind == "literal":
            g = [t for t in g if not (t[0] == cells[j] and t[1] == REST)]
            lit = rng.choice([6, 10, 5])
            g.append([cells[j], REST, lit])
            if rng.random() < 0.5:
                g.append([lit, REST, HEAD])
                g.append([lit, FIRST, 1])
        elif kind == "nilfirst":
            g.append([NIL, FIRST, 1])
            if rng.random() < 0.5:
                g.append([NIL, REST, rng.choice([HEAD, NIL])])
        elif kind == "shuffle":
            rng.shuffle(g)
        seen, gg = set(), []
        for t in g:
            if tuple(t) not in seen:
                seen.add(tuple(t))
                gg.append(t)
        ops = []
        for _ in range(rng.choice([2, 3, 4, 5])):
            r = rng.random()
            if r < 0.25:
                ops.append(["iter"])
            elif r < 0.45:
                ops.append(["len"])
            elif r < 0.65:
                ops.append(["get", rng.choice([-1, 0, 1, 2, 3, 4, 5, 7])])
            elif r < 0.80:
                ops.append(["contains", rng.choice(members + [12])])
            else:
                ops.append(["index", rng.choice(members + [12])])
        if rng.random() < 0.3:
            ops.insert(rng.randrange(len(ops) + 1), ["n3"])
        return {"graph": gg, "ops": ops}

    def run_impl(self, case):
        w = World(8)
        g = Graph()
        for s, p, o in case["graph"]:
            g.add((w.t(s), w.t(p), w.t(o)))
        c = Collection(g, w.t(HEAD))
        return [apply_op(w, c, op) for op in case["ops"]]

    def on_timeout(self, case):
        return []

    def coq_case(self, case):
        return "{| r_graph := " + c_triples(case["graph"]) + "; r_ops := " + clist(c_op(o) for o in case["ops"]) + " |}"

    def coq_obs(self, obs):
        return clist(c_res(r) for r in obs)

    def nontrivial(self, case, obs):
        return True

    def features(self, case, obs):
        f = {}
        for o, r in zip(case["ops"], obs):
            key = o[0] + "_" + (r[1] if r[0] == "exc" else r[0])
            f[key] = f.get(key, 0) + 1
        return f

    def shrink(self, case):
        ops = case["ops"]
        for i in range(len(ops)):
            yield dict(case, ops=ops[:i] + ops[i + 1:])
        for i in range(len(case["graph"])):
            yield dict(case, graph=case["graph"][:i] + case["graph"][i + 1:])


SUITES = [C19(), C19Reads()]

TRUSTED = [
    "Coq 8.16.1 kernel and vm_compute; the statements in coq/Props/C19.v",
    "harness/c19.py: numbering of terms (pool ids, rdf:nil/first/rest, head, cells numbered in order of creation along the chain, "
    "cells 50..55 of other collections), the encoding of results/exceptions, reading the members back from the n3() string, "
    "the per-operation CPU-time limit that stands for 'hangs'",
    "the hand-written model coq/Collection/Model.v is tied to rdflib/collection.py and Graph.items/value/set/remove/collection only by "
    "the conformance runs of this check (model == implementation on every generated history)",
]
ASSUMPTIONS = [
    "BNode() returns a node that does not occur in the graph (model: a counter above every cell; never a frozen node)",
    "the graph is a plain Graph over the default Memory store (objects of (s, p) iterate in insertion order)",
    "the collection's uri is a blank node (truthy, not rdf:nil); the graph may hold ANY triples whose subject is 'frozen' (below the "
    "cell numbers, not the head, not rdf:nil): other collections, tails leading into this one, nested lists, unrelated statements; "
    "triples whose subject is the head, rdf:nil or a cell of this collection do not use rdf:first/rdf:rest unless they belong to it",
    "members are RDF terms of the pool (falsy literals included) or heads of other lists; an operation that computes longer than "
    "0.5 CPU-seconds is counted as a hang",
]
RULE = ("collection: start list of length 0-5 over a vocabulary of 2-4 members (always a falsy literal, duplicates frequent), 0-3 noise "
        "triples, in 45% of the cases a second collection of 1-3 cells in the same graph (tail to nil / into the list under test / "
        "dangling, sometimes forked, its head sometimes a member), 1-10 operations steered by the Python list the history produces: "
        "get/set/del with any index in -n-1..n+2, append, += list, += self (c, iter(c), another Collection on the node), "
        "Collection(g, uri, seq) on the existing list, clear, len, iter, n3, index, in (80% of the cases stay outside the one "
        "remaining known-finding region, c[len] = v); distinct by full case content, non-trivial = contains a write. "
        "collreads: a chain of 1-4 cells mutated into a cyclic / broken / forked / literal-linked chain, 2-6 reads; list/len/n3 must raise "
        "on cyclic and broken chains, an unsuccessful membership test on broken ones (broken = known finding F3i).")
