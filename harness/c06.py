"""C06 - quad syntaxes round-trip a Dataset: correspondence between coq/Routing/Model.v and the
serialiser/parser pairs nquads, hext, trig, trix, json-ld, patch of rdflib (dataset-level routing).

Numbering used across the boundary (see Model.v): an identifier is a blank node iff it is odd and the
same odd number is the same blank node in a term position and as a graph name; even = IRI/literal;
graph id 0 = the Dataset's default graph."""
from __future__ import annotations

import itertools
import warnings

from .core import Suite, cN, cbool, clist, copt, cstr, ctuple
from .terms import GRAPH_POOL, TERM_ID, TERM_POOL, rdflib, tkey

warnings.filterwarnings("ignore", category=DeprecationWarning)
warnings.filterwarnings("ignore", category=UserWarning)
from rdflib import BNode, Dataset, Literal, URIRef  # noqa: E402
from rdflib.graph import DATASET_DEFAULT_GRAPH_ID  # noqa: E402
from rdflib.namespace import RDF, XSD  # noqa: E402

XSD_STRING = str.__str__(XSD.string)

TRUSTED = [
    "Coq 8.16.1 kernel incl. vm_compute; no axioms (every theorem of coq/Props/C06.v is closed)",
    "the hand-written models coq/Routing/{Model,Text,HextText,TrixTree}.v and C03's coq/Codec/{Model,Hext}.v (term spelling, "
    "readline) are tied to rdflib only by the differential suites of this file (routing, text, hextrows, trixtree)",
    "the two model levels are connected by proof (coq/Routing/Bridge.v, C06_*_levels_agree) for N-Quads, RDF Patch, HexTuples rows and "
    "the TriX tree; each level is tied to rdflib separately by the suites",
    "harness numbering/spelling of terms (structural, never rdflib __eq__/__hash__), reading of the resulting Dataset through "
    "Dataset.quads(), recovery of document labels through bnode_context (N-Quads) / TriXHandler.bnode (TriX)",
    "not modelled, crossed by the runs only: the TriG/Turtle and JSON-LD text layers; for TriX the XML text (written by "
    "XMLWriter, read back with xml.etree and handed to TriXHandler as SAX events); for HexTuples the JSON text of a row (CPython json)",
]
ASSUMPTIONS = [
    "BNode() mints names that never collide with a label of the document (model: fresh ids above every id of the document)",
    "the target of parse is an empty Dataset()",
    "json-ld cases contain no triple with a blank-node subject AND a blank-node object: the JSON-LD serialiser's node "
    "embedding drops blank-node cycles (from_graph only starts at IRIs and unreferenced blank nodes) - a text-layer defect in "
    "the domain of C03, outside the routing model",
    "Memory store, default_union=False",
    "json-ld cases serialised with an active context (context=... or auto_compact) contain no falsy literal object: the "
    "serialiser drops such statements then (compaction tests the value by truthiness) - term/text layer, C03's domain",
    "text level: terms are those rdflib accepts when writing N-Triples (valid IRIs with a scheme, legal labels and language tags, "
    "no lone surrogates); literals use no datatype whose lexical form rdflib normalises (C09's domain); RDF Patch prefix rows "
    "(PA/PD) are not modelled and not generated; header ids contain no line break",
    "TriX tree suite: literals contain no character XML 1.0 cannot carry and no CR (XML end-of-line normalisation)",
]
RULE = ("a case is (format, dataset[, target dataset]); datasets have 0-4 named graphs out of IRI names, blank-node "
        "names, a name equal to a subject IRI and a name equal to a blank node used in triples, 1-5 triples over a tiny "
        "vocabulary plus (45% of the cases) one or two well-formed RDF collections of length 1-3 each inside one graph, "
        "vocabulary (falsy literals included) spread over the graphs so that triples and blank nodes are shared; "
        "55% of the cases carry serialisation options (document base, per-graph base, bound prefixes, for JSON-LD a context with @vocab / "
        "prefix / term for a graph IRI or auto_compact; graph names and terms "
        "lie under the bases); text/hextrows/trixtree suites: 0-4 quads over string pools with quotes, backslashes, line breaks, NBSP and "
        "astral characters, IRI/blank-node graph labels, plus disturbed documents/trees for the readers (extra blanks, comments, CRLF, "
        "missing dots, <_:label> forms, wrong operation codes, misplaced elements); distinct = distinct case content; non-trivial = at least one named graph holds a triple")

# ------------------------------------------------------------------ numbering
BKEY = {"b1": 8, "b2": 13, "urn:g:1": 103, "g4": 104, "g7": 107,  # blank-node label -> key; id = 2*key+1
        "l1": 201, "l2": 202, "l3": 203, "l4": 204}            # cells of RDF collections: 403 405 407 409
CELLS = [403, 405, 407, 409]
RDF_FIRST, RDF_REST, RDF_NIL = 40, 42, 44
EXTRA_TERMS = {RDF_FIRST: RDF.first, RDF_REST: RDF.rest, RDF_NIL: RDF.nil}
EXTRA_ID = {tkey(t): i for i, t in EXTRA_TERMS.items()}
BLABEL = {v: k for k, v in BKEY.items()}
GIRI = {2 * (100 + i + 1): g for i, g in enumerate(GRAPH_POOL) if isinstance(g, URIRef)}  # 202, 204, 210
GIRI[212] = URIRef("http://e/g/1")   # graph names lying under the bases below
GIRI[214] = URIRef("http://e/g2")
GIRI_ID = {tkey(g): i for i, g in GIRI.items()}
# serialisation options: spelling choices that must not move a statement (the model ignores them)
BASES = [None, "http://e/", "http://e/g/", "http://o/"]
BINDS = [[], [("e", "http://e/")], [("e", "http://e/"), ("g", "urn:g:"), ("eg", "http://e/g/")]]
# JSON-LD only: serialize(format="json-ld", context=...) / auto_compact=True
JCTX = [None, {"@vocab": "http://e/"}, {"@vocab": "http://e/g/"}, {"e": "http://e/"},
        {"ga": "http://e/a", "g1": "http://e/g/1"}, {"@vocab": "urn:g:"}, "auto_compact"]
NO_OPTS = {"base": 0, "gbase": {}, "bind": 0}


def node(x):
    """model id -> rdflib term"""
    if x % 2:
        return BNode(BLABEL[(x - 1) // 2])
    if x in EXTRA_TERMS:
        return EXTRA_TERMS[x]
    return TERM_POOL[x // 2 - 1]


def list_quads(L):
    """a well-formed RDF collection: s p head ; cell rdf:first member ; cell rdf:rest next|rdf:nil - all in graph g"""
    g, cells, members = L["g"], L["cells"], L["members"]
    out = [[L["s"], L["p"], cells[0], g]]
    for i, (c, m) in enumerate(zip(cells, members)):
        out.append([c, RDF_FIRST, m, g])
        out.append([c, RDF_REST, cells[i + 1] if i + 1 < len(cells) else RDF_NIL, g])
    return out


def all_quads(d):
    out = [list(q) for q in d["quads"]]
    for L in d.get("lists", []):
        for q in list_quads(L):
            if q not in out:
                out.append(q)
    return out


def gname(c):
    if c % 2:
        return BNode(BLABEL[(c - 1) // 2])
    if c in GIRI:
        return GIRI[c]
    return TERM_POOL[c // 2 - 1]  # a graph named like a term IRI


class Numbering:
    """rdflib term -> model id; unknown blank nodes are numbered per observation"""

    def __init__(self):
        self.fresh = {}

    def bnode(self, b):
        lab = str.__str__(b)
        if lab in BKEY:
            return 2 * BKEY[lab] + 1
        if lab not in self.fresh:
            self.fresh[lab] = 2 * (1000 + len(self.fresh)) + 1
        return self.fresh[lab]

    def term(self, t):
        if isinstance(t, BNode):
            return self.bnode(t)
        k = tkey(t)
        if k[0] == "Literal" and k[2] == XSD_STRING:
            k = (k[0], k[1], None, None)  # RDF 1.1: "x"^^xsd:string IS the simple literal "x" (hext writes it that way)
        if k in EXTRA_ID:
            return EXTRA_ID[k]
        return 2 * TERM_ID.get(k, 999)

    def graph(self, ident):
        if ident is None:
            return 0
        if isinstance(ident, BNode):
            return self.bnode(ident)
        k = tkey(ident)
        if k == tkey(DATASET_DEFAULT_GRAPH_ID):
            return 0
        if k in GIRI_ID:
            return GIRI_ID[k]
        if k in TERM_ID:
            return 2 * TERM_ID[k]
        return 2 * 998


def build(d, opts=None):
    opts = opts or NO_OPTS
    ds = Dataset()
    for pfx, ns in BINDS[opts.get("bind", 0)]:
        ds.bind(pfx, ns)
    for c in d["graphs"]:
        if c != 0:
            gb = BASES[opts.get("gbase", {}).get(str(c), 0)]
            if gb is None:
                ds.graph(gname(c))
            else:
                ds.graph(gname(c), base=gb)   # the graph carries its own base
    for s, p, o, c in all_quads(d):
        t = (node(s), node(p), node(o))
        if c == 0:
            ds.add(t)
        else:
            ds.add(t + (gname(c),))
    return ds


def content(ds):
    num = Numbering()
    raw = []
    for s, p, o, g in ds.quads((None, None, None, None)):
        raw.append((s, p, o, g))
    # deterministic numbering of unknown blank nodes: known-label content first
    raw.sort(key=lambda q: tuple(("" if isinstance(x, BNode) and str.__str__(x) not in BKEY else repr(x)) for x in q))
    out = []
    for s, p, o, g in raw:
        out.append([num.term(s), num.term(p), num.term(o), num.graph(g)])
    return sorted(out)


FMT = {"nquads": "Nquads", "hext": "Hext", "trig": "Trig", "trix": "Trix", "json-ld": "Jsonld",
       "patch": "PatchAdd", "patchdiff": "PatchDiff"}

SUBJ = [2, 4, 24, 17, 27]                 # a b c _:b1 _:b2
PRED = [6, 8]                             # p q
OBJ = [2, 4, 24, 17, 27, 10, 12, 14, 18, 20, 22, 28]
GRAPHS = [202, 204, 210, 207, 209, 2, 17, 27, 212, 214]   # + <http://e/g/1> <http://e/g2>; urn:g:1 urn:g:2 urn:g:5 _:urn:g:1 _:g4 <http://e/a> _:b1 _:b2
EMPTY = {"graphs": [], "quads": []}


def c_dset(d):
    ctxs = [0] + [c for c in d["graphs"] if c != 0]
    return ("{| d_ctxs := " + clist(cN(c) for c in ctxs) + "; d_quads := "
            + clist(ctuple(ctuple(cN(q[0]), cN(q[1]), cN(q[2])), cN(q[3])) for q in all_quads(d)) + " |}")


def bnode_edge(q):
    return q[0] % 2 == 1 and q[2] % 2 == 1


class C06(Suite):
    name = "routing"
    imports = "From RV Require Import Routing.Model."
    case_ty = "case"
    obs_ty = "obs"
    kf = "kf"
    kf_ids = {1: "F8b", 2: "F17"}
    corr = ("NQuadsSerializer.serialize/_nq_row, HextuplesSerializer.__init__/_context_str, TrigSerializer.__init__/"
            "preprocess/serialize, TriXSerializer._writeGraph, jsonld Converter.convert, PatchSerializer.serialize/_diff/"
            "_patch_row; NQuadsParser.parseline, TrigSinkParser.graph, TriXHandler, jsonld Parser._key_to_graph, "
            "HextuplesParser._parse_hextuple, RDFPatchParser.add_or_remove_triple_or_quad")
    quick_n = 1200
    thorough_n = 20000
    timeout_s = 20.0

    # case = {"fmt": key of FMT, "src": {"graphs": [cid...], "quads": [[s,p,o,c]...]}, "tgt": dataset (patchdiff only)}

    def gen_dataset(self, rng, pool=None, gpool=None):
        ng = rng.choice([0, 1, 1, 2, 2, 3, 4])
        if gpool is None:
            gpool = list(GRAPHS)
            if rng.random() < 0.6:
                gpool = [g for g in gpool if g not in (2, 17, 27)]  # mostly the plain pool
        graphs = rng.sample(gpool, min(ng, len(gpool)))
        if pool is None:
            pool = self.gen_triples(rng)
        cids = [0] + graphs
        quads = []
        dens = rng.choice([0.3, 0.5, 0.8])
        for t in pool:
            for c in cids:
                if rng.random() < dens:
                    quads.append(t + [c])
        rng.shuffle(quads)
        return {"graphs": graphs, "quads": quads}

    def gen_triples(self, rng):
        subs = rng.sample(SUBJ, rng.choice([1, 2, 3]))
        objs = rng.sample(OBJ, rng.choice([1, 2, 3]))
        if rng.random() < 0.5 and not any(x % 2 for x in subs + objs):
            objs[0] = rng.choice([17, 27])
        preds = rng.sample(PRED, rng.choice([1, 2]))
        pool = [[s, p, o] for s in subs for p in preds for o in objs]
        rng.shuffle(pool)
        return pool[: rng.choice([1, 2, 3, 4, 5])]

    def add_lists(self, rng, d, first_cell=0, prob=0.45):
        """RDF collections (length 1-3, members IRIs/literals incl. falsy ones), each entirely inside ONE graph,
        head referenced exactly once from an IRI subject; at most 4 cells and 6 blank nodes per dataset"""
        d["lists"] = []
        if rng.random() >= prob:
            return d
        room = len(CELLS) - first_cell
        k = first_cell
        for _ in range(rng.choice([1, 1, 2])):
            if room <= 0:
                break
            n = rng.choice([x for x in (1, 2, 3) if x <= room])
            named = d["graphs"]
            g = rng.choice(named) if named and rng.random() < 0.65 else 0
            L = {"g": g, "s": rng.choice([2, 4, 24]), "p": rng.choice(PRED), "cells": CELLS[k:k + n],
                 "members": [rng.choice([2, 4, 24, 10, 12, 14, 18, 20, 22, 28]) for _ in range(n)]}
            d["lists"].append(L)
            k += n
            room -= n
        while d["lists"] and len({x for q in all_quads(d) for x in q if x % 2}) > 6:
            L = d["lists"][-1]
            if len(L["cells"]) > 1:
                L["cells"].pop()
                L["members"].pop()
            else:
                d["lists"].pop()
        return d

    def gen_opts(self, rng, d):
        """document base (serialize(base=...)), per-graph base (Dataset.graph(name, base=...)), bound prefixes"""
        if rng.random() < 0.45:
            return dict(NO_OPTS)
        base = rng.choice([0, 1, 1, 2, 3])
        gbase = {}
        for c in d["graphs"]:
            if c % 2 == 0 and rng.random() < 0.4:
                gbase[str(c)] = rng.choice([1, 2, 3])
        return {"base": base, "gbase": gbase, "bind": rng.choice([0, 1, 2]),
                "ctx": rng.choice([0, 0, 1, 2, 3, 4, 5, 6])}

    def gen(self, rng, i):
        fmt = rng.choice(["nquads", "hext", "trig", "trix", "json-ld", "patch", "patchdiff", "patchdiff"])
        if fmt == "patchdiff":
            pool = self.gen_triples(rng)
            gpool = rng.sample(GRAPHS, 3)
            src = self.gen_dataset(rng, pool, gpool)
            if rng.random() < 0.3:
                # target = source with a few quads toggled
                tgt = {"graphs": list(src["graphs"]), "quads": [q for q in src["quads"] if rng.random() < 0.7]}
                for _ in range(rng.choice([0, 1, 2])):
                    q = rng.choice(pool) + [rng.choice([0] + src["graphs"])]
                    if q not in tgt["quads"]:
                        tgt["quads"].append(q)
            else:
                tgt = self.gen_dataset(rng, pool, gpool)
            self.add_lists(rng, src, 0, 0.3)
            r = rng.random()
            if r < 0.15 and src["lists"]:
                # the same collection in the target, possibly with another member or in another graph
                tgt["lists"] = [dict(L, members=list(L["members"]), cells=list(L["cells"])) for L in src["lists"]]
                L = tgt["lists"][0]
                if rng.random() < 0.5:
                    L["members"][-1] = rng.choice([2, 12, 14, 20])
                elif tgt["graphs"]:
                    L["g"] = rng.choice([0] + tgt["graphs"])
                tgt["lists"] = [L for L in tgt["lists"] if L["g"] == 0 or L["g"] in tgt["graphs"]]
            elif r < 0.4:
                self.add_lists(rng, tgt, 2, 1.0)
            else:
                tgt["lists"] = []
            return {"fmt": fmt, "src": src, "tgt": tgt, "opts": self.gen_opts(rng, src)}
        src = self.gen_dataset(rng)
        if fmt == "trig":
            # _:urn:g:1 is not a legal Turtle blank-node label (TriG writes labels verbatim): use _:g7 there
            src = {"graphs": [215 if g == 207 else g for g in src["graphs"]],
                   "quads": [q[:3] + [215 if q[3] == 207 else q[3]] for q in src["quads"]]}
        if fmt == "json-ld":
            src["quads"] = [q for q in src["quads"] if not bnode_edge(q)]
        self.add_lists(rng, src)
        opts = self.gen_opts(rng, src)
        if fmt == "json-ld" and opts.get("ctx"):
            # with an active context the JSON-LD serialiser drops statements whose object is a falsy literal ("" 0 false 0.0):
            # term/text layer (C03's domain) - such objects are replaced by truthy ones in these cases
            sub = {10: 20, 12: 22, 14: 18, 28: 22}
            src["quads"] = [[q[0], q[1], sub.get(q[2], q[2]), q[3]] for q in src["quads"]]
            src["quads"] = [q for i, q in enumerate(src["quads"]) if q not in src["quads"][:i]]
            for L in src["lists"]:
                L["members"] = [sub.get(m, m) for m in L["members"]]
        return {"fmt": fmt, "src": src, "tgt": EMPTY, "opts": opts}

    # ------------------------------------------------------------ implementation
    def run_impl(self, case):
        fmt = case["fmt"]
        opts = case.get("opts") or NO_OPTS
        base = BASES[opts.get("base", 0)]
        kw = {} if base is None else {"base": base}
        try:
            ds = build(case["src"], opts)
            if fmt == "patchdiff":
                tgt = build(case["tgt"], opts)
                text = ds.serialize(format="patch", target=tgt, **kw)
                ds.parse(data=text, format="patch")
                return {"exact": True, "quads": content(ds)}
            skw = dict(kw)
            if fmt == "json-ld" and opts.get("ctx"):
                c = JCTX[opts["ctx"]]
                if c == "auto_compact":
                    skw["auto_compact"] = True
                else:
                    skw["context"] = c
            text = ds.serialize(format=fmt, **skw)
            back = Dataset()
            # a JSON-LD document written against a base does not record it: the reader supplies the same base
            back.parse(data=text, format=fmt, **(kw if fmt == "json-ld" else {}))
            return {"exact": False, "quads": content(back)}
        except Exception as e:  # noqa: BLE001
            return {"exact": fmt == "patchdiff", "quads": [[1994, 1994, 1994, 1994]], "error": type(e).__name__ + ": " + str(e)[:200]}

    def on_timeout(self, case):
        return {"exact": case["fmt"] == "patchdiff", "quads": [[1992, 1992, 1992, 1992]], "error": "timeout"}

    # ------------------------------------------------------------ Coq text
    def coq_case(self, case):
        return ("{| c_fmt := " + FMT[case["fmt"]] + "; c_src := " + c_dset(case["src"])
                + "; c_tgt := " + c_dset(case["tgt"]) + " |}")

    def coq_obs(self, obs):
        return ctuple(cbool(obs["exact"]),
                      clist(ctuple(ctuple(cN(q[0]), cN(q[1]), cN(q[2])), cN(q[3])) for q in obs["quads"]))

    def nontrivial(self, case, obs):
        return any(q[3] != 0 for q in all_quads(case["src"])) or any(q[3] != 0 for q in all_quads(case["tgt"]))

    def features(self, case, obs):
        src = case["src"]
        qs = all_quads(src)
        f = {"fmt_" + case["fmt"]: 1, "quads": len(qs), "named_graphs": len(src["graphs"])}
        opts = case.get("opts") or NO_OPTS
        f["opt_base"] = int(opts.get("base", 0) != 0)
        f["opt_graph_base"] = int(bool(opts.get("gbase")))
        f["opt_bind"] = int(opts.get("bind", 0) != 0)
        f["opt_jsonld_context"] = int(case["fmt"] == "json-ld" and bool(opts.get("ctx")))
        b = BASES[opts.get("base", 0)]
        f["opt_graph_name_under_base_with_other_graph_base"] = int(any(
            b is not None and str(gname(int(c))).startswith(b) and BASES[gb] != b for c, gb in opts.get("gbase", {}).items()))
        ls = src.get("lists", []) + case["tgt"].get("lists", [])
        f["rdf_lists"] = len(ls)
        f["rdf_list_in_named_graph"] = sum(1 for L in ls if L["g"] != 0)
        f["rdf_list_in_bnode_named_graph"] = sum(1 for L in ls if L["g"] % 2)
        f["rdf_list_falsy_member"] = sum(1 for L in ls if any(m in (10, 12, 14, 28) for m in L["members"]))
        for L in ls:
            f["rdf_list_len_%d" % len(L["cells"])] = f.get("rdf_list_len_%d" % len(L["cells"]), 0) + 1
        cids = {q[3] for q in qs}
        f["bnode_named_nonempty"] = sum(1 for c in cids if c % 2)
        f["iri_named_nonempty"] = sum(1 for c in cids if c and not c % 2)
        f["empty_named_graphs"] = sum(1 for c in src["graphs"] if c not in cids)
        f["default_graph_nonempty"] = int(0 in cids)
        ts = {}
        for q in qs:
            ts.setdefault(tuple(q[:3]), set()).add(q[3])
        f["triple_in_several_graphs"] = int(any(len(v) > 1 for v in ts.values()))
        bn = {}
        for q in qs:
            for x in (q[0], q[2]):
                if x % 2:
                    bn.setdefault(x, set()).add(q[3])
        f["bnode_in_several_graphs"] = int(any(len(v) > 1 for v in bn.values()))
        f["graph_name_is_term"] = int(any(c in bn or (c and not c % 2 and any(c in q[:3] for q in qs)) for c in cids))
        if "error" in obs:
            f["impl_error"] = 1
        return f

    def shrink(self, case):
        opts = case.get("opts") or NO_OPTS
        if opts != NO_OPTS:
            yield dict(case, opts=dict(NO_OPTS))
            if opts.get("bind"):
                yield dict(case, opts=dict(opts, bind=0))
            if opts.get("ctx"):
                yield dict(case, opts=dict(opts, ctx=0))
            if opts.get("base"):
                yield dict(case, opts=dict(opts, base=0))
            for k in list(opts.get("gbase", {})):
                yield dict(case, opts=dict(opts, gbase={a: b for a, b in opts["gbase"].items() if a != k}))
        for key in ("src", "tgt"):
            d = case[key]
            for i in range(len(d["quads"])):
                yield dict(case, **{key: dict(d, quads=d["quads"][:i] + d["quads"][i + 1:])})
            ls = d.get("lists", [])
            for i in range(len(ls)):
                yield dict(case, **{key: dict(d, lists=ls[:i] + ls[i + 1:])})
                if len(ls[i]["cells"]) > 1:   # shorter list, still well-formed
                    L = dict(ls[i], cells=ls[i]["cells"][:-1], members=ls[i]["members"][:-1])
                    yield dict(case, **{key: dict(d, lists=ls[:i] + [L] + ls[i + 1:])})
            used = {q[3] for q in all_quads(d)}
            for i, g in enumerate(d["graphs"]):
                if g not in used:
                    yield dict(case, **{key: dict(d, graphs=d["graphs"][:i] + d["graphs"][i + 1:])})

    def sweep(self):
        """every dataset over 2 triples x {default, IRI-named, blank-node-named graph} through every format;
        every ordered pair of them through diff/apply"""
        ts = [[2, 6, 17], [17, 6, 12]]
        cids = [0, 202, 209]
        slots = [t + [c] for t in ts for c in cids]
        dsets = []
        for bits in itertools.product([0, 1], repeat=len(slots)):
            quads = [q for q, b in zip(slots, bits) if b]
            dsets.append({"graphs": [202, 209], "quads": quads})
        for d in dsets:
            for fmt in ("nquads", "hext", "trig", "trix", "json-ld", "patch"):
                yield {"fmt": fmt, "src": d, "tgt": EMPTY}
        for a in dsets:
            for b in dsets:
                yield {"fmt": "patchdiff", "src": a, "tgt": b}
        # serialisation options: every (document base, graph base, binding) over a dataset whose graph names lie under the bases
        d = {"graphs": [212, 214, 202], "quads": [[2, 6, 4, 0], [2, 6, 24, 212], [4, 8, 12, 214], [2, 6, 4, 202]], "lists": []}
        for base in range(len(BASES)):
            for g1 in range(len(BASES)):
                for g2 in range(len(BASES)):
                    for bind in range(len(BINDS)):
                        gb = {k: v for k, v in (("212", g1), ("214", g2)) if v}
                        for fmt in ("nquads", "hext", "trig", "trix", "json-ld", "patch"):
                            yield {"fmt": fmt, "src": d, "tgt": EMPTY, "opts": {"base": base, "gbase": gb, "bind": bind}}
        d2 = {"graphs": [212, 214, 202, 2], "quads": [[2, 6, 4, 0], [2, 6, 24, 212], [4, 8, 12, 214], [2, 6, 4, 202], [4, 6, 2, 2]],
              "lists": []}
        for ctx in range(len(JCTX)):
            for base in (0, 1):
                for bind in range(len(BINDS)):
                    yield {"fmt": "json-ld", "src": d2, "tgt": EMPTY, "opts": {"base": base, "gbase": {}, "bind": bind, "ctx": ctx}}
        # one collection of length 1..3 in the default / IRI-named / blank-node-named graph, next to a plain triple
        for g in cids:
            for n in (1, 2, 3):
                for members in ([12, 2, 10], [2, 2, 2], [14, 20, 28]):
                    L = {"g": g, "s": 2, "p": 8, "cells": CELLS[:n], "members": members[:n]}
                    for extra in ([], [[2, 6, 4, 0]], [[2, 6, 4, 202]], [[2, 8, 4, g]]):
                        d = {"graphs": [202, 209], "quads": extra, "lists": [L]}
                        for fmt in ("nquads", "hext", "trig", "trix", "json-ld", "patch"):
                            yield {"fmt": fmt, "src": d, "tgt": EMPTY}


# ====================================================================== text level (coq/Routing/Text.v)
# terms cross the boundary as strings: node = ["I", iri] | ["B", label]; object = node | ["L", lex, lang|None, datatype|None];
# text-level quad = {"s": node, "p": iri, "o": object, "g": node|None}
T_IRIS = ["http://e/a", "http://e/b", "urn:g:1", "h:p", "http://e/a\u00a0b", "http://e/\u00e9#f", "http://e/%20x",
          "http://e/g/1", "urn:x:\U0001F600"]
T_PREDS = ["http://e/p", "http://e/q", "h:p"]
T_LABELS = ["b1", "b2", "g4", "a.b", "x-1", "_x", "9", "urn:g:1"]
T_LEX = ["", "x", 'a"b', "back\\slash", "line\nbreak", "cr\rx", "tab\there", "\u00e9\u20ac\U0001F600", "\\u0041", " . # <x>", "'\"\"\"",
         "0", "trailing\\"]
T_LANGS = ["en", "en-GB", "x-a1"]
T_DTS = ["http://e/dt", "http://www.w3.org/2001/XMLSchema#string", "urn:dt:1"]


def t_node(n):
    return URIRef(n[1]) if n[0] == "I" else BNode(n[1])


def t_obj(o):
    if o[0] == "L":
        return Literal(o[1], lang=o[2], datatype=None if o[3] is None else URIRef(o[3]))
    return t_node(o)


def t_build(qs):
    ds = Dataset()
    for q in qs:
        t = (t_node(q["s"]), URIRef(q["p"]), t_obj(q["o"]))
        if q["g"] is None:
            ds.add(t)
        else:
            ds.add(t + (t_node(q["g"]),))
    return ds


def t_term_back(t, inv):
    if isinstance(t, BNode):
        return ["B", inv.get(str.__str__(t), str.__str__(t))]
    if isinstance(t, Literal):
        return ["L", str.__str__(t), None if t.language is None else str.__str__(t.language),
                None if t.datatype is None else str.__str__(t.datatype)]
    return ["I", str.__str__(t)]


def t_content(ds, inv=None):
    inv = inv or {}
    out = []
    for s, p, o, g in ds.quads((None, None, None, None)):
        if g is None or tkey(g) == tkey(DATASET_DEFAULT_GRAPH_ID):
            gg = None
        else:
            gg = t_term_back(g, inv)
        out.append({"s": t_term_back(s, inv), "p": str.__str__(p), "o": t_term_back(o, inv), "g": gg})
    out.sort(key=repr)
    return out


def c_tnode(n):
    return f"({'Iri' if n[0] == 'I' else 'Bnode'} {cstr(n[1])})"


def c_tobj(o):
    if o[0] == "L":
        return f"(OLit {cstr(o[1])} {copt(o[2], cstr)} {copt(o[3], cstr)})"
    return f"(ONode {c_tnode(o)})"


def c_tquad(q):
    return ctuple(ctuple(c_tnode(q["s"]), cstr(q["p"]), c_tobj(q["o"])), copt(q["g"], c_tnode))


def c_lines(text):
    """LF-terminated text -> the list of its lines (what split_lines computes for texts without CR)"""
    return clist(cstr(line) for line in text)


def split_like_model(text):
    """str -> lines as coq/Codec split_lines does: CRLF, CR or LF end a line; an unterminated non-blank rest counts"""
    out, cur, i = [], [], 0
    while i < len(text):
        c = text[i]
        if c == "\n":
            out.append("".join(cur)); cur = []
        elif c == "\r":
            out.append("".join(cur)); cur = []
            if i + 1 < len(text) and text[i + 1] == "\n":
                i += 1
        else:
            cur.append(c)
        i += 1
    if cur and not "".join(cur).isspace():
        out.append("".join(cur))
    return out


class C06Text(Suite):
    name = "text"
    imports = "From RV Require Import Codec.Model Routing.Text."
    case_ty = "tx_case"
    obs_ty = "tx_obs"
    model = "tx_model"
    oeq = "tx_obs_eqb"
    spec = "tx_spec"
    corr = ("serializers/nquads.py _nq_row + NQuadsSerializer.serialize, parsers/nquads.py NQuadsParser.parseline/parse, "
            "serializers/patch.py write_header/_patch_row/serialize(target=), parsers/patch.py parsepatch/operation/eat_op/"
            "labeled_bnode/add_or_remove_triple_or_quad (term spelling and readline: C03's coq/Codec)")
    quick_n = 300
    thorough_n = 8000
    timeout_s = 20.0

    def g_node(self, rng, iri_only=False):
        if iri_only or rng.random() < 0.65:
            return ["I", rng.choice(T_IRIS)]
        return ["B", rng.choice(T_LABELS)]

    def g_obj(self, rng):
        r = rng.random()
        if r < 0.35:
            return self.g_node(rng)
        lex = rng.choice(T_LEX)
        if r < 0.6:
            return ["L", lex, None, None]
        if r < 0.8:
            return ["L", lex, rng.choice(T_LANGS), None]
        return ["L", lex, None, rng.choice(T_DTS)]

    def g_quads(self, rng, n=None):
        n = rng.choice([0, 1, 1, 2, 3, 4]) if n is None else n
        graphs = [None] + [self.g_node(rng) for _ in range(rng.choice([1, 2]))]
        pool = [(self.g_node(rng), rng.choice(T_PREDS), self.g_obj(rng)) for _ in range(max(1, n))]
        qs = []
        for _ in range(n):
            s, p, o = rng.choice(pool)
            q = {"s": s, "p": p, "o": o, "g": rng.choice(graphs)}
            if q not in qs:
                qs.append(q)
        return qs

    def line_of(self, q, rng=None):
        """a statement line, spelt by rdflib itself, optionally disturbed"""
        s, o = t_node(q["s"]), t_obj(q["o"])
        from rdflib.plugins.serializers.nt import _quoteLiteral
        parts = [s.n3(), URIRef(q["p"]).n3(), _quoteLiteral(o) if isinstance(o, Literal) else o.n3()]
        if q["g"] is not None:
            parts.append(t_node(q["g"]).n3())
        sep = " "
        if rng is not None and rng.random() < 0.3:
            sep = rng.choice(["  ", "\t", " \t "])
        if rng is not None and rng.random() < 0.15:
            sep = ""
        line = sep.join(parts)
        tail = " ."
        if rng is not None:
            tail = rng.choice([" .", ".", " . ", " . # comment", " .#c", "", " . x", " .."])
        return line + tail

    def g_raw_nq(self, rng):
        lines = []
        for q in self.g_quads(rng, rng.choice([1, 2, 3])):
            line = self.line_of(q, rng if rng.random() < 0.5 else None)
            r = rng.random()
            if r < 0.1:
                line = "  " + line
            elif r < 0.15:
                line = "# " + line
            elif r < 0.2 and q["g"] is not None and q["g"][0] == "B":
                line = line.replace(" _:" + q["g"][1], " <_:" + q["g"][1] + ">")
            elif r < 0.25:
                line = line.replace("<http://e/a>", "<http://e/\\u0061>")
            elif r < 0.28:
                line = line + ' "lit"'
            lines.append(line)
            if rng.random() < 0.15:
                lines.append(rng.choice(["", "   ", "#", "\t"]))
        eol = rng.choice(["\n", "\n", "\n", "\r\n", "\r"])
        text = eol.join(lines)
        if rng.random() < 0.7:
            text += eol
        if rng.random() < 0.1:
            text += "   "
        return text

    def g_raw_patch(self, rng):
        lines = []
        if rng.random() < 0.5:
            lines.append(rng.choice(["TX .", "TX", " TX .", "H id <urn:h:1> .", "TXX ."]))
        for q in self.g_quads(rng, rng.choice([1, 2, 3])):
            op = rng.choice(["A", "A", "D", "D", "AA", "DA", "PA", "X", "a", ""])
            if op == "PA":
                lines.append("PA e: <http://e/> .")
                continue
            body = self.line_of(q, rng if rng.random() < 0.3 else None)
            if rng.random() < 0.25:
                for k in ("s", "o", "g"):
                    n = q[k]
                    if n is not None and n[0] == "B" and rng.random() < 0.7:
                        body = body.replace("_:" + n[1], "<_:" + n[1] + ">", 1)
            sep = rng.choice([" ", " ", "  ", "\t", ""])
            lines.append(op + sep + body)
            if rng.random() < 0.1:
                lines.append(rng.choice(["A", "A  # nothing", "D ", "# c", ""]))
        if rng.random() < 0.5:
            lines.append(rng.choice(["TC .", "TA .", "TC"]))
        lines = [l for l in lines if not l.startswith("PA") or rng.random() < 0.0]
        return "\n".join(lines) + ("\n" if rng.random() < 0.8 else "")

    def gen(self, rng, i):
        r = rng.random()
        if r < 0.3:
            return {"k": "nqw", "qs": self.g_quads(rng)}
        if r < 0.5:
            return {"k": "nqr", "text": self.g_raw_nq(rng)}
        if r < 0.8:
            a = self.g_quads(rng)
            if rng.random() < 0.5:
                b = [q for q in a if rng.random() < 0.6] + self.g_quads(rng, rng.choice([0, 1, 2]))
            else:
                b = self.g_quads(rng)
            b = [q for i, q in enumerate(b) if q not in b[:i]]
            return {"k": "ptw", "hid": rng.choice([None, None, "urn:h:1", ""]), "hprev": rng.choice([None, None, "urn:h:0"]),
                    "a": a, "b": b}
        return {"k": "ptr", "a": self.g_quads(rng), "text": self.g_raw_patch(rng)}

    # ------------------------------------------------------------ implementation
    def run_impl(self, case):
        k = case["k"]
        if k in ("nqw", "nqr"):
            text = None
            if k == "nqw":
                try:
                    text = t_build(case["qs"]).serialize(format="nquads")
                except Exception:  # noqa: BLE001
                    return {"k": k, "text": None, "back": None}
            else:
                text = case["text"]
            try:
                back = Dataset()
                ctx = {}
                back.parse(data=text, format="nquads", bnode_context=ctx)
                inv = {str.__str__(v): lab for lab, v in ctx.items()}
                res = t_content(back, inv)
            except Exception:  # noqa: BLE001
                res = None
            return {"k": k, "text": None if k == "nqr" else split_like_model(text), "back": res}
        a = t_build(case["a"])
        if k == "ptw":
            try:
                kw = {}
                if case["hid"] is not None:
                    kw["header_id"] = case["hid"]
                if case["hprev"] is not None:
                    kw["header_prev"] = case["hprev"]
                text = a.serialize(format="patch", target=t_build(case["b"]), **kw)
            except Exception:  # noqa: BLE001
                return {"k": k, "text": None, "back": None}
        else:
            text = case["text"]
        try:
            a.parse(data=text, format="patch")
            res = t_content(a)
        except Exception:  # noqa: BLE001
            res = None
        return {"k": k, "text": None if k == "ptr" else split_like_model(text), "back": res}

    def on_timeout(self, case):
        return {"k": case["k"], "text": None, "back": None}

    # ------------------------------------------------------------ Coq text
    def coq_case(self, case):
        k = case["k"]
        if k == "nqw":
            return "NqWrite " + clist(c_tquad(q) for q in case["qs"])
        if k == "nqr":
            return "NqRead " + cstr(case["text"])
        if k == "ptw":
            return (f"PtWrite {copt(case['hid'], cstr)} {copt(case['hprev'], cstr)} "
                    + clist(c_tquad(q) for q in case["a"]) + " " + clist(c_tquad(q) for q in case["b"]))
        return "PtRead " + clist(c_tquad(q) for q in case["a"]) + " " + cstr(case["text"])

    def coq_obs(self, obs):
        k = obs["k"]
        back = copt(obs["back"], lambda qs: clist(c_tquad(q) for q in qs))
        text = copt(obs["text"], lambda ls: clist(cstr(l) for l in ls))
        if k == "nqw":
            return f"ObsNq {text} {back}"
        if k == "nqr":
            return f"ObsNqRead {back}"
        if k == "ptw":
            return f"ObsPt {text} {back}"
        return f"ObsPtRead {back}"

    def nontrivial(self, case, obs):
        return bool(case.get("qs") or case.get("text") or case.get("a") or case.get("b"))

    def features(self, case, obs):
        f = {"kind_" + case["k"]: 1}
        if obs.get("back") is None:
            f["rejected_or_raised_" + case["k"]] = 1
        qs = case.get("qs", []) + case.get("a", []) + case.get("b", [])
        f["quads"] = len(qs)
        f["bnode_graph_label"] = sum(1 for q in qs if q["g"] is not None and q["g"][0] == "B")
        f["literal_with_escape"] = sum(1 for q in qs if q["o"][0] == "L" and any(c in q["o"][1] for c in '\\"\n\r'))
        return f

    def shrink(self, case):
        for key in ("qs", "a", "b"):
            if key in case:
                for i in range(len(case[key])):
                    yield dict(case, **{key: case[key][:i] + case[key][i + 1:]})
        if "text" in case:
            lines = case["text"].split("\n")
            for i in range(len(lines)):
                yield dict(case, text="\n".join(lines[:i] + lines[i + 1:]))


# ====================================================================== HexTuples rows of datasets (coq/Routing/HextText.v)
class C06Hext(Suite):
    name = "hextrows"
    imports = "From RV Require Import Codec.Model Routing.Text Routing.HextText."
    case_ty = "hq_case"
    obs_ty = "hq_obs"
    model = "hq_model"
    oeq = "hq_obs_eqb"
    spec = "hq_spec"
    corr = ("serializers/hext.py HextuplesSerializer.__init__/serialize/_hex_line/_context_str, parsers/hext.py "
            "HextuplesParser.parse/_parse_hextuple (row = six strings; JSON text is CPython's)")
    quick_n = 200
    thorough_n = 4000

    def gen(self, rng, i):
        t = C06Text()
        qs = t.g_quads(rng)
        if rng.random() < 0.1 and qs:
            qs[0] = dict(qs[0], s=["B", "a_:b"])
        if rng.random() < 0.1 and qs:
            qs[0] = dict(qs[0], g=["B", "a_:b"])
        return {"qs": qs}

    def run_impl(self, case):
        import json as _json
        try:
            text = t_build(case["qs"]).serialize(format="hext")
            rows = [_json.loads(line) for line in text.split("\n") if line]
        except Exception:  # noqa: BLE001
            return {"rows": [["error"]], "back": None}
        try:
            back = Dataset()
            back.parse(data=text, format="hext")
            res = t_content(back)
        except Exception:  # noqa: BLE001
            res = None
        return {"rows": rows, "back": res}

    def coq_case(self, case):
        return "HqWrite " + clist(c_tquad(q) for q in case["qs"])

    def coq_obs(self, obs):
        return ("HqObs " + clist(clist(cstr(x) for x in r) for r in obs["rows"]) + " "
                + copt(obs["back"], lambda qs: clist(c_tquad(q) for q in qs)))

    def features(self, case, obs):
        qs = case["qs"]
        return {"quads": len(qs), "default_graph_quads": sum(1 for q in qs if q["g"] is None),
                "bnode_graph_column": sum(1 for q in qs if q["g"] is not None and q["g"][0] == "B")}

    def shrink(self, case):
        for i in range(len(case["qs"])):
            yield {"qs": case["qs"][:i] + case["qs"][i + 1:]}


# ====================================================================== TriX as an XML tree (coq/Routing/TrixTree.v)
TRIX_NS = "http://www.w3.org/2004/03/trix/trix-1/"
XML_NS = "http://www.w3.org/XML/1998/namespace"
X_LEX = ["", "x", 'a"b', "<&>", "line\nbreak", " pad ", "\u00e9\u20ac\U0001F600", "0"]
X_IRIS = T_IRIS + ["http://e/n\u00a0", "\u2003s:x"]


def x_of_term(t):
    """rdflib term -> xterm as the TriX writer spells it (used for raw trees only)"""
    if t[0] == "I":
        return ["U", t[1]]
    if t[0] == "B":
        return ["I", t[1]]
    if t[3]:
        return ["Y", t[1], None, t[3]]
    return ["P", t[1], t[2]]


def c_xterm(x):
    if x[0] == "U":
        return f"(XUri {cstr(x[1])})"
    if x[0] == "I":
        return f"(XId {cstr(x[1])})"
    if x[0] == "P":
        return f"(XPlain {cstr(x[1])} {copt(x[2], cstr)})"
    return f"(XTyped {cstr(x[1])} {copt(x[2], cstr)} {cstr(x[3])})"


def c_xdoc(d):
    out = []
    for g in d:
        ch = []
        for c in g:
            if c[0] == "N":
                ch.append(f"TrixTree.GName {c_xterm(c[1])}")
            else:
                ch.append("GTriple " + clist(c_xterm(x) for x in c[1]))
        out.append(clist(ch))
    return clist(out)


def tree_of_text(text):
    import xml.etree.ElementTree as ET
    root = ET.fromstring(text.encode("utf-8"))
    doc = []

    def xt(el):
        tag = el.tag.split("}")[1]
        txt = el.text or ""
        if tag == "uri":
            return ["U", txt]
        if tag == "id":
            return ["I", txt]
        lang = el.attrib.get("{%s}lang" % XML_NS)
        if tag == "plainLiteral":
            return ["P", txt, lang]
        return ["Y", txt, lang, el.attrib.get("datatype")]

    for g in root:
        ch = []
        for c in g:
            tag = c.tag.split("}")[1]
            if tag == "triple":
                ch.append(["T", [xt(x) for x in c]])
            else:
                ch.append(["N", xt(c)])
        doc.append(ch)
    return doc


def drive_trix(doc):
    """feed the tree to the real TriXHandler as SAX events; -> segments [[name|None, [[s,p,o]...]]...] or None"""
    from xml.sax.xmlreader import AttributesNSImpl

    from rdflib.plugins.parsers.trix import TriXHandler

    class Loc:
        def getSystemId(self): return "tree"
        def getLineNumber(self): return 0
        def getColumnNumber(self): return 0

    ds = Dataset()
    h = TriXHandler(ds.store)
    h.setDocumentLocator(Loc())
    no = AttributesNSImpl({}, {})

    def el(name, attrs=no, text=None, children=()):
        h.startElementNS((TRIX_NS, name), None, attrs)
        if text is not None:
            h.characters(text)
        for c in children:
            c()
        h.endElementNS((TRIX_NS, name), None)

    def term(x):
        if x[0] == "U":
            return lambda: el("uri", text=x[1])
        if x[0] == "I":
            return lambda: el("id", text=x[1])
        a, q = {}, {}
        if x[2] is not None:
            a[(XML_NS, "lang")] = x[2]
            q[(XML_NS, "lang")] = "xml:lang"
        if x[0] == "Y":
            a[(None, "datatype")] = x[3]
            q[(None, "datatype")] = "datatype"
        return lambda: el("plainLiteral" if x[0] == "P" else "typedLiteral", AttributesNSImpl(a, q), text=x[1])

    def graph(g):
        def run():
            for c in g:
                if c[0] == "N":
                    term(c[1])()
                else:
                    el("triple", children=[term(x) for x in c[1]])
        return lambda: el("graph", children=[run])

    try:
        h.startDocument()
        el("TriX", children=[graph(g) for g in doc])
    except Exception:  # noqa: BLE001
        return None
    inv = {str.__str__(v): lab for lab, v in h.bnode.items()}
    segs = {}
    for s, p, o, g in ds.quads((None, None, None, None)):
        if g is None:
            key = ("N", "I", str.__str__(DATASET_DEFAULT_GRAPH_ID))
        elif isinstance(g, BNode) and str.__str__(g) not in inv:
            key = ("A", str.__str__(g))
        else:
            n = t_term_back(g, inv)
            key = ("N", n[0], n[1])
        segs.setdefault(key, []).append([t_term_back(s, inv), t_term_back(p, inv), t_term_back(o, inv)])
    out = []
    for key in sorted(segs):
        out.append([None if key[0] == "A" else [key[1], key[2]], sorted(segs[key], key=repr)])
    return out


class C06Trix(Suite):
    name = "trixtree"
    imports = "From RV Require Import Codec.Model Routing.Text Routing.TrixTree."
    case_ty = "xt_case"
    obs_ty = "xt_obs"
    model = "xt_model"
    oeq = "xt_obs_eqb"
    spec = "xt_spec"
    corr = ("serializers/trix.py TriXSerializer.serialize/_writeGraph/_writeTriple, parsers/trix.py TriXHandler."
            "startElementNS/endElementNS/get_bnode (driven with SAX events built from the tree; XML text: the XML library's)")
    quick_n = 300
    thorough_n = 5000

    def g_lit(self, rng):
        lex = rng.choice(X_LEX)
        r = rng.random()
        if r < 0.4:
            return ["L", lex, None, None]
        if r < 0.7:
            return ["L", lex, rng.choice(T_LANGS), None]
        return ["L", lex, None, rng.choice(T_DTS)]

    def g_term(self, rng, iris):
        r = rng.random()
        if r < 0.5:
            return ["I", rng.choice(iris)]
        if r < 0.8:
            return ["B", rng.choice(["b1", "b2", "g4", "x-1"])]
        return self.g_lit(rng)

    def gen(self, rng, i):
        iris = X_IRIS if rng.random() < 0.15 else T_IRIS
        if rng.random() < 0.7:
            names = [["I", "urn:x-rdflib:default"]]
            for _ in range(rng.choice([0, 1, 2, 3])):
                n = ["I", rng.choice(iris)] if rng.random() < 0.6 else ["B", rng.choice(["b1", "g4", "x-1"])]
                if n not in names:
                    names.append(n)
            gs = []
            for n in names:
                ts = []
                for _ in range(rng.choice([0, 1, 1, 2, 3])):
                    s = ["I", rng.choice(iris)] if rng.random() < 0.6 else ["B", rng.choice(["b1", "b2", "g4"])]
                    o = self.g_term(rng, iris)
                    t = [s, rng.choice(T_PREDS), o]
                    if t not in ts:
                        ts.append(t)
                gs.append({"n": n, "ts": ts})
            return {"k": "xw", "gs": gs}
        doc = []
        for _ in range(rng.choice([1, 2, 3])):
            g = []
            for _ in range(rng.choice([0, 1, 2, 3, 4])):
                r = rng.random()
                if r < 0.3:
                    name = rng.choice([["U", rng.choice(iris)], ["U", " urn:g:1\n"], ["I", "b1"], ["I", " g4 "], ["P", "x", None]])
                    g.append(["N", name])
                else:
                    n = 3 if rng.random() < 0.85 else rng.choice([2, 4])
                    ts = [x_of_term(self.g_term(rng, iris)) for _ in range(n)]
                    if rng.random() < 0.1:
                        ts[-1] = ["Y", "x", "en", "http://e/dt"]
                    if rng.random() < 0.1:
                        ts[-1] = ["P", "x", ""]
                    g.append(["T", ts])
            doc.append(g)
        return {"k": "xr", "doc": doc}

    def run_impl(self, case):
        if case["k"] == "xw":
            try:
                ds = Dataset()
                for g in case["gs"]:
                    name = t_node(g["n"])
                    gr = ds.default_graph if g["n"] == ["I", "urn:x-rdflib:default"] else ds.graph(name)
                    for s, p, o in g["ts"]:
                        gr.add((t_node(s), URIRef(p), t_obj(o)))
                tree = tree_of_text(ds.serialize(format="trix"))
            except Exception:  # noqa: BLE001
                return {"tree": [[["N", ["U", "error"]]]], "back": None}
            return {"tree": tree, "back": drive_trix(tree)}
        return {"tree": None, "back": drive_trix(case["doc"])}

    def coq_case(self, case):
        if case["k"] == "xw":
            gs = []
            for g in case["gs"]:
                ts = clist(ctuple(c_tnode(t[0]), cstr(t[1]), c_tobj(t[2])) for t in g["ts"])
                gs.append(ctuple(c_tnode(g["n"]), ts))
            return "XtWrite " + clist(gs)
        return "XtRead " + c_xdoc(case["doc"])

    def coq_obs(self, obs):
        def seg(s):
            ts = clist(ctuple(c_tobj(t[0]), c_tobj(t[1]), c_tobj(t[2])) for t in s[1])
            return ctuple(copt(s[0], c_tnode), ts)
        return ("XtObs " + copt(obs["tree"], c_xdoc) + " " + copt(obs["back"], lambda l: clist(seg(s) for s in l)))

    def features(self, case, obs):
        f = {"kind_" + case["k"]: 1}
        if obs["back"] is None:
            f["rejected_" + case["k"]] = 1
        if case["k"] == "xw":
            f["graphs"] = len(case["gs"])
            f["bnode_named_graphs"] = sum(1 for g in case["gs"] if g["n"][0] == "B")
            f["empty_graphs"] = sum(1 for g in case["gs"] if not g["ts"])
        return f

    def shrink(self, case):
        if case["k"] == "xw":
            gs = case["gs"]
            for i in range(1, len(gs)):
                yield dict(case, gs=gs[:i] + gs[i + 1:])
            for i, g in enumerate(gs):
                for j in range(len(g["ts"])):
                    yield dict(case, gs=gs[:i] + [dict(g, ts=g["ts"][:j] + g["ts"][j + 1:])] + gs[i + 1:])
        else:
            d = case["doc"]
            for i in range(len(d)):
                yield dict(case, doc=d[:i] + d[i + 1:])


SUITES = [C06(), C06Text(), C06Hext(), C06Trix()]
