"""C06 - quad syntaxes round-trip a Dataset: correspondence between coq/Routing/Model.v and the
serialiser/parser pairs nquads, hext, trig, trix, json-ld, patch of rdflib (dataset-level routing).

Numbering used across the boundary (see Model.v): an identifier is a blank node iff it is odd and the
same odd number is the same blank node in a term position and as a graph name; even = IRI/literal;
graph id 0 = the Dataset's default graph."""
from __future__ import annotations

import itertools
import warnings

from .core import Suite, cN, cbool, clist, ctuple
from .terms import GRAPH_POOL, TERM_ID, TERM_POOL, rdflib, tkey

warnings.filterwarnings("ignore", category=DeprecationWarning)
warnings.filterwarnings("ignore", category=UserWarning)
from rdflib import BNode, Dataset, URIRef  # noqa: E402
from rdflib.graph import DATASET_DEFAULT_GRAPH_ID  # noqa: E402
from rdflib.namespace import RDF, XSD  # noqa: E402

XSD_STRING = str.__str__(XSD.string)

TRUSTED = [
    "Coq 8.16.1 kernel incl. vm_compute; no axioms (every theorem of coq/Props/C06.v is closed)",
    "the hand-written model coq/Routing/Model.v is tied to rdflib only by this differential check",
    "harness numbering of terms/graph names (structural, never rdflib __eq__/__hash__) and the reading of the "
    "resulting Dataset through Dataset.quads()",
    "the text layers of the six syntaxes (term spelling, Turtle/XML/JSON structure) are exercised by the runs "
    "but not modelled",
]
ASSUMPTIONS = [
    "BNode() mints names that never collide with a label of the document (model: fresh ids above every id of the document)",
    "the target of parse is an empty Dataset()",
    "json-ld cases contain no triple with a blank-node subject AND a blank-node object: the JSON-LD serialiser's node "
    "embedding drops blank-node cycles (from_graph only starts at IRIs and unreferenced blank nodes) - a text-layer defect in "
    "the domain of C03, outside the routing model",
    "Memory store, default_union=False",
]
RULE = ("a case is (format, dataset[, target dataset]); datasets have 0-4 named graphs out of IRI names, blank-node "
        "names, a name equal to a subject IRI and a name equal to a blank node used in triples, 1-5 triples over a tiny "
        "vocabulary plus (45% of the cases) one or two well-formed RDF collections of length 1-3 each inside one graph, "
        "vocabulary (falsy literals included) spread over the graphs so that triples and blank nodes are shared; "
        "55% of the cases carry serialisation options (document base, per-graph base, bound prefixes; graph names and terms "
        "lie under the bases); distinct = distinct case content; non-trivial = at least one named graph holds a triple")

# ------------------------------------------------------------------ numbering
BKEY = {"b1": 8, "b2": 13, "urn:g:1": 103, "g4": 104, "g7": 107,  # blank-node label -> key; id = 2*key+1
        "l1": 201, "l2": 202, "l3": 203, "l4": 204}            # cells of RDF collections: 403 405 407 409
CELLS = [403, 405, 407, 409]
RDF_FIRST, RDF_REST, RDF_NIL = 40, 42, 44
EXTRA_TERMS = {RDF_FIRST: RDF.first, RDF_REST: RDF.rest, RDF_NIL: RDF.nil}
EXTRA_ID = {tkey(t): i for i, t in EXTRA_TERMS.items()}
BLABEL = {v: k for k, v in BKEY.items()}
GIRI = {2 * (100 + i + 1): g for i, g in enumerate(GRAPH_POOL) if isinstance(g, URIRef)}  # 202, 204, 210
GIRI[212] = URIRef("http://e/g/1")   # graph names lying under the bases below
GIRI[214] = URIRef("http://e/g2")
GIRI_ID = {tkey(g): i for i, g in GIRI.items()}
# serialisation options: spelling choices that must not move a statement (the model ignores them)
BASES = [None, "http://e/", "http://e/g/", "http://o/"]
BINDS = [[], [("e", "http://e/")], [("e", "http://e/"), ("g", "urn:g:"), ("eg", "http://e/g/")]]
NO_OPTS = {"base": 0, "gbase": {}, "bind": 0}


def node(x):
    """model id -> rdflib term"""
    if x % 2:
        return BNode(BLABEL[(x - 1) // 2])
    if x in EXTRA_TERMS:
        return EXTRA_TERMS[x]
    return TERM_POOL[x // 2 - 1]


def list_quads(L):
    """a well-formed RDF collection: s p head ; cell rdf:first member ; cell rdf:rest next|rdf:nil - all in graph g"""
    g, cells, members = L["g"], L["cells"], L["members"]
    out = [[L["s"], L["p"], cells[0], g]]
    for i, (c, m) in enumerate(zip(cells, members)):
        out.append([c, RDF_FIRST, m, g])
        out.append([c, RDF_REST, cells[i + 1] if i + 1 < len(cells) else RDF_NIL, g])
    return out


def all_quads(d):
    out = [list(q) for q in d["quads"]]
    for L in d.get("lists", []):
        for q in list_quads(L):
            if q not in out:
                out.append(q)
    return out


def gname(c):
    if c % 2:
        return BNode(BLABEL[(c - 1) // 2])
    if c in GIRI:
        return GIRI[c]
    return TERM_POOL[c // 2 - 1]  # a graph named like a term IRI


class Numbering:
    """rdflib term -> model id; unknown blank nodes are numbered per observation"""

    def __init__(self):
        self.fresh = {}

    def bnode(self, b):
        lab = str.__str__(b)
        if lab in BKEY:
            return 2 * BKEY[lab] + 1
        if lab not in self.fresh:
            self.fresh[lab] = 2 * (1000 + len(self.fresh)) + 1
        return self.fresh[lab]

    def term(self, t):
        if isinstance(t, BNode):
            return self.bnode(t)
        k = tkey(t)
        if k[0] == "Literal" and k[2] == XSD_STRING:
            k = (k[0], k[1], None, None)  # RDF 1.1: "x"^^xsd:string IS the simple literal "x" (hext writes it that way)
        if k in EXTRA_ID:
            return EXTRA_ID[k]
        return 2 * TERM_ID.get(k, 999)

    def graph(self, ident):
        if ident is None:
            return 0
        if isinstance(ident, BNode):
            return self.bnode(ident)
        k = tkey(ident)
        if k == tkey(DATASET_DEFAULT_GRAPH_ID):
            return 0
        if k in GIRI_ID:
            return GIRI_ID[k]
        if k in TERM_ID:
            return 2 * TERM_ID[k]
        return 2 * 998


def build(d, opts=None):
    opts = opts or NO_OPTS
    ds = Dataset()
    for pfx, ns in BINDS[opts.get("bind", 0)]:
        ds.bind(pfx, ns)
    for c in d["graphs"]:
        if c != 0:
            gb = BASES[opts.get("gbase", {}).get(str(c), 0)]
            if gb is None:
                ds.graph(gname(c))
            else:
                ds.graph(gname(c), base=gb)   # the graph carries its own base
    for s, p, o, c in all_quads(d):
        t = (node(s), node(p), node(o))
        if c == 0:
            ds.add(t)
        else:
            ds.add(t + (gname(c),))
    return ds


def content(ds):
    num = Numbering()
    raw = []
    for s, p, o, g in ds.quads((None, None, None, None)):
        raw.append((s, p, o, g))
    # deterministic numbering of unknown blank nodes: known-label content first
    raw.sort(key=lambda q: tuple(("" if isinstance(x, BNode) and str.__str__(x) not in BKEY else repr(x)) for x in q))
    out = []
    for s, p, o, g in raw:
        out.append([num.term(s), num.term(p), num.term(o), num.graph(g)])
    return sorted(out)


FMT = {"nquads": "Nquads", "hext": "Hext", "trig": "Trig", "trix": "Trix", "json-ld": "Jsonld",
       "patch": "PatchAdd", "patchdiff": "PatchDiff"}

SUBJ = [2, 4, 24, 17, 27]                 # a b c _:b1 _:b2
PRED = [6, 8]                             # p q
OBJ = [2, 4, 24, 17, 27, 10, 12, 14, 18, 20, 22, 28]
GRAPHS = [202, 204, 210, 207, 209, 2, 17, 27, 212, 214]   # + <http://e/g/1> <http://e/g2>; urn:g:1 urn:g:2 urn:g:5 _:urn:g:1 _:g4 <http://e/a> _:b1 _:b2
EMPTY = {"graphs": [], "quads": []}


def c_dset(d):
    ctxs = [0] + [c for c in d["graphs"] if c != 0]
    return ("{| d_ctxs := " + clist(cN(c) for c in ctxs) + "; d_quads := "
            + clist(ctuple(ctuple(cN(q[0]), cN(q[1]), cN(q[2])), cN(q[3])) for q in all_quads(d)) + " |}")


def bnode_edge(q):
    return q[0] % 2 == 1 and q[2] % 2 == 1


class C06(Suite):
    name = "routing"
    imports = "From RV Require Import Routing.Model."
    case_ty = "case"
    obs_ty = "obs"
    kf = "kf"
    kf_ids = {1: "F8b", 2: "F17"}
    corr = ("NQuadsSerializer.serialize/_nq_row, HextuplesSerializer.__init__/_context_str, TrigSerializer.__init__/"
            "preprocess/serialize, TriXSerializer._writeGraph, jsonld Converter.convert, PatchSerializer.serialize/_diff/"
            "_patch_row; NQuadsParser.parseline, TrigSinkParser.graph, TriXHandler, jsonld Parser._key_to_graph, "
            "HextuplesParser._parse_hextuple, RDFPatchParser.add_or_remove_triple_or_quad")
    quick_n = 2400
    thorough_n = 20000
    timeout_s = 20.0

    # case = {"fmt": key of FMT, "src": {"graphs": [cid...], "quads": [[s,p,o,c]...]}, "tgt": dataset (patchdiff only)}

    def gen_dataset(self, rng, pool=None, gpool=None):
        ng = rng.choice([0, 1, 1, 2, 2, 3, 4])
        if gpool is None:
            gpool = list(GRAPHS)
            if rng.random() < 0.6:
                gpool = [g for g in gpool if g not in (2, 17, 27)]  # mostly the plain pool
        graphs = rng.sample(gpool, min(ng, len(gpool)))
        if pool is None:
            pool = self.gen_triples(rng)
        cids = [0] + graphs
        quads = []
        dens = rng.choice([0.3, 0.5, 0.8])
        for t in pool:
            for c in cids:
                if rng.random() < dens:
                    quads.append(t + [c])
        rng.shuffle(quads)
        return {"graphs": graphs, "quads": quads}

    def gen_triples(self, rng):
        subs = rng.sample(SUBJ, rng.choice([1, 2, 3]))
        objs = rng.sample(OBJ, rng.choice([1, 2, 3]))
        if rng.random() < 0.5 and not any(x % 2 for x in subs + objs):
            objs[0] = rng.choice([17, 27])
        preds = rng.sample(PRED, rng.choice([1, 2]))
        pool = [[s, p, o] for s in subs for p in preds for o in objs]
        rng.shuffle(pool)
        return pool[: rng.choice([1, 2, 3, 4, 5])]

    def add_lists(self, rng, d, first_cell=0, prob=0.45):
        """RDF collections (length 1-3, members IRIs/literals incl. falsy ones), each entirely inside ONE graph,
        head referenced exactly once from an IRI subject; at most 4 cells and 6 blank nodes per dataset"""
        d["lists"] = []
        if rng.random() >= prob:
            return d
        room = len(CELLS) - first_cell
        k = first_cell
        for _ in range(rng.choice([1, 1, 2])):
            if room <= 0:
                break
            n = rng.choice([x for x in (1, 2, 3) if x <= room])
            named = d["graphs"]
            g = rng.choice(named) if named and rng.random() < 0.65 else 0
            L = {"g": g, "s": rng.choice([2, 4, 24]), "p": rng.choice(PRED), "cells": CELLS[k:k + n],
                 "members": [rng.choice([2, 4, 24, 10, 12, 14, 18, 20, 22, 28]) for _ in range(n)]}
            d["lists"].append(L)
            k += n
            room -= n
        while d["lists"] and len({x for q in all_quads(d) for x in q if x % 2}) > 6:
            L = d["lists"][-1]
            if len(L["cells"]) > 1:
                L["cells"].pop()
                L["members"].pop()
            else:
                d["lists"].pop()
        return d

    def gen_opts(self, rng, d):
        """document base (serialize(base=...)), per-graph base (Dataset.graph(name, base=...)), bound prefixes"""
        if rng.random() < 0.45:
            return dict(NO_OPTS)
        base = rng.choice([0, 1, 1, 2, 3])
        gbase = {}
        for c in d["graphs"]:
            if c % 2 == 0 and rng.random() < 0.4:
                gbase[str(c)] = rng.choice([1, 2, 3])
        return {"base": base, "gbase": gbase, "bind": rng.choice([0, 1, 2])}

    def gen(self, rng, i):
        fmt = rng.choice(["nquads", "hext", "trig", "trix", "json-ld", "patch", "patchdiff", "patchdiff"])
        if fmt == "patchdiff":
            pool = self.gen_triples(rng)
            gpool = rng.sample(GRAPHS, 3)
            src = self.gen_dataset(rng, pool, gpool)
            if rng.random() < 0.3:
                # target = source with a few quads toggled
                tgt = {"graphs": list(src["graphs"]), "quads": [q for q in src["quads"] if rng.random() < 0.7]}
                for _ in range(rng.choice([0, 1, 2])):
                    q = rng.choice(pool) + [rng.choice([0] + src["graphs"])]
                    if q not in tgt["quads"]:
                        tgt["quads"].append(q)
            else:
                tgt = self.gen_dataset(rng, pool, gpool)
            self.add_lists(rng, src, 0, 0.3)
            r = rng.random()
            if r < 0.15 and src["lists"]:
                # the same collection in the target, possibly with another member or in another graph
                tgt["lists"] = [dict(L, members=list(L["members"]), cells=list(L["cells"])) for L in src["lists"]]
                L = tgt["lists"][0]
                if rng.random() < 0.5:
                    L["members"][-1] = rng.choice([2, 12, 14, 20])
                elif tgt["graphs"]:
                    L["g"] = rng.choice([0] + tgt["graphs"])
                tgt["lists"] = [L for L in tgt["lists"] if L["g"] == 0 or L["g"] in tgt["graphs"]]
            elif r < 0.4:
                self.add_lists(rng, tgt, 2, 1.0)
            else:
                tgt["lists"] = []
            return {"fmt": fmt, "src": src, "tgt": tgt, "opts": self.gen_opts(rng, src)}
        src = self.gen_dataset(rng)
        if fmt == "trig":
            # _:urn:g:1 is not a legal Turtle blank-node label (TriG writes labels verbatim): use _:g7 there
            src = {"graphs": [215 if g == 207 else g for g in src["graphs"]],
                   "quads": [q[:3] + [215 if q[3] == 207 else q[3]] for q in src["quads"]]}
        if fmt == "json-ld":
            src["quads"] = [q for q in src["quads"] if not bnode_edge(q)]
        self.add_lists(rng, src)
        return {"fmt": fmt, "src": src, "tgt": EMPTY, "opts": self.gen_opts(rng, src)}

    # ------------------------------------------------------------ implementation
    def run_impl(self, case):
        fmt = case["fmt"]
        opts = case.get("opts") or NO_OPTS
        base = BASES[opts.get("base", 0)]
        kw = {} if base is None else {"base": base}
        try:
            ds = build(case["src"], opts)
            if fmt == "patchdiff":
                tgt = build(case["tgt"], opts)
                text = ds.serialize(format="patch", target=tgt, **kw)
                ds.parse(data=text, format="patch")
                return {"exact": True, "quads": content(ds)}
            text = ds.serialize(format=fmt, **kw)
            back = Dataset()
            # a JSON-LD document written against a base does not record it: the reader supplies the same base
            back.parse(data=text, format=fmt, **(kw if fmt == "json-ld" else {}))
            return {"exact": False, "quads": content(back)}
        except Exception as e:  # noqa: BLE001
            return {"exact": fmt == "patchdiff", "quads": [[1994, 1994, 1994, 1994]], "error": type(e).__name__ + ": " + str(e)[:200]}

    def on_timeout(self, case):
        return {"exact": case["fmt"] == "patchdiff", "quads": [[1992, 1992, 1992, 1992]], "error": "timeout"}

    # ------------------------------------------------------------ Coq text
    def coq_case(self, case):
        return ("{| c_fmt := " + FMT[case["fmt"]] + "; c_src := " + c_dset(case["src"])
                + "; c_tgt := " + c_dset(case["tgt"]) + " |}")

    def coq_obs(self, obs):
        return ctuple(cbool(obs["exact"]),
                      clist(ctuple(ctuple(cN(q[0]), cN(q[1]), cN(q[2])), cN(q[3])) for q in obs["quads"]))

    def nontrivial(self, case, obs):
        return any(q[3] != 0 for q in all_quads(case["src"])) or any(q[3] != 0 for q in all_quads(case["tgt"]))

    def features(self, case, obs):
        src = case["src"]
        qs = all_quads(src)
        f = {"fmt_" + case["fmt"]: 1, "quads": len(qs), "named_graphs": len(src["graphs"])}
        opts = case.get("opts") or NO_OPTS
        f["opt_base"] = int(opts.get("base", 0) != 0)
        f["opt_graph_base"] = int(bool(opts.get("gbase")))
        f["opt_bind"] = int(opts.get("bind", 0) != 0)
        b = BASES[opts.get("base", 0)]
        f["opt_graph_name_under_base_with_other_graph_base"] = int(any(
            b is not None and str(gname(int(c))).startswith(b) and BASES[gb] != b for c, gb in opts.get("gbase", {}).items()))
        ls = src.get("lists", []) + case["tgt"].get("lists", [])
        f["rdf_lists"] = len(ls)
        f["rdf_list_in_named_graph"] = sum(1 for L in ls if L["g"] != 0)
        f["rdf_list_in_bnode_named_graph"] = sum(1 for L in ls if L["g"] % 2)
        f["rdf_list_falsy_member"] = sum(1 for L in ls if any(m in (10, 12, 14, 28) for m in L["members"]))
        for L in ls:
            f["rdf_list_len_%d" % len(L["cells"])] = f.get("rdf_list_len_%d" % len(L["cells"]), 0) + 1
        cids = {q[3] for q in qs}
        f["bnode_named_nonempty"] = sum(1 for c in cids if c % 2)
        f["iri_named_nonempty"] = sum(1 for c in cids if c and not c % 2)
        f["empty_named_graphs"] = sum(1 for c in src["graphs"] if c not in cids)
        f["default_graph_nonempty"] = int(0 in cids)
        ts = {}
        for q in qs:
            ts.setdefault(tuple(q[:3]), set()).add(q[3])
        f["triple_in_several_graphs"] = int(any(len(v) > 1 for v in ts.values()))
        bn = {}
        for q in qs:
            for x in (q[0], q[2]):
                if x % 2:
                    bn.setdefault(x, set()).add(q[3])
        f["bnode_in_several_graphs"] = int(any(len(v) > 1 for v in bn.values()))
        f["graph_name_is_term"] = int(any(c in bn or (c and not c % 2 and any(c in q[:3] for q in qs)) for c in cids))
        if "error" in obs:
            f["impl_error"] = 1
        return f

    def shrink(self, case):
        opts = case.get("opts") or NO_OPTS
        if opts != NO_OPTS:
            yield dict(case, opts=dict(NO_OPTS))
            if opts.get("bind"):
                yield dict(case, opts=dict(opts, bind=0))
            if opts.get("base"):
                yield dict(case, opts=dict(opts, base=0))
            for k in list(opts.get("gbase", {})):
                yield dict(case, opts=dict(opts, gbase={a: b for a, b in opts["gbase"].items() if a != k}))
        for key in ("src", "tgt"):
            d = case[key]
            for i in range(len(d["quads"])):
                yield dict(case, **{key: dict(d, quads=d["quads"][:i] + d["quads"][i + 1:])})
            ls = d.get("lists", [])
            for i in range(len(ls)):
                yield dict(case, **{key: dict(d, lists=ls[:i] + ls[i + 1:])})
                if len(ls[i]["cells"]) > 1:   # shorter list, still well-formed
                    L = dict(ls[i], cells=ls[i]["cells"][:-1], members=ls[i]["members"][:-1])
                    yield dict(case, **{key: dict(d, lists=ls[:i] + [L] + ls[i + 1:])})
            used = {q[3] for q in all_quads(d)}
            for i, g in enumerate(d["graphs"]):
                if g not in used:
                    yield dict(case, **{key: dict(d, graphs=d["graphs"][:i] + d["graphs"][i + 1:])})

    def sweep(self):
        """every dataset over 2 triples x {default, IRI-named, blank-node-named graph} through every format;
        every ordered pair of them through diff/apply"""
        ts = [[2, 6, 17], [17, 6, 12]]
        cids = [0, 202, 209]
        slots = [t + [c] for t in ts for c in cids]
        dsets = []
        for bits in itertools.product([0, 1], repeat=len(slots)):
            quads = [q for q, b in zip(slots, bits) if b]
            dsets.append({"graphs": [202, 209], "quads": quads})
        for d in dsets:
            for fmt in ("nquads", "hext", "trig", "trix", "json-ld", "patch"):
                yield {"fmt": fmt, "src": d, "tgt": EMPTY}
        for a in dsets:
            for b in dsets:
                yield {"fmt": "patchdiff", "src": a, "tgt": b}
        # serialisation options: every (document base, graph base, binding) over a dataset whose graph names lie under the bases
        d = {"graphs": [212, 214, 202], "quads": [[2, 6, 4, 0], [2, 6, 24, 212], [4, 8, 12, 214], [2, 6, 4, 202]], "lists": []}
        for base in range(len(BASES)):
            for g1 in range(len(BASES)):
                for g2 in range(len(BASES)):
                    for bind in range(len(BINDS)):
                        gb = {k: v for k, v in (("212", g1), ("214", g2)) if v}
                        for fmt in ("nquads", "hext", "trig", "trix", "json-ld", "patch"):
                            yield {"fmt": fmt, "src": d, "tgt": EMPTY, "opts": {"base": base, "gbase": gb, "bind": bind}}
        # one collection of length 1..3 in the default / IRI-named / blank-node-named graph, next to a plain triple
        for g in cids:
            for n in (1, 2, 3):
                for members in ([12, 2, 10], [2, 2, 2], [14, 20, 28]):
                    L = {"g": g, "s": 2, "p": 8, "cells": CELLS[:n], "members": members[:n]}
                    for extra in ([], [[2, 6, 4, 0]], [[2, 6, 4, 202]], [[2, 8, 4, g]]):
                        d = {"graphs": [202, 209], "quads": extra, "lists": [L]}
                        for fmt in ("nquads", "hext", "trig", "trix", "json-ld", "patch"):
                            yield {"fmt": fmt, "src": d, "tgt": EMPTY}


SUITES = [C06()]
