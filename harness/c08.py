"""C08 - solution modifiers and aggregates: correspondence between
coq/Modifiers/Model.v and rdflib/plugins/sparql/{evaluate,aggregates,evalutils,algebra}.py.

A case is a small graph, a base graph pattern and a modifier stack.  The
solution sequence that enters the modifiers is obtained from real rdflib by
running `SELECT * WHERE { pattern }`; it is a parameter of the Coq case.  The
observation is what rdflib returns for (1) the aggregation stage alone,
(2) the query without LIMIT/OFFSET, (3) the query."""
from __future__ import annotations

import json
import warnings
from decimal import Decimal

from .core import Suite, cN, cZ, cbool, clist, cnat, copt, ctuple, cstr
from .terms import rdflib

warnings.filterwarnings("ignore", category=DeprecationWarning)
from rdflib import BNode, Graph, Literal, URIRef, Variable  # noqa: E402
from rdflib.namespace import XSD  # noqa: E402

TRUSTED = [
    "Coq 8.16.1 kernel and vm_compute",
    "harness/c08.py: query text construction from the modifier stack, conversion of rdflib terms "
    "to (kind, content) by class / datatype / lexical form (never by rdflib __eq__/__hash__)",
    "harness/c08.py tex_text/cond_text: rendering of the expression trees of the proved fragment into query text",
    "harness/c08.py expr_eval: exact integer/decimal/string evaluation of the argument expressions that are NOT in the "
    "Coq model (FLOOR, CEIL, ABS, STRLEN, LCASE, UCASE; also -?v, +?v, ?v+k, ?v-k in that generator mode) per input "
    "solution - conformance level: their per-solution values enter the case as bindings of derived variables",
    "the base query `SELECT * WHERE {P}` and the query with modifiers see the same solution sequence "
    "of P (same Graph object, same process, no mutation in between)",
    "running the query three times (aggregation stage alone, without slice, complete) gives the same "
    "intermediate sequences as one run (rdflib is deterministic in-process)",
]
ASSUMPTIONS = [
    "the solution sequence entering the modifiers is an INPUT (what rdflib returns for SELECT * over one of six base "
    "patterns); translateAggregates / algebra.translate are not modelled: the model's pipeline is the intended result of "
    "that rewriting, tied only through the query text of every case",
    "terms: blank nodes, IRIs, plain string literals, language-tagged strings with lower-case tags, xsd:boolean, xsd:integer, "
    "xsd:decimal as sort / group keys and aggregate members (expressions over tagged strings and booleans are modelled but not "
    "tied); (no dates, no doubles, "
    "no other datatypes); sort keys are variables; aggregate arguments are variables or expressions over variables, "
    "constants, unary/binary +/-, comparisons, && || !, IF, binary COALESCE, BOUND (the evaluator eval_t/eval_b is shared "
    "by model and checker: its agreement with rdflib is tied, its agreement with SPARQL 17 is not claimed here); an unbound "
    "PLAIN variable is left out by SUM/AVG, an erroneous argument EXPRESSION makes SUM/AVG an error; HAVING is one comparison of "
    "COUNT/SUM/AVG with an integer constant, or of a grouping key with an IRI constant",
    "xsd:decimal division in AVG is General Decimal Arithmetic division at 28 significant digits, "
    "round-half-even (Python's default decimal context); decimal addition is exact (values far below 28 digits)",
    "in an aggregate query the ORDER BY keys are projected variables, aliases, or aggregates (modelled as unprojected aliases; "
    "then the final order is judged by model = implementation, the checker judges only the multiset)",
    "HAVING on a grouping key compares it with an IRI constant (= / !=); GROUP BY (e AS ?v) only with e a variable, and "
    "its input sequence is that of { P BIND(e AS ?v) } (SPARQL 18.2.4.1)",
    "promotion suite: float/double VALUES are compared as exact rationals of the Python floats with tolerance 1e-6 "
    "relative to 1 + sum |v|; only the datatype of SUM/AVG is a proved statement there",
    "GROUP BY over an empty solution sequence: both no row and one row with nothing bound are accepted (algebra text vs "
    "W3C test agg-empty-group)",
    "subselect suite: the solution sequences of the sub-select's pattern and of the neighbouring pattern are inputs; the join "
    "is the nested loop over compatible pairs (its evaluation strategy is C04's subject), rows of the group compared as a multiset",
    "the order of GROUP_CONCAT, the member returned by SAMPLE and the choice among tied MIN/MAX values are "
    "left open by the specification checker",
]
RULE = ("random graph over a tiny vocabulary with mixed object kinds (bnode, IRI, boolean, integer, decimal, string, tagged string), one of "
        "five base patterns (with OPTIONAL so that variables are unbound in some rows; one that matches nothing), "
        "random stack of DISTINCT, ORDER BY with 1-3 ASC/DESC keys, LIMIT/OFFSET, projection, GROUP BY with 0-2 keys, "
        "1-3 aggregates out of the seven with/without DISTINCT, HAVING (aggregate or grouping key); 8 %: two aggregates "
        "of one function over different argument expressions (+ one only in ORDER BY); 18 %: aggregates over random "
        "expression trees of the proved fragment on data where they are errors in some solutions; 7 %: DISTINCT + ORDER BY on all "
        "projected variables over value-equal literals of different datatype/lexical form; distinct by full case content; non-trivial = "
        "at least one modifier and a non-empty input or an aggregate")

E = "http://e/"
SUBJ = [URIRef(E + "a"), URIRef(E + "b"), URIRef(E + "c"), BNode("b1")]
PRED = [URIRef(E + "p"), URIRef(E + "q")]
OBJ_NUM = [Literal(1), Literal(2), Literal(-3), Literal(10), Literal(0), Literal(2),
           Literal(Decimal("1.5")), Literal(Decimal("0.5")), Literal(Decimal("-2.5")), Literal(Decimal("2.0"))]
OBJ_INT = [Literal(1), Literal(2), Literal(3), Literal(-1), Literal(0), Literal(7)]
OBJ_MIX = OBJ_NUM + [Literal(""), Literal("x"), Literal("1"), Literal("a b"), Literal("b"),
                     URIRef(E + "a"), URIRef(E + "b"), BNode("b1"), BNode("b2")]
# wider sort keys: language-tagged strings (lower-case tags) and booleans
OBJ_WIDE = OBJ_MIX + [Literal(True), Literal(False), Literal(True), Literal("x", lang="en"), Literal("a", lang="fr"),
                      Literal("", lang="en"), Literal("x", lang="de"), Literal("b", lang="en")]
PATTERNS = {
    0: "?v0 <http://e/p> ?v2",
    1: "?v0 <http://e/p> ?v2 OPTIONAL { ?v0 <http://e/q> ?v3 }",
    2: "?v0 ?v1 ?v2",
    3: "?v0 <http://e/p> ?v2 . ?v0 <http://e/q> ?v3",
    4: "?v0 <http://e/none> ?v2",
    5: "?v0 <http://e/q> ?v3 OPTIONAL { ?v0 <http://e/p> ?v2 }",
}
PVARS = {0: [0, 2], 1: [0, 2, 3], 2: [0, 1, 2], 3: [0, 2, 3], 4: [0, 2], 5: [0, 2, 3]}
KINDS = ["count", "sum", "avg", "min", "max", "sample", "concat"]
SEPS = [None, ", ", "", "|"]
OPS = {"=": "OpEq", "!=": "OpNe", "<": "OpLt", ">": "OpGt", "<=": "OpLe", ">=": "OpGe"}


# ------------------------------------------------------------------ terms
def enc_term(t):
    """term -> JSON-able structural description (class / datatype / lexical form only)"""
    if t is None:
        return None
    s = str.__str__(t)
    if isinstance(t, BNode):
        return ["B", s]
    if isinstance(t, URIRef):
        return ["I", s]
    if isinstance(t, Literal):
        dt = t.datatype
        if t.language is None and dt is None:
            return ["S", s]
        if t.language is not None and dt is None:
            lang = str.__str__(t.language)
            # the model keeps tags in lower case (rdflib compares them case-insensitively); only such are generated
            return ["L", lang, s] if lang and lang == lang.lower() else ["S", "\x00unmodelled:" + repr(t)]
        if t.language is None and str.__str__(dt) == str.__str__(XSD.boolean) and s in ("true", "false"):
            return ["T", s == "true"]
        if t.language is None and str.__str__(dt) == str.__str__(XSD.integer):
            try:
                return ["Z", int(s)]
            except ValueError:
                pass
        if t.language is None and str.__str__(dt) == str.__str__(XSD.decimal):
            body = s[1:] if s[:1] in "+-" else s
            if body and all(ch in "0123456789." for ch in body) and body.count(".") <= 1 and body.strip(".") != "":
                ip, _, fp = body.partition(".")
                if ip != "" or fp != "":
                    m = int((ip or "0") + fp)
                    # keep the sign of the lexical form only when the value is non-zero
                    return ["D", -m if s[:1] == "-" else m, len(fp)]
    return ["S", "\x00unmodelled:" + repr(t)]


def dec_term(j):
    k = j[0]
    if k == "B":
        return BNode(j[1])
    if k == "I":
        return URIRef(j[1])
    if k == "Z":
        return Literal(j[1])
    if k == "S":
        return Literal(j[1])
    if k == "D":
        m, kk = j[1], j[2]
        return Literal(Decimal(m).scaleb(-kk))
    if k == "L":
        return Literal(j[2], lang=j[1])
    if k == "T":
        return Literal(bool(j[1]))
    raise ValueError(j)


def c_term(j):
    k = j[0]
    if k == "B":
        return f"TB {cstr(j[1])}"
    if k == "I":
        return f"TI {cstr(j[1])}"
    if k == "Z":
        return f"TInt {cZ(j[1])}"
    if k == "D":
        return f"TDec {cZ(j[1])} {cN(j[2])}"
    if k == "L":
        return f"TLang {cstr(j[1])} {cstr(j[2])}"
    if k == "T":
        return f"TBool {cbool(j[1])}"
    return f"TStr {cstr(j[1])}"


def c_row(row):
    return clist(ctuple(cN(v), c_term(t)) for v, t in row)


def c_rows(rows):
    return clist(c_row(r) for r in rows)


def c_agg(a, arg=None):
    a = dict(a, arg=a["arg"] if arg is None else arg)
    kind = a["kind"]
    k = {"count": "ACount", "sum": "ASum", "avg": "AAvg", "min": "AMin", "max": "AMax", "sample": "ASample"}.get(kind)
    if kind == "concat":
        k = f"(AConcat {cstr(' ' if a.get('sep') is None else a['sep'])})"
    if a.get("tex") is not None:
        argc = "(Some %s)" % c_tex(a["tex"])
    else:
        argc = copt(a["arg"], lambda v: f"(EVar {cN(v)})")
    return "{| a_kind := %s; a_distinct := %s; a_arg := %s |}" % (k, cbool(a["distinct"]), argc)


# ---- aggregate ARGUMENTS that are simple expressions over one variable (conformance level: the value of
# the expression in every input solution is computed HERE with exact arithmetic and enters the Coq case as
# the binding of a derived variable; the aggregate over the derived variable is what the model/spec judge)
EXPR_TEXT = {"neg": "-?v%d", "pos": "+?v%d", "add": "?v%d + %d", "sub": "?v%d - %d", "floor": "FLOOR(?v%d)",
             "ceil": "CEIL(?v%d)", "abs": "ABS(?v%d)", "strlen": "STRLEN(?v%d)", "lcase": "LCASE(?v%d)",
             "ucase": "UCASE(?v%d)"}
EXPR_FAMILIES = [["neg", "pos"], ["floor", "ceil", "abs"], ["add", "sub"], ["strlen", "lcase", "ucase"]]


def expr_text(e, v):
    t = EXPR_TEXT[e["op"]]
    return t % ((v, e["k"]) if e["op"] in ("add", "sub") else (v,))


def expr_eval(e, t):
    """exact value of the expression on an encoded term; None = error"""
    op = e["op"]
    if op in ("strlen", "lcase", "ucase"):
        if t[0] != "S" or t[1].startswith("\x00"):
            return None
        return ["Z", len(t[1])] if op == "strlen" else ["S", t[1].lower() if op == "lcase" else t[1].upper()]
    if t[0] == "Z":
        n = t[1]
        return ["Z", {"neg": -n, "pos": n, "add": n + e.get("k", 0), "sub": n - e.get("k", 0), "floor": n, "ceil": n,
                      "abs": abs(n)}[op]]
    if t[0] == "D":
        m, k = t[1], t[2]
        sc = 10 ** k
        if op == "neg":
            return ["D", -m, k]
        if op == "pos":
            return ["D", m, k]
        if op == "abs":
            return ["D", abs(m), k]
        if op == "add":
            return ["D", m + e["k"] * sc, k]
        if op == "sub":
            return ["D", m - e["k"] * sc, k]
        if op == "floor":
            return ["D", m // sc, 0]
        if op == "ceil":
            return ["D", -((-m) // sc), 0]
    return None


def derived_vars(case):
    """[(derived variable id, expr, source variable)] in order of first use"""
    out = []
    for _, a in case["aggs"]:
        e = a.get("expr")
        if e is not None:
            key = (json.dumps(e, sort_keys=True), a["arg"])
            if key not in [(json.dumps(x, sort_keys=True), v) for _, x, v in out]:
                out.append((30 + len(out), e, a["arg"]))
    return out


def derived_id(case, a):
    for i, e, v in derived_vars(case):
        if e == a["expr"] and v == a["arg"]:
            return i
    raise KeyError(a)


# ---- expression trees as aggregate arguments (PROVED fragment: Model.v texpr / bexpr)
# t ::= ["var", v] | ["const", term] | ["neg", t] | ["pos", t] | ["add", t, t] | ["sub", t, t]
#     | ["if", c, t, t] | ["coalesce", t, t]
# c ::= ["bound", v] | ["cmp", op, t, t] | ["not", c] | ["and", c, c] | ["or", c, c]
def const_text(j):
    if j[0] == "Z":
        return str(j[1]) if j[1] >= 0 else "'%d'^^<%s>" % (j[1], XSD.integer)
    if j[0] == "D":
        return "'%s'^^<%s>" % (str.__str__(dec_term(j)), XSD.decimal)
    if j[0] == "I":
        return "<%s>" % j[1]
    return "'%s'" % j[1]


def tex_text(t):
    k = t[0]
    if k == "var":
        return f"?v{t[1]}"
    if k == "const":
        return const_text(t[1])
    if k == "neg":
        return f"(-({tex_text(t[1])}))"
    if k == "pos":
        return f"(+({tex_text(t[1])}))"
    if k in ("add", "sub"):
        return f"({tex_text(t[1])} {'+' if k == 'add' else '-'} {tex_text(t[2])})"
    if k == "if":
        return f"IF({cond_text(t[1])}, {tex_text(t[2])}, {tex_text(t[3])})"
    if k == "coalesce":
        return f"COALESCE({tex_text(t[1])}, {tex_text(t[2])})"
    raise ValueError(t)


def cond_text(c):
    k = c[0]
    if k == "bound":
        return f"BOUND(?v{c[1]})"
    if k == "cmp":
        return f"({tex_text(c[2])} {c[1]} {tex_text(c[3])})"
    if k == "not":
        return f"(!({cond_text(c[1])}))"
    if k in ("and", "or"):
        return f"({cond_text(c[1])} {'&&' if k == 'and' else '||'} {cond_text(c[2])})"
    raise ValueError(c)


def c_tex(t):
    k = t[0]
    if k == "var":
        return f"(EVar {cN(t[1])})"
    if k == "const":
        return f"(EConst ({c_term(t[1])}))"
    if k in ("neg", "pos"):
        return f"({'ENeg' if k == 'neg' else 'EPos'} {c_tex(t[1])})"
    if k in ("add", "sub"):
        return f"({'EAdd' if k == 'add' else 'ESub'} {c_tex(t[1])} {c_tex(t[2])})"
    if k == "if":
        return f"(EIf {c_cond(t[1])} {c_tex(t[2])} {c_tex(t[3])})"
    if k == "coalesce":
        return f"(ECoalesce {c_tex(t[1])} {c_tex(t[2])})"
    raise ValueError(t)


def c_cond(c):
    k = c[0]
    if k == "bound":
        return f"(BBound {cN(c[1])})"
    if k == "cmp":
        return f"(BCmp {OPS[c[1]]} {c_tex(c[2])} {c_tex(c[3])})"
    if k == "not":
        return f"(BNot {c_cond(c[1])})"
    if k in ("and", "or"):
        return f"({'BAnd' if k == 'and' else 'BOr'} {c_cond(c[1])} {c_cond(c[2])})"
    raise ValueError(c)


def agg_text(a):
    fn = {"count": "COUNT", "sum": "SUM", "avg": "AVG", "min": "MIN", "max": "MAX", "sample": "SAMPLE",
          "concat": "GROUP_CONCAT"}[a["kind"]]
    arg = "*" if a["arg"] is None else f"?v{a['arg']}"
    if a.get("expr") is not None:
        arg = expr_text(a["expr"], a["arg"])
    if a.get("tex") is not None:
        arg = tex_text(a["tex"])
    d = "DISTINCT " if a["distinct"] else ""
    sep = ""
    if a["kind"] == "concat" and a.get("sep") is not None:
        sep = '; separator="%s"' % a["sep"]
    return f"{fn}({d}{arg}{sep})"


class C08(Suite):
    name = "modifiers"
    imports = "From RV Require Import Modifiers.Model."
    case_ty = "case"
    obs_ty = "obs"
    corr = ("evaluate.evalAggregateJoin/evalOrderBy/evalProject/evalDistinct/evalSlice, aggregates.Aggregator and "
            "the seven accumulators, evalutils._val, algebra.translate/translateAggregates (through the query text)")
    quick_n = 750
    thorough_n = 20000
    timeout_s = 20.0

    def __init__(self):
        self._memo = {}

    # case = {"graph": [[s,p,o]...] (encoded terms), "pattern": id, "group": None|[vars], "aggs": [[alias, agg]...],
    #         "having": None|[agg, op, n], "order": [[desc, var]...], "proj": None|[vars], "distinct": bool,
    #         "slice": None|[off, limit|None]}
    # ------------------------------------------------------------ generation
    def gen(self, rng, i):
        r = rng.random()
        if r < 0.08:
            return self.gen_expr(rng)
        if r < 0.26:
            return self.gen_tex(rng)
        if r < 0.33:
            return self.gen_ties(rng)
        return self.gen_general(rng)

    def gen_graph(self, rng, objs, nmax=10, preds=(0.6,)):
        subs = rng.sample(SUBJ, rng.choice([2, 3, 4]))
        triples = []
        for _ in range(rng.choice([3, 4, 5, 6, 8, nmax])):
            t = [enc_term(rng.choice(subs)), enc_term(PRED[0] if rng.random() < preds[0] else PRED[1]),
                 enc_term(rng.choice(objs))]
            if t not in triples:
                triples.append(t)
        return triples

    def gen_expr(self, rng):
        """two aggregates of the SAME function over DIFFERENT expressions of ?v2 (often differing only in the
        function applied), optionally a third one used only as ORDER BY key"""
        strings = rng.random() < 0.3
        if strings:
            objs = [Literal(x) for x in rng.sample(["Ann", "bob", "", "a B", "x", "Cy", "ANN"], 4)]
            fam = EXPR_FAMILIES[3]
            kinds = ["min", "max", "sample", "concat", "count"]
        else:
            objs = rng.sample(OBJ_NUM + [Literal(Decimal("-0.75")), Literal(Decimal("2.25")), Literal(-2)], 5)
            fam = rng.choice(EXPR_FAMILIES[:3])
            kinds = ["sum", "sum", "avg", "min", "max", "count", "sample", "concat"]
        case = {"graph": self.gen_graph(rng, objs, 8, (1.0,)), "pattern": 0, "group": rng.choice([[], [0], [0]]),
                "aggs": [], "having": None, "order": [], "proj": None, "distinct": False, "slice": None, "galias": None}

        def mk(op):
            return None if op is None else ({"op": op, "k": rng.choice([1, 2, 3])} if op in ("add", "sub") else {"op": op})

        ops = rng.sample(fam + [None], 2) if rng.random() < 0.3 else rng.sample(fam, 2)
        kind = rng.choice(kinds)
        if strings and "strlen" in ops and rng.random() < 0.5:
            kind = rng.choice(kinds + ["sum", "avg"]) if set(ops) == {"strlen"} else kind
        d = rng.random() < 0.25
        sep = rng.choice(SEPS)
        aggs = []
        for j, op in enumerate(ops):
            a = {"kind": kind, "distinct": d, "arg": 2}
            if kind == "concat":
                a["sep"] = sep
            if mk(op) is not None:
                a["expr"] = mk(op)
            aggs.append([10 + j, a])
        proj = list(case["group"]) + [10, 11]
        if rng.random() < 0.5:
            # an aggregate that only occurs in ORDER BY, same function as a selected one
            op3 = rng.choice([o for o in fam if o not in ops] or fam)
            k3 = kind if rng.random() < 0.7 else rng.choice(kinds)
            a3 = {"kind": k3, "distinct": d, "arg": 2, "expr": mk(op3)}
            if k3 == "concat":
                a3["sep"] = sep
            aggs.append([12, a3])
            case["order"] = [[rng.random() < 0.5, 12]] + ([[False, 0]] if case["group"] else [])
        elif rng.random() < 0.5:
            case["order"] = [[rng.random() < 0.5, rng.choice([10, 11])]]
        case["aggs"] = aggs
        case["proj"] = proj
        return case

    def rnd_tex(self, rng, vars_, depth):
        r = rng.random()
        if depth == 0 or r < 0.25:
            if rng.random() < 0.6:
                return ["var", rng.choice(vars_)]
            return ["const", rng.choice([["Z", 0], ["Z", 1], ["Z", 2], ["Z", -3], ["D", 15, 1], ["D", -5, 1],
                                         ["D", 20, 1], ["S", "x"], ["I", E + "a"]])]
        if r < 0.37:
            return [rng.choice(["neg", "pos"]), self.rnd_tex(rng, vars_, depth - 1)]
        if r < 0.60:
            return [rng.choice(["add", "sub"]), self.rnd_tex(rng, vars_, depth - 1), self.rnd_tex(rng, vars_, depth - 1)]
        if r < 0.82:
            return ["if", self.rnd_cond(rng, vars_, depth - 1), self.rnd_tex(rng, vars_, depth - 1),
                    self.rnd_tex(rng, vars_, depth - 1)]
        return ["coalesce", self.rnd_tex(rng, vars_, depth - 1), self.rnd_tex(rng, vars_, depth - 1)]

    def rnd_cond(self, rng, vars_, depth):
        r = rng.random()
        if r < 0.25:
            return ["bound", rng.choice(vars_)]
        if depth == 0 or r < 0.75:
            return ["cmp", rng.choice(list(OPS)), self.rnd_tex(rng, vars_, 0 if depth == 0 else depth - 1),
                    self.rnd_tex(rng, vars_, 0)]
        if r < 0.83:
            return ["not", self.rnd_cond(rng, vars_, depth - 1)]
        return [rng.choice(["and", "or"]), self.rnd_cond(rng, vars_, depth - 1), self.rnd_cond(rng, vars_, depth - 1)]

    def gen_tex(self, rng):
        """aggregates whose ARGUMENT is an expression of the proved fragment (arithmetic, comparisons, IF, COALESCE,
        BOUND, && || !) over data on which it is an error in some solutions (strings, IRIs, unbound ?v3)"""
        prof = rng.random()
        pool = OBJ_NUM if prof < 0.5 else OBJ_MIX
        objs = rng.sample(pool, min(len(pool), rng.choice([2, 3, 4, 5])))
        pat = rng.choice([0, 1, 1, 1, 5, 3])
        case = {"graph": self.gen_graph(rng, objs, 9), "pattern": pat, "group": rng.choice([[], [0], [0], [2]]),
                "aggs": [], "having": None, "order": [], "proj": None, "distinct": rng.random() < 0.15, "slice": None,
                "galias": None}
        vars_ = [v for v in PVARS[pat] if v != 0] * 2 + [0]
        n = rng.choice([1, 2, 2, 3])
        same = rng.random() < 0.4
        kind0, d0 = rng.choice(KINDS), rng.random() < 0.3
        aggs = []
        for j in range(n):
            kind, d = (kind0, d0) if same else (rng.choice(KINDS), rng.random() < 0.3)
            a = {"kind": kind, "distinct": d, "arg": 2, "tex": self.rnd_tex(rng, vars_, rng.choice([1, 2, 2, 3]))}
            if kind == "concat":
                a["sep"] = rng.choice(SEPS)
            aggs.append([10 + j, a])
        case["aggs"] = aggs
        proj = list(case["group"]) + [a[0] for a in aggs]
        if len(aggs) > 1 and rng.random() < 0.3:
            hidden = aggs[-1][0]
            proj.remove(hidden)
            case["order"] = [[rng.random() < 0.5, hidden]]
        elif rng.random() < 0.4:
            case["order"] = [[rng.random() < 0.5, rng.choice(proj)]]
        case["proj"] = proj
        if rng.random() < 0.2:
            ha = {"kind": rng.choice(["count", "sum", "avg"]), "distinct": False, "arg": 2,
                  "tex": self.rnd_tex(rng, vars_, 2)}
            case["having"] = {"agg": ha, "op": rng.choice(list(OPS)), "n": rng.choice([0, 1, 2, 3])}
        return case

    def gen_ties(self, rng):
        """SELECT DISTINCT + ORDER BY over all projected variables on value-equal literals of different
        lexical form / datatype (1, 1.0, 1.00, 2, 2.0): ties in the sort order, duplicates not adjacent"""
        pool = [Literal(1), Literal(Decimal("1.0")), Literal(Decimal("1.00")), Literal(2), Literal(Decimal("2.0")),
                Literal(1), Literal(Decimal("1.0")), Literal("x"), Literal("x", lang="en"), Literal(True), Literal(False),
                Literal("x", lang="de")]
        objs = rng.sample(pool, rng.choice([3, 4, 5]))
        pat = rng.choice([0, 0, 2, 1, 3])
        case = {"graph": self.gen_graph(rng, objs, 12), "pattern": pat, "group": None, "aggs": [], "having": None,
                "order": [], "proj": None, "distinct": True, "slice": None, "galias": None}
        pv = [v for v in PVARS[pat] if v != 0]
        proj = [2] if rng.random() < 0.6 else rng.sample(pv, min(len(pv), 2))
        case["proj"] = proj
        keys = list(proj)
        rng.shuffle(keys)
        case["order"] = [[rng.random() < 0.4, v] for v in keys]
        if rng.random() < 0.2:
            case["order"].append([False, rng.choice(PVARS[pat])])
        if rng.random() < 0.45:
            case["slice"] = [rng.choice([0, 1, 2, 3]), rng.choice([None, 1, 2, 3])]
            if case["slice"] == [0, None]:
                case["slice"] = [1, None]
        return case

    def gen_general(self, rng):
        prof = rng.random()
        pool = OBJ_INT if prof < 0.25 else OBJ_NUM if prof < 0.5 else OBJ_MIX if prof < 0.72 else OBJ_WIDE
        # few distinct objects per graph: equal values meet inside one group
        objs = rng.sample(pool, min(len(pool), rng.choice([1, 2, 2, 3, 3, 4, 6])))
        nsub = rng.choice([1, 2, 2, 3, 4])
        subs = rng.sample(SUBJ, nsub)
        triples = []
        for _ in range(rng.choice([0, 1, 2, 3, 4, 5, 6, 8, 10])):
            s = rng.choice(subs)
            p = PRED[0] if rng.random() < 0.6 else PRED[1]
            o = rng.choice(objs)
            t = [enc_term(s), enc_term(p), enc_term(o)]
            if t not in triples:
                triples.append(t)
        pat = rng.choice([0, 1, 1, 2, 2, 3, 3, 5]) if rng.random() > 0.05 else 4
        pv = PVARS[pat]
        case = {"graph": triples, "pattern": pat, "group": None, "aggs": [], "having": None, "order": [],
                "proj": None, "distinct": rng.random() < 0.3, "slice": None, "galias": None}
        grouped = rng.random() < 0.55
        if grouped:
            r = rng.random()
            gv = [] if r < 0.3 else rng.sample(pv, 1) if r < 0.78 else rng.sample(pv, 2)
            case["group"] = gv
            aggs = []
            for j in range(rng.choice([1, 1, 2, 3])):
                aggs.append([10 + j, self.gen_agg(rng, pv)])
            case["aggs"] = aggs
            # GROUP BY (?vS AS ?v20): the alias is a grouping key like any other
            if gv and rng.random() < 0.2:
                j = rng.randrange(len(gv))
                case["galias"] = [gv[j], 20]
                gv[j] = 20
            if rng.random() < 0.38:
                if gv and rng.random() < 0.5:
                    case["having"] = {"key": rng.choice(gv), "ne": rng.random() < 0.6,
                                      "iri": rng.choice([E + "a", E + "a", E + "b", E + "c", E + "p"])}
                else:
                    ha = self.gen_agg(rng, pv, kinds=["count", "count", "sum", "avg"])
                    case["having"] = {"agg": ha, "op": rng.choice(list(OPS)),
                                      "n": rng.choice([-1, 0, 1, 1, 2, 2, 3, 4, 6])}
            allv = gv + [a[0] for a in aggs]
            proj = [v for v in allv if rng.random() < 0.8]
            if not proj:
                proj = [rng.choice(allv)]
            h = case["having"]
            if h and "key" in h and h["key"] in proj and len(proj) > 1 and rng.random() < 0.5:
                proj = [v for v in proj if v != h["key"]]   # HAVING on a key that is not projected
            case["proj"] = proj
            keyvars = proj
        else:
            if rng.random() < 0.5:
                proj = [v for v in pv if rng.random() < 0.6]
                if not proj:
                    proj = [rng.choice(pv)]
                case["proj"] = proj
            keyvars = pv if (case["proj"] is None or rng.random() < 0.25) else case["proj"]
        if rng.random() < 0.6:
            nk = rng.choice([1, 1, 2, 2, 3])
            case["order"] = [[rng.random() < 0.4, rng.choice(keyvars)] for _ in range(nk)]
        if rng.random() < 0.4:
            off = rng.choice([0, 0, 1, 1, 2, 3, 5])
            lim = rng.choice([None, 0, 1, 2, 2, 3, 4])
            if off == 0 and lim is None:
                lim = 2
            case["slice"] = [off, lim]
        return case

    def gen_agg(self, rng, pv, kinds=KINDS):
        kind = rng.choice(kinds)
        r = rng.random()
        arg = 2 if r < 0.6 else rng.choice(pv)
        if kind == "count" and rng.random() < 0.35:
            arg = None
        a = {"kind": kind, "distinct": rng.random() < 0.45, "arg": arg}
        if kind == "concat":
            a["sep"] = rng.choice(SEPS)
        return a

    # ------------------------------------------------------------ query text
    def pattern_vars(self, case):
        return sorted(PVARS[case["pattern"]]) + ([case["galias"][1]] if case.get("galias") else [])

    def canon_order(self, case):
        if case["group"] is None:
            return self.pattern_vars(case)
        return list(case["group"]) + [a[0] for a in case["aggs"]]

    def select_items(self, case, vars_):
        al = {a[0]: a[1] for a in case["aggs"]}
        return " ".join(f"({agg_text(al[v])} AS ?v{v})" if v in al else f"?v{v}" for v in vars_)

    def tail(self, case):
        t = ""
        ga = case.get("galias")
        if case["group"]:
            t += " GROUP BY " + " ".join(f"(?v{ga[0]} AS ?v{v})" if ga and v == ga[1] else f"?v{v}"
                                         for v in case["group"])
        h = case["having"]
        if h is not None:
            if "key" in h:
                t += f" HAVING (?v{h['key']} {'!=' if h['ne'] else '='} <{h['iri']}>)"
            else:
                t += f" HAVING ({agg_text(h['agg'])} {h['op']} {h['n']})"
        return t

    def queries(self, case):
        where = "WHERE { " + PATTERNS[case["pattern"]] + " }"
        ga = case.get("galias")
        # GROUP BY (e AS ?v) is Extend(P, ?v, e) followed by GROUP BY ?v (SPARQL 18.2.4.1): the input
        # sequence of such a case is the solution sequence of P extended by BIND
        base = "SELECT * WHERE { " + PATTERNS[case["pattern"]] + (f" BIND(?v{ga[0]} AS ?v{ga[1]})" if ga else "") + " }"
        order = self.canon_order(case)
        core = None
        if case["group"] is not None:
            core = f"SELECT {self.select_items(case, order)} {where}{self.tail(case)}"
        pv = order if case["proj"] is None else [v for v in order if v in case["proj"]]
        sel = "*" if case["proj"] is None else self.select_items(case, pv)
        full = "SELECT " + ("DISTINCT " if case["distinct"] else "") + sel + " " + where
        if case["group"] is not None:
            full += self.tail(case)
        if case["order"]:
            al = {a[0]: a[1] for a in case["aggs"]}
            shown = pv
            full += " ORDER BY " + " ".join(
                ("DESC" if d else "ASC") + (f"({agg_text(al[v])})" if v in al and v not in shown else f"(?v{v})")
                for d, v in case["order"])
        final = full
        if case["slice"] is not None:
            off, lim = case["slice"]
            if lim is not None:
                final += f" LIMIT {lim}"
            final += f" OFFSET {off}"
        return base, core, full, final

    # ------------------------------------------------------------ implementation
    def graph_of(self, case):
        g = Graph()
        for s, p, o in case["graph"]:
            g.add((dec_term(s), dec_term(p), dec_term(o)))
        return g

    def rows_of(self, result, order):
        out = []
        for b in result.bindings:
            d = {}
            for k, v in b.items():
                if v is None:
                    continue
                name = str.__str__(k)
                if name.startswith("v") and name[1:].isdigit():
                    d[int(name[1:])] = enc_term(v)
                else:
                    d[900 + len(d)] = ["S", "\x00var:" + name]
            extra = sorted(k for k in d if k not in order)
            out.append([[v, d[v]] for v in list(order) + extra if v in d])
        return out

    def memo_key(self, case):
        return json.dumps([case["graph"], case["pattern"], case.get("galias"),
                           [[i, e, v] for i, e, v in derived_vars(case)]], sort_keys=True)

    def extend(self, case, rows):
        """bind the derived variables (values of the aggregates' argument expressions)"""
        dv = derived_vars(case)
        if not dv:
            return rows
        out = []
        for r in rows:
            d = dict((v, t) for v, t in r)
            r2 = list(r)
            for i, e, v in dv:
                val = expr_eval(e, d[v]) if v in d else None
                if val is not None:
                    r2.append([i, val])
            out.append(r2)
        return out

    def input_of(self, case):
        key = self.memo_key(case)
        if key not in self._memo:
            if len(self._memo) > 5000:
                self._memo.clear()
            g = self.graph_of(case)
            base = self.queries(case)[0]
            self._memo[key] = self.extend(case, self.rows_of(g.query(base), self.pattern_vars(case)))
        return self._memo[key]

    def run_impl(self, case):
        g = self.graph_of(case)
        base, core, full, final = self.queries(case)
        order = self.canon_order(case)
        try:
            inp = self.extend(case, self.rows_of(g.query(base), self.pattern_vars(case)))
            self._memo[self.memo_key(case)] = inp
            a = inp if core is None else self.rows_of(g.query(core), order)
            f = self.rows_of(g.query(full), order)
            s = f if final == full else self.rows_of(g.query(final), order)
        except Exception as e:  # noqa: BLE001
            return {"err": type(e).__name__}
        return {"agg": a, "full": f, "sliced": s}

    def on_timeout(self, case):
        return {"err": "timeout"}

    # ------------------------------------------------------------ Coq text
    def coq_case(self, case):
        inp = self.input_of(case)
        grp = copt(case["group"], lambda g: clist(cN(v) for v in g))
        aggs = clist(ctuple(cN(v), c_agg(a, derived_id(case, a) if a.get("expr") is not None else None))
                     for v, a in case["aggs"])
        hv = copt(case["having"], lambda h: (f"(HKey {cN(h['key'])} {cbool(h['ne'])} {cstr(h['iri'])})" if "key" in h
                                             else f"(HAgg {c_agg(h['agg'])} {OPS[h['op']]} {cZ(h['n'])})"))
        order = clist(ctuple(cbool(d), cN(v)) for d, v in case["order"])
        proj = copt(case["proj"], lambda p: clist(cN(v) for v in p))
        sl = copt(case["slice"], lambda s: ctuple(cnat(s[0]), copt(s[1], cnat)))
        return ("{| c_input := %s; c_group := %s; c_aggs := %s; c_having := %s; c_order := %s; c_proj := %s; "
                "c_distinct := %s; c_slice := %s |}" % (c_rows(inp), grp, aggs, hv, order, proj,
                                                        cbool(case["distinct"]), sl))

    def coq_obs(self, obs):
        if "err" in obs:
            return "OErr"
        return f"(ORows {c_rows(obs['agg'])} {c_rows(obs['full'])} {c_rows(obs['sliced'])})"

    def nontrivial(self, case, obs):
        mods = bool(case["order"] or case["distinct"] or case["slice"] or case["proj"] or case["group"] is not None)
        return mods and (case["group"] is not None or ("agg" in obs and len(obs["agg"]) > 0))

    def features(self, case, obs):
        f = {"grouped": int(case["group"] is not None),
             "implicit_group": int(case["group"] == []),
             "group_keys_2": int(bool(case["group"]) and len(case["group"]) == 2),
             "having": int(case["having"] is not None),
             "having_key": int(bool(case["having"]) and "key" in case["having"]),
             "having_key_unprojected": int(bool(case["having"]) and "key" in case["having"]
                                           and case["having"]["key"] not in (case["proj"] or [])),
             "group_by_alias": int(bool(case.get("galias"))),
             "agg_arg_expression": int(any(a.get("expr") for _, a in case["aggs"])),
             "agg_arg_tex": int(any(a.get("tex") for _, a in case["aggs"])),
             # ORDER BY with a key that is not among the projected variables: the checker judges only the multiset
             # there, the ORDER is judged by model = implementation alone (keys_visible = false in Model.v)
             "order_judged_by_model_equality_only": int(bool(case["order"]) and case["proj"] is not None
                                                        and any(v not in case["proj"] for _, v in case["order"])),
             "order_judged_by_checker": int(bool(case["order"]) and (case["proj"] is None
                                            or all(v in case["proj"] for _, v in case["order"]))),
             "agg_only_in_order_by": int(any(v in [a[0] for a in case["aggs"]] and v not in (case["proj"] or [])
                                             for _, v in case["order"])),
             "distinct_sorted_on_all_columns": int(bool(case["distinct"] and case["proj"] and case["order"]
                                                        and set(case["proj"]) <= {v for _, v in case["order"]})),
             "order_keys": len(case["order"]), "order_desc": sum(1 for d, _ in case["order"] if d),
             "distinct": int(case["distinct"]), "slice": int(case["slice"] is not None),
             "project": int(case["proj"] is not None and case["group"] is None),
             "raised": int("err" in obs),
             "empty_input": int("agg" in obs and case["group"] is None and not obs["agg"])}
        for _, a in case["aggs"]:
            k = "agg_" + a["kind"] + ("_distinct" if a["distinct"] else "") + ("_star" if a["arg"] is None else "")
            f[k] = f.get(k, 0) + 1
        if "agg" in obs:
            f["rows_total"] = len(obs["full"])
            kinds = set()
            unb = False
            n = len(self.canon_order(case))
            for r in obs["agg"]:
                unb = unb or len(r) < n
                for _, t in r:
                    kinds.add(t[0])
            f["mixed_kinds"] = int(len(kinds) >= 3)
            f["lang_or_boolean_terms"] = int(bool(kinds & {"L", "T"}))
            f["unbound_present"] = int(unb)
        return f

    def shrink(self, case):
        g = case["graph"]
        for i in range(len(g)):
            yield dict(case, graph=g[:i] + g[i + 1:])
        if case["slice"] is not None:
            yield dict(case, slice=None)
        if case["distinct"]:
            yield dict(case, distinct=False)
        for i in range(len(case["order"])):
            yield dict(case, order=case["order"][:i] + case["order"][i + 1:])
        if case["having"] is not None:
            yield dict(case, having=None)
        used = {v for _, v in case["order"]}
        for i, (al, _) in enumerate(case["aggs"]):
            if al not in used and len(case["aggs"]) > 1:
                proj = [v for v in (case["proj"] or []) if v != al]
                if proj:
                    yield dict(case, aggs=case["aggs"][:i] + case["aggs"][i + 1:], proj=proj)
        if case["group"] is None and case["proj"] is not None and not case["order"]:
            yield dict(case, proj=None)

    def sweep(self):
        """every single aggregate (with and without DISTINCT) over four fixed small graphs, grouped by ?v0 and
        ungrouped; every single/double ORDER BY key choice with both directions over a mixed-kind graph"""
        t = enc_term
        a, b = URIRef(E + "a"), URIRef(E + "b")
        p, q = PRED
        graphs = [
            [],
            [[t(a), t(p), t(Literal(1))], [t(a), t(p), t(Literal(2))], [t(b), t(p), t(Literal(2))],
             [t(b), t(q), t(Literal(5))]],
            [[t(a), t(p), t(Literal(1))], [t(a), t(p), t(Literal(Decimal("0.5")))], [t(b), t(p), t(Literal(7))],
             [t(b), t(p), t(Literal(-3))], [t(b), t(p), t(Literal(2))], [t(a), t(q), t(Literal(1))]],
            [[t(a), t(p), t(Literal("x"))], [t(a), t(p), t(Literal(""))], [t(b), t(p), t(Literal("b"))],
             [t(b), t(q), t(Literal("b"))]],
        ]
        for gi, g in enumerate(graphs):
            for kind in KINDS:
                for d in (False, True):
                    for arg in (2, 3, None):
                        if arg is None and kind != "count":
                            continue
                        for gv in ([], [0]):
                            agg = {"kind": kind, "distinct": d, "arg": arg}
                            if kind == "concat":
                                agg["sep"] = None
                            yield {"graph": g, "pattern": 1, "group": gv, "aggs": [[10, agg]], "having": None,
                                   "order": [[False, 10]], "proj": gv + [10], "distinct": False, "slice": None}
        mixed = [[t(a), t(p), t(o)] for o in (Literal(1), Literal(Decimal("1.0")), Literal("x"), Literal(""), a,
                                              BNode("b1"), Literal(10), Literal(-3))] + \
                [[t(b), t(p), t(Literal(1))], [t(b), t(q), t(BNode("b2"))], [t(BNode("b1")), t(p), t(b)]]
        for v1 in (0, 2, 3):
            for d1 in (False, True):
                yield {"graph": mixed, "pattern": 1, "group": None, "aggs": [], "having": None,
                       "order": [[d1, v1]], "proj": None, "distinct": False, "slice": None}
                for v2 in (0, 2, 3):
                    for d2 in (False, True):
                        for sl in (None, [1, 3]):
                            yield {"graph": mixed, "pattern": 1, "group": None, "aggs": [], "having": None,
                                   "order": [[d1, v1], [d2, v2]], "proj": None, "distinct": False, "slice": sl}


# ---------------------------------------------------------------------------------------------
# Numeric type promotion in SUM / AVG with xsd:float and xsd:double members (conformance level
# for the values: floating point results are compared with a tolerance; the datatype is judged
# against the XSD lattice, and the model computes it from the REFLECTED _typePromotionMap).
from fractions import Fraction  # noqa: E402

DT_CODE = {str(XSD.integer): 0, str(XSD.decimal): 1, str(XSD.float): 2, str(XSD.double): 3}
PVALUES = {
    0: ["0", "1", "2", "-3", "7"],
    1: ["0.25", "1.5", "-2.5", "2.0", "0.1"],
    2: ["0.5", "1.5", "-0.25", "2.0", "3.0"],
    3: ["0.5", "1.5", "-0.25", "4.0", "0.1"],
}


def p_literal_text(dt, lex):
    # typed form throughout: the shorthand of a negative decimal (`-2.5`) makes rdflib's SPARQL parser
    # raise TypeError (Literal.__neg__ on a Decimal) - a parser matter, not C08
    return "'%s'^^<%s>" % (lex, [XSD.integer, XSD.decimal, XSD.float, XSD.double][dt])


def p_exact(dt, lex):
    if dt in (0, 1):
        return Fraction(Decimal(lex))
    return Fraction(float(lex))


class C08Promo(Suite):
    name = "promotion"
    imports = "From RV Require Import Modifiers.PromoModel."
    case_ty = "pcase"
    obs_ty = "pobs"
    model = "pmodel"
    oeq = "pobs_eqb"
    spec = "pspec"
    corr = "aggregates.Sum/Average (datatype bookkeeping, type_safe_numbers), datatypes.type_promotion/_typePromotionMap"
    quick_n = 300
    thorough_n = 6000
    timeout_s = 20.0

    # case = {"avg": bool, "vals": [[dtcode, lexical]...]}  (the order is the order the values are met in)
    def gen(self, rng, i):
        n = rng.choice([1, 2, 2, 3, 3, 4, 5])  # (an empty VALUES block raises in rdflib: not a C08 matter)
        prof = rng.random()
        dts = [0, 1] if prof < 0.15 else [1, 2] if prof < 0.4 else [0, 1, 2] if prof < 0.6 else \
            [1, 3] if prof < 0.7 else [0, 1, 2, 3]
        vals = []
        for _ in range(n):
            dt = rng.choice(dts)
            vals.append([dt, rng.choice(PVALUES[dt])])
        return {"avg": rng.random() < 0.4, "vals": vals}

    def run_impl(self, case):
        g = Graph()
        fn = "AVG" if case["avg"] else "SUM"
        body = " ".join(p_literal_text(dt, lex) for dt, lex in case["vals"])
        q = "SELECT (%s(?o) AS ?r) WHERE { VALUES ?o { %s } }" % (fn, body)
        try:
            rows = list(g.query(q))
            if len(rows) != 1 or rows[0][0] is None:
                return {"err": "rows"}
            lit = rows[0][0]
            dt = DT_CODE.get(str.__str__(lit.datatype) if lit.datatype is not None else "", 99)
            lex = str.__str__(lit)
            v = Fraction(Decimal(lex)) if dt in (0, 1) else Fraction(float(lex))
        except Exception as e:  # noqa: BLE001
            return {"err": type(e).__name__}
        return {"dt": dt, "num": v.numerator, "den": v.denominator}

    def coq_case(self, case):
        vals = []
        for dt, lex in case["vals"]:
            f = p_exact(dt, lex)
            vals.append(ctuple(cN(dt), ctuple(cZ(f.numerator), cZ(f.denominator))))
        return "{| p_avg := %s; p_vals := %s |}" % (cbool(case["avg"]), clist(vals))

    def coq_obs(self, obs):
        if "err" in obs:
            return "PErr"
        return f"(PVal {cN(obs['dt'])} {ctuple(cZ(obs['num']), cZ(obs['den']))})"

    def nontrivial(self, case, obs):
        return len({dt for dt, _ in case["vals"]}) >= 2

    def features(self, case, obs):
        dts = [dt for dt, _ in case["vals"]]
        f = {"avg": int(case["avg"]), "members": len(dts), "with_float": int(2 in dts), "with_double": int(3 in dts),
             "decimal_before_float": int(any(a == 1 and 2 in dts[i + 1:] for i, a in enumerate(dts))),
             "raised": int("err" in obs)}
        return f

    def shrink(self, case):
        v = case["vals"]
        for i in range(len(v)):
            if len(v) > 1:
                yield dict(case, vals=v[:i] + v[i + 1:])

    def sweep(self):
        """every ordered pair and triple of datatypes, SUM and AVG"""
        import itertools
        for avg in (False, True):
            for n in (1, 2, 3):
                for dts in itertools.product(range(4), repeat=n):
                    yield {"avg": avg, "vals": [[dt, PVALUES[dt][1]] for dt in dts]}


# ---------------------------------------------------------------------------------------------
# A sub-select with ORDER BY / LIMIT / OFFSET inside a group: evaluated on its own, then joined.
class C08Sub(Suite):
    name = "subselect"
    imports = "From RV Require Import Modifiers.SubModel."
    case_ty = "scase"
    obs_ty = "sobs"
    model = "smodel"
    oeq = "sobs_eqb"
    spec = "sspec"
    corr = ("evaluate.evalSlice/evalOrderBy/evalProject/evalDistinct inside a SubSelect (ToMultiSet), evalJoin / "
            "evalLazyJoin, algebra.analyse (which parts may be joined lazily)")
    quick_n = 150
    thorough_n = 3000
    timeout_s = 20.0

    INNER = "?v0 <http://e/p> ?v2"
    OUTER = ["?v0 <http://e/q> ?v3", "?v4 <http://e/q> ?v3", "?v0 <http://e/q> ?v2"]
    OUTER_VARS = [[0, 3], [3, 4], [0, 2]]

    def __init__(self):
        self.mod = C08()

    # case = {"graph", "outer": index, "first": bool (sub-select written first), "order", "proj", "distinct", "slice"}
    def gen(self, rng, i):
        objs = rng.sample(OBJ_NUM + [Literal("x"), URIRef(E + "a")], rng.choice([3, 4, 5]))
        graph = self.mod.gen_graph(rng, objs, 12)
        proj = rng.choice([[0, 2], [0, 2], [0], [2]])
        keys = rng.choice([[], [[rng.random() < 0.5, 2]], [[rng.random() < 0.5, 2], [False, 0]], [[rng.random() < 0.5, 0]]])
        off = rng.choice([0, 0, 0, 1, 2])
        lim = rng.choice([1, 1, 2, 2, 3, None]) if off else rng.choice([1, 1, 2, 2, 3])
        case = {"graph": graph, "outer": rng.choice([0, 0, 0, 1, 2]), "first": rng.random() < 0.3, "order": keys,
                "proj": proj, "distinct": rng.random() < 0.2, "slice": [off, lim]}
        if rng.random() < 0.2:
            # SELECT DISTINCT sub-select without a slice: Distinct, too, must be evaluated on its own
            case["distinct"], case["slice"] = True, None
        return case

    def sub_case(self, case, sliced=True):
        return {"graph": case["graph"], "pattern": 0, "group": None, "aggs": [], "having": None, "order": case["order"],
                "proj": case["proj"], "distinct": case["distinct"], "slice": case["slice"] if sliced else None,
                "galias": None}

    def texts(self, case):
        sub = self.sub_case(case)
        _, _, full, final = self.mod.queries(sub)
        outer = self.OUTER[case["outer"]]
        grp = ("{ %s } %s" % (final, outer)) if case["first"] else ("%s . { %s }" % (outer, final))
        return full, final, "SELECT * WHERE { %s }" % grp, "SELECT * WHERE { %s }" % outer

    def run_impl(self, case):
        g = self.mod.graph_of(case)
        full, final, whole, outer = self.texts(case)
        allv = sorted(set(case["proj"]) | set(self.OUTER_VARS[case["outer"]]))
        try:
            f = self.mod.rows_of(g.query(full), sorted(case["proj"]))
            s = self.mod.rows_of(g.query(final), sorted(case["proj"]))
            j = self.mod.rows_of(g.query(whole), allv)
        except Exception as e:  # noqa: BLE001
            return {"err": type(e).__name__}
        return {"full": f, "sliced": s, "joined": j}

    def coq_case(self, case):
        g = self.mod.graph_of(case)
        outer = self.mod.rows_of(g.query(self.texts(case)[3]), sorted(self.OUTER_VARS[case["outer"]]))
        return "{| s_sub := %s; s_outer := %s |}" % (self.mod.coq_case(self.sub_case(case)), c_rows(outer))

    def coq_obs(self, obs):
        if "err" in obs:
            return "SErr"
        return f"(SRows {c_rows(obs['full'])} {c_rows(obs['sliced'])} {c_rows(obs['joined'])})"

    def nontrivial(self, case, obs):
        return "joined" in obs and len(obs["full"]) > 0

    def features(self, case, obs):
        f = {"subselect_first": int(case["first"]), "limit_without_offset": int(bool(case["slice"]) and case["slice"][0] == 0),
             "distinct_without_slice": int(case["slice"] is None),
             "ordered": int(bool(case["order"])), "raised": int("err" in obs)}
        if "joined" in obs:
            f["slice_cuts"] = int(len(obs["sliced"]) < len(obs["full"]))
            f["joined_rows"] = len(obs["joined"])
        return f

    def shrink(self, case):
        g = case["graph"]
        for i in range(len(g)):
            yield dict(case, graph=g[:i] + g[i + 1:])
        if case["order"]:
            yield dict(case, order=[])
        if case["distinct"]:
            yield dict(case, distinct=False)


SUITES = [C08(), C08Promo(), C08Sub()]
