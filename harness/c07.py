"""C07 - term identity laws: correspondence between coq/Term/Model.v and rdflib/term.py,
rdflib/util.py:from_n3 (plus conformance runs through pickle/copy, the Turtle parser and the SPARQL engine).

Three suites:
  laws - a list of 2..10 terms: the matrices of ==, hash and < over all pairs (all triples are checked by the
         verified specification checker inside Coq) and != , plus conformance flags about sorted()/set()/<=/>/>=.
  pickler - a sequence of terms with equal text and different kinds through one rdflib.store.NodePickler.
  text - one term: n3() text, from_n3(n3()), pickle round trip (model + spec), and conformance flags for
         copy/deepcopy/all pickle protocols, a one-triple Turtle document and a SPARQL BIND.
Terms cross the boundary structurally (kind, string, datatype, language), identified without ever calling
rdflib's __eq__/__hash__ (skey)."""
from __future__ import annotations

import copy
import datetime as _dt
import pickle
import random
import warnings
from decimal import Decimal

from .core import Suite, cN, cZ, cbool, clist, cnat, copt, cstr, ctuple, import_rdflib

rdflib = import_rdflib()
warnings.filterwarnings("ignore")
import logging  # noqa: E402

logging.getLogger("rdflib").setLevel(logging.CRITICAL)
logging.getLogger("rdflib.term").setLevel(logging.CRITICAL)

from rdflib import BNode, Graph, Literal, URIRef, Variable  # noqa: E402
from rdflib.namespace import XSD  # noqa: E402
from rdflib.term import XSDToPython  # noqa: E402
from rdflib.util import from_n3  # noqa: E402

XSDP = "http://www.w3.org/2001/XMLSchema#"
RDFP = "http://www.w3.org/1999/02/22-rdf-syntax-ns#"

# alphabet of the property: characters the text forms must escape or carry
ALPHA = ["\\", '"', "'", "\n", "\r", "\t", "u", "U", "x", "0", "a", "é", "\U0001f600", " ", " "]

# lexical forms per recognised datatype (local name): valid (several spellings of one value where the
# datatype has them) and invalid ones
LEX = {
    "time": ["10:00:00", "10:00:00Z", "10:00:00+01:00", "09:00:00Z", "25:00:00", "abc"],
    "date": ["2006-01-01", "2006-01-02", "2006-01-01Z", "2006-13-01", "abc"],
    "dateTime": ["2006-01-01T00:00:00", "2006-01-01T00:00:00Z", "2006-01-01T01:00:00+01:00",
                 "2005-12-31T23:00:00-01:00", "2006-01-01T00:00:00.000", "2006-01-01", "abc"],
    "duration": ["P1D", "PT24H", "P1Y", "P12M", "P1M", "P30D", "-P1D", "abc"],
    "dayTimeDuration": ["P1D", "PT24H", "PT1H", "PT60M", "abc"],
    "yearMonthDuration": ["P1Y", "P12M", "P1M", "abc"],
    "hexBinary": ["0a", "0A", "", "0", "zz"],
    "string": ["", "a", "01", "a\tb", " a  b ", "é"],
    "normalizedString": ["a", "a\tb", "a\nb", " a  b "],
    "token": ["a", "a\tb", " a  b ", "a b"],
    "language": ["en", "EN", "en-US"],
    "boolean": ["true", "false", "1", "0", "TRUE", "True", "abc", ""],
    "decimal": ["1", "1.0", "1.10", "01.1", "+1", "-0", "0", "NaN", "nan", "sNaN", "INF", "Infinity", "-Infinity", "1e0", "abc"],
    "integer": ["0", "1", "01", "+1", "-0", "-1", "2", "10", " 1", "1_0", "1.0", "abc", ""],
    "nonPositiveInteger": ["0", "-1", "1", "-01"],
    "long": ["1", "01", "9223372036854775808"],
    "nonNegativeInteger": ["0", "1", "-1", "+1"],
    "negativeInteger": ["-1", "0", "-01"],
    "int": ["1", "01", "2147483648", "abc"],
    "unsignedLong": ["1", "-1", "01"],
    "positiveInteger": ["1", "0", "+1"],
    "short": ["1", "32768", "01"],
    "unsignedInt": ["1", "-1", "01"],
    "byte": ["1", "128", "-128", "01"],
    "unsignedShort": ["1", "65536", "01"],
    "unsignedByte": ["1", "256", "01"],
    "float": ["1", "1.0", "1e0", "INF", "inf", "-INF", "+INF", "NaN", "nan", "Infinity", "0", "-0", "abc"],
    "double": ["1", "1.0", "1e0", "1.0E0", "INF", "inf", "-INF", "-inf", "NaN", "nan", "infinity", "1e999", "0", "-0.0", " 1", "abc"],
    "base64Binary": ["YQ==", "YQ", "", "!!"],
    "anyURI": ["http://e/a", "a b"],
}
RDFLEX = {
    "XMLLiteral": ["<a/>", "<a></a>", "<a>", "a", ""],
    "HTML": ["<b>a</b>", "a", "<b>"],
}

# clusters of one datatype: naive and aware values, several offsets, one instant spelled differently
CLUSTERS = {
    "time": ["12:00:00+05:00", "08:00:00Z", "10:00:00", "07:00:00Z", "09:00:00+01:00", "08:00:00", "08:00:00+00:00",
             "23:30:00-02:00", "00:30:00", "10:00:00.5"],
    "dateTime": ["2006-01-01T12:00:00+05:00", "2006-01-01T08:00:00Z", "2006-01-01T10:00:00", "2006-01-01T07:00:00Z",
                 "2006-01-01T09:00:00+01:00", "2006-01-01T08:00:00", "2006-01-01T08:00:00+00:00",
                 "2005-12-31T23:30:00-02:00", "2006-01-01T00:30:00", "2006-01-02T00:00:00Z"],
    "date": ["2006-01-01", "2006-01-01Z", "2006-01-02", "2006-01-01+05:00", "2006-01-01-05:00", "2005-12-31", "2006-01-02Z"],
    "duration": ["P1D", "PT24H", "P1Y", "P12M", "P1M", "P30D", "-P1D", "P0D", "PT36H", "P1Y1D", "P13M"],
    "yearMonthDuration": ["P1Y", "P12M", "P1M", "P0M", "P13M"],
    "dayTimeDuration": ["P1D", "PT24H", "PT1H", "PT60M", "P0D"],
}

NONLIT_STRINGS = ["", "a", "b", "b1", "http://e/a", "http://e/b", "http://e/aé", "http://e/\U0001f600", "A",
                  "aa", "?x", "x", XSDP + "integer", XSDP + "string", "urn:x", "a b", "a<b", "é"]


def skey(t):
    """structural identity of a term, never through rdflib __eq__/__hash__"""
    cls = type(t).__name__
    if isinstance(t, Literal):
        dt, lang = t._datatype, t._language
        return (cls, str.__str__(t), None if dt is None else str.__str__(dt), None if lang is None else str.__str__(lang))
    return (cls, str.__str__(t), None, None)


def empty_lang_literal(lex):
    """a Literal whose private _language is the empty string (reachable through __setstate__)"""
    lit = Literal(lex)
    lit.__setstate__((None, {"language": "", "datatype": None}))
    return lit


def build_pool(rng, size=270):
    """a fresh pool of terms (list, structurally distinct)"""
    out = []
    seen = set()

    def add(t):
        k = skey(t)
        if k not in seen:
            seen.add(k)
            out.append(t)

    # fixed core: falsy terms, one of each kind sharing one string
    for t in [Literal(""), Literal(0), Literal(False), Literal(0.0), URIRef(""), BNode(""), Variable("?q"),
              URIRef("a"), BNode("a"), Variable("a"), Literal("a"), Literal("a", datatype=XSD.string),
              Literal("a", lang="en"), Literal("a", lang="EN"), Literal("a", lang="en-US"), Literal("a", lang="en-us"),
              Literal("a", lang="fr"), Literal("a", lang="FR"), Literal("b", lang="Fr"), Literal("b", lang="en"), Literal("b", lang="En"),
              Literal(1), Literal(1.0), Literal(Decimal("1.0")), Literal("1"), Literal("01", datatype=XSD.integer, normalize=False),
              Literal(float("nan")), Literal(float("inf")), Literal(-float("inf")), Literal(Decimal("NaN")),
              Literal(Decimal("Infinity")),
              Literal(_dt.datetime(2006, 1, 1)), Literal(_dt.datetime(2006, 1, 1, tzinfo=_dt.timezone.utc)),
              Literal(_dt.date(2006, 1, 1)), Literal(_dt.time(10, 0)), Literal(_dt.time(10, 0, tzinfo=_dt.timezone.utc)),
              Literal(_dt.timedelta(days=1)), Literal(True),
              Variable("??x"), Variable("?"),
              Literal("hola", lang="es-419"), Literal("hola", lang="es"), Literal("a", lang="de-CH-1996"), Literal("a", lang="de-CH"),
              Literal("1", datatype=XSD.boolean), Literal("0", datatype=XSD.boolean), Literal("true", datatype=XSD.boolean),
              Literal("false", datatype=XSD.boolean), Literal(-1), Literal(2), Literal(Decimal("0.5")), Literal(0.5),
              Literal("a", datatype=URIRef("http://e/dt")), Literal("b", datatype=URIRef("http://e/dt")),
              Literal("a", datatype=URIRef("http://e/dt2")), Literal("1", datatype=URIRef("http://e/dt")),
              empty_lang_literal("a"), empty_lang_literal("b"),
              Literal("\\x41"), Literal("\n\\\""), Literal("a\n\""), Literal("\"\"\"\n"), Literal("a\\"), Literal("\\u00e9")]:
        add(t)
    for local, forms in CLUSTERS.items():
        for f in forms:
            add(Literal(f, datatype=URIRef(XSDP + local)))
    core = len(out)
    strs = list(NONLIT_STRINGS)
    rng.shuffle(strs)
    for s in strs[:12]:
        add(URIRef(s))
    for s in strs[4:14]:
        add(BNode(s))
    for s in strs[8:15]:
        if s:
            add(Variable(s))
    # strings over the alphabet
    for _ in range(40):
        n = rng.choice([1, 1, 2, 2, 3, 3, 4, 5])
        s = "".join(rng.choice(ALPHA) for _ in range(n))
        r = rng.random()
        if r < 0.6:
            add(Literal(s))
        elif r < 0.75:
            add(Literal(s, lang=rng.choice(["en", "EN", "fr", "FR", "en-GB", "en-gb"])))
        elif r < 0.85:
            add(Literal(s, datatype=XSD.string))
        elif r < 0.92:
            add(Literal(s, datatype=URIRef("http://e/dt")))
        else:
            add(BNode(s))
    # every recognised datatype, valid and invalid forms, normalised and not
    keys = [k for k in XSDToPython if k is not None]
    for k in keys:
        ks = str.__str__(k)
        local = ks[len(XSDP):] if ks.startswith(XSDP) else ks[len(RDFP):] if ks.startswith(RDFP) else None
        forms = LEX.get(local) if ks.startswith(XSDP) else RDFLEX.get(local)
        if not forms:
            forms = ["a", ""]
        forms = list(forms)
        rng.shuffle(forms)
        take = forms[: rng.choice([3, 4, 5])]
        for f in take:
            add(Literal(f, datatype=k))
            if rng.random() < 0.5:
                add(Literal(f, datatype=k, normalize=False))
    rest = out[core:]
    rng.shuffle(rest)
    # keep the fixed core and the clusters, trim the rest
    return out[:core] + rest[: max(0, size - core)]


# ------------------------------------------------------------------ terms as JSON / Coq
def tj(t):
    """term -> JSON: ["I"|"B"|"V", s] or ["L", lex, dt|None, lang|None]"""
    k = skey(t)
    if k[0] == "Literal":
        return ["L", k[1], k[2], k[3]]
    return [{"URIRef": "I", "BNode": "B", "Variable": "V"}.get(k[0], "?"), k[1]]


def mk(j):
    """JSON -> term, with exactly this lexical form (no normalisation)"""
    if j[0] == "I":
        return URIRef(j[1])
    if j[0] == "B":
        return BNode(j[1])
    if j[0] == "V":
        return Variable("?" + j[1])   # the constructor strips one leading '?': every name, also '' and '?x', can be built
    _, lex, dt, lang = j
    if lang == "":
        return empty_lang_literal(lex)
    lit = Literal(lex, lang=lang, datatype=None if dt is None else URIRef(dt), normalize=False)
    if str.__str__(lit) != lex:   # token / normalizedString rewriting happens even with normalize=False
        lit = Literal(str.__str__(lit), lang=lang, datatype=None if dt is None else URIRef(dt), normalize=False)
    return lit


def cterm(j):
    if j[0] == "I":
        return f"IRI {cstr(j[1])}"
    if j[0] == "B":
        return f"BNd {cstr(j[1])}"
    if j[0] == "V":
        return f"Var {cstr(j[1])}"
    return f"Lit {cstr(j[1])} {copt(j[2], cstr)} {copt(j[3], cstr)}"


def cwres(w):
    if w == "raise":
        return "WRaise"
    if w == "odd":
        return "WTerm (IRI [0%N; 0%N; 0%N])"  # something that is not a term of the model: never 'the same'
    return f"WTerm ({cterm(w)})"


def term_strings(j):
    if j[0] != "L":
        return [j[1]]
    out = [j[1]]
    if j[3]:
        out.append(j[3].lower())
    if j[2] is not None:
        out.append(j[2])
    return out


RANK = {"B": 0, "V": 1, "I": 2, "L": 3}


def ill_typed(j):
    """oracle for the trigger of F7k only: rdflib holds this literal to be ill-typed (or has no value for a recognised datatype)"""
    if j[0] != "L" or j[2] is None:
        return False
    t = mk(j)
    return bool(t.ill_typed is True or (t.value is None and t.datatype in XSDToPython))


def structural_key(j):
    """the identity RDF gives a term (used only by the conformance flag)"""
    if j[0] == "L":
        return ("L", j[1], j[2], (j[3] or "").lower() or None)
    return (j[0], j[1])


class _Pools:
    """pool of terms per run, rebuilt every 400 cases"""

    def __init__(self):
        self.pool = None
        self.left = 0

    def get(self, rng):
        if self.pool is None or self.left <= 0:
            self.pool = [tj(t) for t in build_pool(rng)]
            self.left = 400
        self.left -= 1
        return self.pool


def related(pool, j, rng):
    """a term of the pool sharing a string with j (collisions across kinds, tags, datatypes)"""
    s = j[1]
    c = [p for p in pool if p is not j and (p[1] == s or (p[0] == "L" and j[0] == "L" and (p[2] == j[2] or (p[3] or "x").lower() == (j[3] or "y").lower())))]
    return rng.choice(c) if c else rng.choice(pool)


# ------------------------------------------------------------------ suite "laws"
class Laws(Suite):
    name = "laws"
    imports = "From RV Require Import Term.Model."
    case_ty = "case"
    obs_ty = "obs"
    corr = "Identifier.__eq__/__hash__/__lt__/__gt__, Literal.__eq__/__hash__/__lt__/__gt__/eq, _ORDERING"
    quick_n = 600
    thorough_n = 12000
    timeout_s = 20.0

    def __init__(self):
        self.pools = _Pools()

    # case = {"terms": [term...]}
    def make_case(self, terms):
        return {"terms": terms}

    def oracles(self, case):
        """hash table for a case: derived from the tree under test when the Coq text is written, never stored"""
        strings = []
        for j in case["terms"]:
            for s in term_strings(j):
                if s not in strings:
                    strings.append(s)
        return [[s, hash(s)] for s in strings]

    def gen(self, rng, i):
        pool = self.pools.get(rng)
        if rng.random() < 0.08:
            # booleans next to numbers (bool is a subclass of int in Python: they must not be compared by value)
            mix = [["L", "true", XSDP + "boolean", None], ["L", "false", XSDP + "boolean", None], ["L", "1", XSDP + "boolean", None],
                   ["L", "0", XSDP + "boolean", None], ["L", "0", XSDP + "integer", None], ["L", "1", XSDP + "integer", None],
                   ["L", "-1", XSDP + "integer", None], ["L", "2", XSDP + "integer", None], ["L", "0.5", XSDP + "decimal", None],
                   ["L", "0.5", XSDP + "double", None], ["L", "1.0", XSDP + "double", None], ["L", "a", None, None]]
            return self.make_case(rng.sample(mix, rng.choice([3, 4, 5])))
        if rng.random() < 0.12:
            # integers and decimals together (one numeric order through the fast path; 1 / 1.0 / 1.00 tie across datatypes,
            # which is where the stability of sorted() shows)
            I, D = XSDP + "integer", XSDP + "decimal"
            mix = [["L", "1", I, None], ["L", "01", I, None], ["L", "1", D, None], ["L", "1.0", D, None], ["L", "1.00", D, None],
                   ["L", "1.", D, None], ["L", "0.5", D, None], ["L", ".5", D, None], ["L", "-1", I, None], ["L", "-1.0", D, None],
                   ["L", "2", I, None], ["L", "10", I, None], ["L", "9.99", D, None], ["L", "-0", D, None], ["L", "0", I, None],
                   ["L", "+1.10", D, None], ["L", "1.1", D, None], ["L", "true", XSDP + "boolean", None], ["L", "1", None, None],
                   ["I", "1"], ["L", "1e0", D, None], ["L", "1E2", D, None], ["L", "15e-1", D, None], ["L", "1.5", D, None],
                   ["L", "100", I, None], ["L", "-1.0e+0", D, None], ["L", "1e", D, None],
                   # the integer subtypes: one value in several datatypes (ties across datatypes), bounds, ill-typed neighbours
                   ["L", "1", XSDP + "int", None], ["L", "01", XSDP + "long", None], ["L", "1", XSDP + "short", None],
                   ["L", "1", XSDP + "byte", None], ["L", "1", XSDP + "nonNegativeInteger", None],
                   ["L", "1", XSDP + "positiveInteger", None], ["L", "-1", XSDP + "negativeInteger", None],
                   ["L", "0", XSDP + "nonPositiveInteger", None], ["L", "127", XSDP + "byte", None], ["L", "128", XSDP + "byte", None],
                   ["L", "2", XSDP + "int", None], ["L", "2147483648", XSDP + "int", None], ["L", "-1", XSDP + "nonNegativeInteger", None],
                   ["L", "3", XSDP + "unsignedInt", None], ["L", "1", XSDP + "unsignedByte", None]]
            return self.make_case(rng.sample(mix, rng.choice([3, 4, 5, 6])))
        if rng.random() < 0.3:
            # a cluster: 3-5 literals of one datatype family (half of the time a date/time family)
            fams = {}
            for p in pool:
                if p[0] == "L":
                    fams.setdefault(p[2], []).append(p)
            big = [d for d, l in fams.items() if len(l) >= 3]
            dtm = [d for d in big if d in (XSDP + "time", XSDP + "dateTime", XSDP + "date", XSDP + "duration",
                                           XSDP + "yearMonthDuration", XSDP + "dayTimeDuration")]
            d = rng.choice(dtm) if dtm and rng.random() < 0.5 else rng.choice(big)
            terms = rng.sample(fams[d], min(len(fams[d]), rng.choice([3, 3, 4, 5])))
            if rng.random() < 0.3:
                terms.append(rng.choice(pool))
            terms = [t for i, t in enumerate(terms) if t not in terms[:i]]
            return self.make_case(terms)
        k = rng.choice([2, 3, 3, 4, 5, 6])
        terms = []
        while len(terms) < k:
            if terms and rng.random() < 0.45:
                c = related(pool, rng.choice(terms), rng)
            else:
                c = rng.choice(pool)
            if c not in terms:
                terms.append(c)
        return self.make_case(terms)

    def run_impl(self, case):
        js = case["terms"]
        ts = [mk(j) for j in js]
        n = len(ts)
        E, L, H, NE, GT, LE, GE = [], [], [], [], [], [], []
        w_sort, w_fam, w_set, w_ops = [], [], [], []
        for a in ts:
            row, lrow, nrow = [], [], []
            for b in ts:
                try:
                    r = a == b
                    row.append(bool(r) if r in (True, False) else False)
                except Exception as e:  # noqa: BLE001
                    row.append(False)
                    w_ops.append("== raised " + type(e).__name__)
                try:
                    r = a != b
                    nrow.append(bool(r) if r in (True, False) else not row[-1])
                except Exception as e:  # noqa: BLE001
                    nrow.append(row[-1])   # certainly not the negation of ==
                    w_ops.append("!= raised " + type(e).__name__)
                try:
                    r = a < b
                    lrow.append("lt" if r is True else "nlt" if r is False else "raise")
                except Exception:  # noqa: BLE001
                    lrow.append("raise")
            E.append(row)
            L.append(lrow)
            NE.append(nrow)
            for M, op in ((GT, lambda x, y: x > y), (LE, lambda x, y: x <= y), (GE, lambda x, y: x >= y)):
                orow = []
                for b in ts:
                    try:
                        r = op(a, b)
                        orow.append("lt" if r is True else "nlt" if r is False else "raise")   # lt/nlt: answered True/False
                    except Exception:  # noqa: BLE001
                        orow.append("raise")
                M.append(orow)
            H.append(hash(a))
        # ---- sorted() of the list in its given order, using only the terms' own <  (modelled: coq isort)
        try:
            srt = sorted(range(n), key=lambda i: _K(ts[i]))
        except Exception:  # noqa: BLE001
            srt = None
        # ---- conformance flags (not modelled): sorted() under shuffling, set/dict collapse, the other operators
        nonlit = [i for i in range(n) if js[i][0] != "L"]
        expect = sorted(nonlit, key=lambda i: (RANK[js[i][0]], [ord(c) for c in js[i][1]]))
        rs = random.Random(repr(js))
        for rnd in range(3):
            order = list(range(n))
            if rnd:
                rs.shuffle(order)
            try:
                res = sorted(order, key=lambda i: _K(ts[i]))
            except Exception as e:  # noqa: BLE001
                w_sort.append("sorted raised " + type(e).__name__)
                break
            if res[: len(nonlit)] != expect:
                w_sort.append("sorted: the non-literal prefix is not the expected order")
            if any(js[i][0] != "L" for i in res[len(nonlit):]):
                w_sort.append("sorted: a non-literal after a literal")
        # literals of one datatype: every permutation sorts to the same sequence (up to ties of the observed <)
        fams = {}
        for i in range(n):
            if js[i][0] == "L" and js[i][3] != "":
                fams.setdefault(js[i][2], []).append(i)
        for d, members in fams.items():
            if len(members) < 2:
                continue
            import itertools
            perms = list(itertools.permutations(members)) if len(members) <= 4 else \
                [rs.sample(members, len(members)) for _ in range(24)]
            first = None
            for p in perms:
                try:
                    res = sorted(p, key=lambda i: _K(ts[i]))
                except Exception as e:  # noqa: BLE001
                    w_fam.append("sorted (one datatype) raised " + type(e).__name__)
                    break
                if first is None:
                    first = res
                elif any(L[x][y] == "lt" or L[y][x] == "lt" for x, y in zip(first, res) if x != y):
                    w_fam.append("sorted: literals of one datatype come out in different orders for different input orders")
                    break
        # inside one datatype a tie under < is value equality (Literal.eq), NaN apart
        w_tie = []
        for d, members in fams.items():
            for x in members:
                for y in members:
                    if x < y and L[x][y] == "nlt" and L[y][x] == "nlt" and not (_nan(ts[x]) or _nan(ts[y])):
                        try:
                            if ts[x].eq(ts[y]) is not True:
                                w_tie.append("two literals of one datatype tie under < but are not eq()")
                        except Exception as e:  # noqa: BLE001
                            w_tie.append("eq raised %s on two literals that tie under <" % type(e).__name__)
        classes = {structural_key(j) for j in js}
        try:
            if len(set(ts)) != len(classes) or len({t: 1 for t in ts}) != len(classes):
                w_set.append("set/dict does not collapse exactly the equal terms")
        except Exception as e:  # noqa: BLE001
            w_set.append("set raised " + type(e).__name__)
        for i in range(n):
            for j in range(n):
                if js[i][0] == "L" and js[j][0] == "L":
                    continue
                try:
                    lt, gt, le, ge = ts[i] < ts[j], ts[j] > ts[i], ts[i] <= ts[j], ts[j] >= ts[i]
                    if lt is not gt or le is not ge or bool(le) != (bool(lt) or E[i][j]):
                        w_ops.append("< > <= >= disagree")
                except Exception as e:  # noqa: BLE001
                    w_ops.append("operator raised " + type(e).__name__)
        return {"eq": E, "hash": H, "lt": L, "ne": NE, "gt": GT, "le": LE, "ge": GE, "sorted": srt, "flags": [not w_sort, not w_fam, not w_set, not w_ops, not w_tie],
                "why": sorted(set(w_sort + w_fam + w_set + w_ops + w_tie))}

    def on_timeout(self, case):
        n = len(case["terms"])
        return {"eq": [[False] * n] * n, "hash": [0] * n, "lt": [["raise"] * n] * n, "ne": [[False] * n] * n, "sorted": None,
                "gt": [["raise"] * n] * n, "le": [["raise"] * n] * n, "ge": [["raise"] * n] * n,
                "flags": [False] * 5, "why": ["timeout"]}

    def coq_case(self, case):
        hashes = self.oracles(case)
        return ("{| c_terms := " + clist(cterm(j) for j in case["terms"]) + "; c_hash := "
                + clist(ctuple(cstr(s), cZ(h)) for s, h in hashes) + " |}")

    def coq_obs(self, obs):
        cm = {"lt": "Some CLt", "nlt": "Some CNlt", "raise": "Some CRaise"}
        return ("{| o_eq := " + clist(clist(cbool(x) for x in r) for r in obs["eq"])
                + "; o_hash := " + clist(f"Some {cZ(h)}" for h in obs["hash"])
                + "; o_lt := " + clist(clist(cm[x] for x in r) for r in obs["lt"])
                + "; o_ne := " + clist(clist(cbool(x) for x in r) for r in obs["ne"])
                + "; o_gt := " + clist(clist(cm[x] for x in r) for r in obs["gt"])
                + "; o_le := " + clist(clist(cm[x] for x in r) for r in obs["le"])
                + "; o_ge := " + clist(clist(cm[x] for x in r) for r in obs["ge"])
                + "; o_sorted := Some " + copt(obs.get("sorted"), lambda p: clist(cnat(i) for i in p))
                + "; o_flags := " + clist("Some " + cbool(x) for x in obs["flags"]) + " |}")

    def nontrivial(self, case, obs):
        return len(case["terms"]) >= 2

    def features(self, case, obs):
        f = {"terms": len(case["terms"]), "pairs": len(case["terms"]) ** 2, "triples": len(case["terms"]) ** 3}
        for j in case["terms"]:
            f["kind_" + j[0]] = f.get("kind_" + j[0], 0) + 1
            if j[0] == "L":
                d = "plain" if j[2] is None and j[3] is None else "lang" if j[3] is not None else j[2].split("#")[-1]
                f["lit_" + d] = f.get("lit_" + d, 0) + 1
        f["eq_pairs_offdiag"] = sum(1 for i, r in enumerate(obs["eq"]) for k, x in enumerate(r) if x and i != k)
        f["lt_raise"] = sum(r.count("raise") for r in obs["lt"])
        return f

    def shrink(self, case):
        ts = case["terms"]
        if len(ts) > 1:
            for i in range(len(ts)):
                yield self.make_case(ts[:i] + ts[i + 1:])

    def sweep(self):
        """all pairs of one pool: blocks of 5 terms, every pair of blocks"""
        rng = random.Random("C07-sweep")
        pool = [tj(t) for t in build_pool(rng)]
        blocks = [pool[i:i + 5] for i in range(0, len(pool), 5)]
        for a in range(len(blocks)):
            for b in range(a, len(blocks)):
                terms = blocks[a] + ([] if a == b else blocks[b])
                yield self.make_case(terms)


def _nan(t):
    v = getattr(t, "value", None)
    return (isinstance(v, float) and v != v) or (isinstance(v, Decimal) and v.is_nan())


class _K:
    """sort key that only uses the term's own <"""
    __slots__ = ("t",)

    def __init__(self, t):
        self.t = t

    def __lt__(self, other):
        return self.t < other.t


# ------------------------------------------------------------------ suite "text"
INFNAN = {str.__str__(x) for x in rdflib.term._NUMERIC_INF_NAN_LITERAL_TYPES}
RECOGNISED = {str.__str__(x) for x in XSDToPython if x is not None}


def oracle_for(j):
    """lexical forms the constructor builds for the strings the model will ask about (C09's subject)"""
    if j[0] != "L" or j[2] is None or j[2] not in RECOGNISED:
        return []
    lex = j[1]
    cands = [lex]
    for c in (lex.replace("inf", "INF").replace("Infinity", "INF"), lex.replace("nan", "NaN")):
        if c not in cands:
            cands.append(c)
    out = []
    for c in cands:
        try:
            out.append([c, j[2], str.__str__(Literal(c, datatype=URIRef(j[2])))])
        except Exception:  # noqa: BLE001
            pass
    return out


class Text(Suite):
    name = "text"
    imports = "From RV Require Import Term.Model."
    case_ty = "tcase"
    obs_ty = "tobs"
    model = "tmodel_obs"
    oeq = "tobs_eqb"
    spec = "tspec_ok"
    kf = "tkf"
    kf_ids = {1: "F7a"}
    corr = ("URIRef.n3, BNode.n3, Variable.n3, Literal.n3/_literal_n3/_quote_encode, util.from_n3, "
            "__reduce__ of the four classes + constructors")
    quick_n = 800
    thorough_n = 12000
    timeout_s = 20.0

    def __init__(self):
        self.pools = _Pools()

    def make_case(self, j):
        return {"term": j}   # the constructor oracle is derived when the Coq text is written (oracle_for)

    def usable(self, j):
        if j[0] == "L" and j[3] == "":
            return False
        if j[0] == "L" and j[2] is not None and any(c in j[2] for c in rdflib.term._invalid_uri_chars):
            return False
        return True

    def gen(self, rng, i):
        pool = self.pools.get(rng)
        while True:
            if rng.random() < 0.35:
                n = rng.choice([1, 2, 2, 3, 3, 4, 5, 6])
                s = "".join(rng.choice(ALPHA) for _ in range(n))
                r = rng.random()
                j = (["L", s, None, None] if r < 0.6 else ["L", s, None, rng.choice(["en", "EN", "en-GB", "es-419", "de-CH-1996"])] if r < 0.75
                     else ["L", s, XSDP + "string", None] if r < 0.85 else ["L", s, "http://e/dt", None] if r < 0.93
                     else ["B", s])
                j = tj(mk(j))
            else:
                j = rng.choice(pool)
            if self.usable(j):
                return self.make_case(j)

    def run_impl(self, case):
        j = case["term"]
        t = mk(j)
        obs = {"n3": None, "from": "raise", "pickle": "raise", "flags": [None, None, None], "why": []}
        why = obs["why"]

        def back(x):
            if type(x) in (URIRef, BNode, Variable, Literal):
                return tj(x)
            return "odd"

        # pickle / copy
        try:
            p = back(pickle.loads(pickle.dumps(t)))
        except Exception:  # noqa: BLE001
            p = "raise"
        obs["pickle"] = p
        same = True
        for f in ([lambda x, pr=pr: pickle.loads(pickle.dumps(x, protocol=pr)) for pr in range(0, pickle.HIGHEST_PROTOCOL + 1)]
                  + [copy.copy, copy.deepcopy, lambda x: copy.deepcopy([x])[0]]):
            try:
                q = back(f(t))
            except Exception:  # noqa: BLE001
                q = "raise"
            if q != p:
                same = False
                why.append("copy/deepcopy/pickle protocols disagree")
        obs["flags"][0] = same
        # n3 / from_n3
        try:
            n = t.n3()
        except Exception:  # noqa: BLE001
            return obs
        obs["n3"] = n
        try:
            obs["from"] = back(from_n3(n))
        except Exception:  # noqa: BLE001
            obs["from"] = "raise"
        # the literal the default constructor builds from (lexical form, language, datatype): what every reader of
        # text must return (the term itself unless it was built with normalize=False)
        nf = j
        if j[0] == "L":
            try:
                nf = tj(Literal(j[1], lang=j[3], datatype=None if j[2] is None else URIRef(j[2])))
            except Exception:  # noqa: BLE001
                nf = j
        # read back through a one-triple Turtle document (IRIs with a scheme, literals)
        if (j[0] == "I" and ":" in j[1]) or j[0] == "L":
            try:
                g = Graph()
                g.parse(data="<http://s> <http://p> %s ." % n, format="turtle")
                objs = list(g.objects())
                ok = len(objs) == 1 and back(objs[0]) == j
            except Exception as e:  # noqa: BLE001
                ok = False
                why.append("turtle: " + type(e).__name__)
            obs["flags"][1] = ok
        # read back through SPARQL (BIND and VALUES): the same term; see notes/C07.md for the two exclusions
        respelled = j[0] == "L" and not n.startswith(t._quote_encode())
        if (j[0] == "I" or (j[0] == "L" and "\\u" not in j[1] and "\\U" not in j[1] and not respelled)):
            ok = True
            for q in ("SELECT ?v WHERE { BIND(%s AS ?v) }", "SELECT ?v WHERE { VALUES ?v { %s } }"):
                try:
                    rows = list(Graph().query(q % n))
                    ok = ok and len(rows) == 1 and back(rows[0][0]) == j
                except Exception as e:  # noqa: BLE001
                    ok = False
                    why.append("sparql: " + type(e).__name__)
            obs["flags"][2] = ok
        return obs

    def on_timeout(self, case):
        return {"n3": None, "from": "raise", "pickle": "raise", "flags": [False, False, False], "why": ["timeout"]}

    def coq_case(self, case):
        return ("{| t_term := " + cterm(case["term"]) + "; t_orc := "
                + clist(ctuple(ctuple(cstr(a), cstr(b)), cstr(c)) for a, b, c in oracle_for(case["term"])) + " |}")

    def coq_obs(self, obs):
        return ("{| t_n3 := " + copt(obs["n3"], cstr) + "; t_from := " + cwres(obs["from"])
                + "; t_pickle := " + cwres(obs["pickle"])
                + "; t_flags := " + clist(copt(x, cbool) for x in obs["flags"]) + " |}")

    def nontrivial(self, case, obs):
        return True

    def features(self, case, obs):
        j = case["term"]
        f = {"kind_" + j[0]: 1}
        if j[0] == "L":
            d = "plain" if j[2] is None and j[3] is None else "lang" if j[3] is not None else j[2].split("#")[-1]
            f["lit_" + d] = 1
            for ch, nm in (("\\", "backslash"), ('"', "quote"), ("\n", "newline"), ("\r", "cr")):
                if ch in j[1]:
                    f["has_" + nm] = 1
            if len(j[1]) and j[1][-1] in '"\\':
                f["ends_in_quote_or_backslash"] = 1
        f["n3_raises"] = int(obs["n3"] is None)
        for k, nm in enumerate(("copy", "turtle", "sparql")):
            if obs["flags"][k] is not None:
                f["flag_" + nm] = 1
        return f

    def shrink(self, case):
        j = case["term"]
        s = j[1]
        for i in range(len(s)):
            k = list(j)
            k[1] = s[:i] + s[i + 1:]
            k = tj(mk(k))
            if self.usable(k):
                yield self.make_case(k)

    def sweep(self):
        """every usable term of one pool, and every string of length <= 3 over the escape alphabet"""
        rng = random.Random("C07-sweep")
        for t in build_pool(rng):
            j = tj(t)
            if self.usable(j):
                yield self.make_case(j)
        import itertools
        small = ["\\", '"', "\n", "\r", "x", "u", "a", "0"]
        for n in (1, 2, 3):
            for tup in itertools.product(small, repeat=n):
                yield self.make_case(["L", "".join(tup), None, None])


# ------------------------------------------------------------------ suite "pickler"
from rdflib.store import NodePickler, Store  # noqa: E402


class Pickler(Suite):
    """a SEQUENCE of terms through one rdflib.store.NodePickler (a fresh one, then Store().node_pickler): terms of different
    kinds with equal text follow each other, each loads(dumps(t)) is read structurally"""
    name = "pickler"
    imports = "From RV Require Import Term.Model."
    case_ty = "pcase"
    obs_ty = "pobs"
    model = "pmodel_obs"
    oeq = "pobs_eqb"
    spec = "pspec_ok"
    corr = "rdflib.store.NodePickler.dumps/loads, Store.node_pickler, __reduce__ of the four classes"
    quick_n = 250
    thorough_n = 4000
    timeout_s = 20.0

    def __init__(self):
        self.pools = _Pools()

    def usable(self, j):
        return SUITES[1].usable(j)

    def gen(self, rng, i):
        pool = self.pools.get(rng)
        terms = []
        while len(terms) < 2:
            s = rng.choice(pool)[1] if rng.random() < 0.7 else rng.choice(["a", "b1", "x", "http://example.org/", "1", "true"])
            fam = [["I", s], ["B", s], ["L", s, None, None], ["V", s]]
            if rng.random() < 0.5:
                fam.append(["L", s, None, rng.choice(["en", "EN"])])
            if rng.random() < 0.4:
                fam.append(["L", s, rng.choice([XSDP + "string", "http://e/dt"]), None])
            rng.shuffle(fam)
            for j in fam[: rng.choice([2, 3, 4])]:
                j = tj(mk(j))
                if self.usable(j) and j not in terms:
                    terms.append(j)
            if rng.random() < 0.3:
                j = rng.choice(pool)
                if self.usable(j) and j not in terms:
                    terms.append(j)
        if rng.random() < 0.3:
            terms.append(terms[0])      # the same term again later in the sequence
        return {"terms": terms[:7]}

    def run_impl(self, case):
        ts = [mk(j) for j in case["terms"]]
        out = []
        for np in (NodePickler(), Store().node_pickler):
            for t in ts:
                try:
                    x = np.loads(np.dumps(t))
                    out.append(tj(x) if type(x) in (URIRef, BNode, Variable, Literal) else "odd")
                except Exception:  # noqa: BLE001
                    out.append("raise")
        return out

    def on_timeout(self, case):
        return ["raise"] * (2 * len(case["terms"]))

    def coq_case(self, case):
        return clist(cterm(j) for j in case["terms"])

    def coq_obs(self, obs):
        return clist(cwres(w) for w in obs)

    def nontrivial(self, case, obs):
        return len({(j[0], j[1]) for j in case["terms"]}) > len({j[1] for j in case["terms"]})

    def features(self, case, obs):
        return {"terms": len(case["terms"]), "same_text_other_kind": int(self.nontrivial(case, obs))}

    def shrink(self, case):
        ts = case["terms"]
        if len(ts) > 1:
            for i in range(len(ts)):
                yield {"terms": ts[:i] + ts[i + 1:]}

    def sweep(self):
        rng = random.Random("C07-sweep")
        strings = sorted({tj(t)[1] for t in build_pool(rng)})[:120]
        for s in strings:
            fam = [["I", s], ["L", s, None, None], ["B", s], ["V", s]]
            fam = [j for j in (tj(mk(j)) for j in fam) if self.usable(j)]
            yield {"terms": fam}
            yield {"terms": fam[::-1]}


SUITES = [Laws(), Text(), Pickler()]

TRUSTED = [
    "Coq 8.16.1 kernel and vm_compute",
    "harness/c07.py: structural reading of terms (skey/tj), rebuilding of terms (mk), and the five conformance flags of the laws "
    "suite (sorted() under shuffling; per-datatype sorted() over permutations; set/dict collapse; operator consistency on "
    "non-literal pairs; a tie of two literals of one datatype is Literal.eq) and the three of the text suite (copy/deepcopy/pickle "
    "protocol agreement, Turtle and SPARQL read-back), which are computed in Python and only required to be true by the checker",
    "CPython 3.12: pickle, copy, str comparison by code point, the unicode-escape and raw-unicode-escape codecs (the model of the "
    "codecs is compared with CPython on every text case), and list.sort: assumed ONLY to be a correct stable comparison sort that "
    "calls nothing but __lt__ - by C07_stable_sort_unique its result is then unique, and the model's insertion sort is compared "
    "with sorted() on every laws case",
    "harness/reflect_term.py renders _ORDERING, _invalid_uri_chars, the numeric/INF-NaN datatype lists and the keys of XSDToPython faithfully",
]
ASSUMPTIONS = [
    "PYTHONHASHSEED=0; the hash of a str is supplied to the model as an oracle table derived when the Coq text is written; the "
    "theorems only use that it is a function; the checker compares the REAL hash() of every term of a case and demands "
    "a == b -> hash(a) == hash(b) on every pair",
    "the lexical form Literal(lex, datatype=dt) builds for a recognised datatype other than the [+-]?[0-9]+ forms of xsd:integer "
    "is supplied as an oracle (normalisation is the subject of C09); the model decides only where it is used; 'the same term' for "
    "text read back by from_n3 / Turtle is the literal that default constructor builds (the term itself unless built with normalize=False)",
    "rdflib.DAWG_LITERAL_COLLATION is False and rdflib.NORMALIZE_LITERALS is True (defaults; reflected into Gen/Tables_term.v)",
    "ordering (<, >, <=, >=) of two literals is modelled for plain/xsd:string/language-tagged, true/false/1/0 xsd:boolean, "
    "[+-]?[0-9]+ literals of xsd:integer and of its subtypes byte/short/int/long/(non)Negative-/(non)PositiveInteger inside the bounds of "
    "their well-formedness checkers (table reflected from the source), and [+-]?digits[.digits]([eE][+-]?digits)? xsd:decimal literals - all numbers "
    "compared exactly, together; "
    "for all other pairs of literals (doubles/floats, the four xsd:unsigned* types - their IRIs sort after xsd:string, which makes < cyclic across datatypes -, dates, times, durations, NaN/INF, ill-typed incl. out-of-range integers, custom datatypes) the order is "
    "checked by laws only: < and > never raise, inside one datatype < is irreflexive/asymmetric/transitive, sorted() is "
    "reproducible, ties are Literal.eq",
    "well-formed terms (wf_term, named in the theorem statements): strings of code points; a literal has a language tag the "
    "constructor accepts or a datatype IRI, not both; datatype IRIs are non-empty and free of the characters URIRef.n3 refuses "
    "(n3() cannot express the others); Genid/RDFLibGenid/Graph objects as terms are not in scope",
    "text suite: outside the trigger of the open finding F7a (the constructor does not leave the n3-visible lexical form alone) "
    "from_n3(t.n3()), the Turtle and the SPARQL read-back must be THE SAME TERM; inside it the model still predicts what from_n3 returns",
    "no namespace manager is passed to n3() (no prefix shortening)",
]
RULE = ("laws: 2-6 terms (sweep: 5-10) drawn from a per-run pool of about 270 structurally distinct terms (all four kinds; literals over "
        "every key of XSDToPython with valid, invalid and non-normalised lexical forms, NaN/INF, tags differing only in case incl. "
        "en/EN/En, fr/FR/Fr, clusters of xsd:time/dateTime/date/duration/yearMonthDuration/dayTimeDuration with naive and aware values, "
        "several offsets and one value spelled differently, strings over the escape alphabet); 30 % of the cases are 3-5 literals of "
        "one datatype, the others are biased towards terms sharing a string, a datatype or a tag; every pair and triple of a case is "
        "checked, and sorted() of the case. text: one term of the pool or a fresh string over the alphabet. pickler: 2-7 terms of "
        "different kinds over one text through one NodePickler. Distinct by full case content; laws cases are non-trivial with at "
        "least one pair, pickler cases when two kinds share a text.")
