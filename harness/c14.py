"""C14 - isomorphism, canonical form, graph_diff, skolemisation: correspondence between
coq/Iso/Model.v (verified isomorphism oracle + specification checker) and
rdflib/compare.py, Graph.skolemize/de_skolemize, BNode.skolemize, URIRef.de_skolemize."""
from __future__ import annotations

import atexit
import itertools
import json
import os
import subprocess
import sys
import warnings

from .core import REPO, VERIF, Suite, cN, cbool, clist, cstr, ctuple
from .terms import rdflib, tkey  # noqa: F401  (import_rdflib side effect: rdflib comes from RV_REPO)

warnings.filterwarnings("ignore", category=DeprecationWarning)
import logging  # noqa: E402

logging.getLogger("rdflib.term").setLevel(logging.ERROR)  # "does not look like a valid URI" for odd skolem IRIs
from rdflib import BNode, Dataset, Graph, Literal, URIRef  # noqa: E402
from rdflib.compare import graph_diff, isomorphic, to_canonical_graph, to_isomorphic  # noqa: E402

TRUSTED = [
    "Coq 8.16.1 kernel + vm_compute (coqchk on the thorough tier)",
    "harness/c14.py: construction of the rdflib graphs from the case, numbering of terms and of canonical labels",
    "hand-written Gallina definitions iso / iso_dec / spec_ok in coq/Iso/Model.v (iso_dec = iso is proved)",
    "coq/Iso/Canon.v as a transcription of rdflib/compare.py (_TripleCanonicalizer, Color) - tied by suite 'canon' "
    "(partition after _refine, final verdicts) with an executable hash instance on primitive 63-bit integers (coq/Iso/CanonRun.v)",
    "SHA-256 collisions do not occur on the generated cases (only matters for the reading of a disagreement)",
]
ASSUMPTIONS = [
    "MA3 (hypothesis of C14_model_isomorphic_sound): a sum of SHA-256 values determines the multiset of hashed strings; "
    "the rendering of a canonical triple is injective",
    "MA-set / MA-alias (coq/Iso/Canon.v): Python sets are modelled in first-insertion order (no theorem depends on it; the "
    "theorems C14_refine_invariant / C14_label_independent_partial are about relabelled copies that keep the order), Color identity "
    "by position / structural equality, the in-place nodes.extend of the collision merge functionally",
    "the colouring _refine returns depends on the order of the hash VALUES (C14_refine_hash_order_refuted: equal colour sums for "
    "structurally different nodes are merged as collisions under one hash function and not under another), so partitions are not "
    "compared between rdflib (SHA-256) and the model instance (FNV-style hash)",
    "completeness of rdflib's canonical labelling is proved only up to ORDER: label independence of the whole modelled algorithm "
    "(C14_label_independent_partial); independence of the order of triples / set iteration is NOT proved (and false of the code at "
    "79109fff, finding FC14c) - C14_complete_statement stays a Definition; the differential runs against iso_dec are the evidence",
    "blank nodes in predicate position (generalised RDF; former finding FC14a, fixed by 07e5253f) are generated in about 5% of the "
    "iso/canon cases as ordinary cases; their second skolem round trip keeps the default basepath (Graph.skolemize leaves predicates "
    "alone, so through the external branch a node that is predicate and subject/object comes back as two nodes - outside RDF)",
    "graphs have at most 8 blank nodes (iso_dec by vm_compute; rdflib per-case timeout 20 s)",
    "skolem round trip: blank-node ids contain none of '/', '?', '#', ';', are not '.'/'..', no control characters or spaces; "
    "no IRI (or subject literal) of the graph has a path starting with /.well-known/genid/ (hypotheses of C14_skolem_roundtrip, "
    "each replayed by the skolem suite)",
]
RULE = (
    "pairs of graphs from symmetric families (directed/undirected cycles, disjoint identical components, K_{n,n}, K_{n,n} minus a "
    "matching, cube/Wagner/prism 3-regular graphs, paths, stars, loops, random digraphs, typical RDF shapes with IRIs and literals) "
    "with independently permuted blank labels (disjoint or shared label pools) and insertion orders; half of the pairs are perturbed "
    "by a degree-preserving 2-switch, an edge move or a changed attribute, or pair two different structures of equal degree sequence; "
    "distinct by full case content; non-trivial = at least two blank nodes in each graph; suite canon: the same generator restricted "
    "to <= 6 (quick) / <= 8 (thorough) blank nodes, observing the partition reached by _refine (checked to be a partition whose classes "
    "are unions of automorphism orbits; not compared with the model's, it depends on the order of hash values) and the verdicts; "
    "deterministic sub-families of suite iso: the typed-neighbour shape once per predicate of urn:p0..p39, every ordered pair of "
    "different terms with the same spelling; suite skolem: once per process a 5000-node chain through the external skolem branch"
)

# non-blank terms; falsy literals are always in play
CONSTS = [
    URIRef("http://e/a"),      # 1
    URIRef("http://e/b"),      # 2
    URIRef("http://e/p"),      # 3
    URIRef("http://e/q"),      # 4
    Literal(""),               # 5
    Literal(0),                # 6
    Literal(False),            # 7
    Literal("x", lang="en"),   # 8
    Literal("x"),              # 9
    URIRef("http://e/c"),      # 10
    # terms that SPELL the same as another term of a different kind / tag / datatype (str(t) equal, n3() different)
    Literal("x", lang="fr"),                                            # 11  ~ 8, 9
    Literal("http://e/a"),                                              # 12  ~ 1
    Literal("0"),                                                       # 13  ~ 6 (Literal(0) = "0"^^xsd:integer)
    Literal("false"),                                                   # 14  ~ 7
    URIRef("x"),                                                        # 15  ~ 8, 9, 11
    Literal("http://e/p"),                                              # 16  ~ 3
] + [URIRef("urn:p%d" % i) for i in range(40)] + [URIRef("urn:U0"), URIRef("urn:U1"), URIRef("urn:type")]
# 17..56 = urn:p0..urn:p39 (a wider predicate vocabulary: which colour _refine pops first depends on the hash values),
# 57, 58 = two classes, 59 = the typing predicate
SPELL_TWINS = {1: [12], 12: [1], 3: [16], 6: [13], 13: [6], 7: [14], 14: [7], 8: [9, 11, 15], 9: [8, 11, 15], 11: [8, 9, 15],
               15: [8, 9, 11]}
TWIN_PAIRS = [(c, t) for c in sorted(SPELL_TWINS) for t in SPELL_TWINS[c]]
PWIDE = list(range(17, 57))
U0, U1, TYPE = 57, 58, 59
CONST_ID = {tkey(t): i + 1 for i, t in enumerate(CONSTS)}
P, Q = 3, 4
ERR_GRAPH = [[[0, 997], [0, 997], [0, 997]]]


def C(n):
    return [0, n]


def B(n):
    return [1, n]


def to_term(t):
    return CONSTS[t[1] - 1] if t[0] == 0 else BNode("n%d" % t[1])


SAME_ID = URIRef("urn:x-verif:same-name")
OTHER_ID = URIRef("urn:x-verif:other")


def build(ts, g=None):
    g = Graph() if g is None else g
    for s, p, o in ts:
        g.add((to_term(s), to_term(p), to_term(o)))
    return g


def c_term(t):
    return f"(Const {cN(t[1])})" if t[0] == 0 else f"(Blank {cN(t[1])})"


def c_graph(g):
    return clist(ctuple(*(c_term(x) for x in t)) for t in g)


# ------------------------------------------------------------------ structures
# an edge structure is a list of (s, p, o) where s/o are node indexes (int) or ("c", k) constants
def cyc(ns, p=P):
    return [(ns[i], p, ns[(i + 1) % len(ns)]) for i in range(len(ns))]


def und(es):
    return es + [(o, p, s) for s, p, o in es if (o, p, s) not in es]


def path(n, p=P):
    return [(i, p, i + 1) for i in range(n - 1)]


def knn(m, skip_matching=False):
    return [(i, P, m + j) for i in range(m) for j in range(m) if not (skip_matching and i == j)]


CUBE = [(0, P, 1), (1, P, 2), (2, P, 3), (3, P, 0), (4, P, 5), (5, P, 6), (6, P, 7), (7, P, 4),
        (0, P, 4), (1, P, 5), (2, P, 6), (3, P, 7)]
WAGNER = cyc(list(range(8))) + [(i, P, i + 4) for i in range(4)]
PRISM = cyc([0, 1, 2]) + cyc([3, 4, 5]) + [(0, P, 3), (1, P, 4), (2, P, 5)]
K33U = knn(3)


def structures(rng):
    """(name, edges, n) of one symmetric structure"""
    k = rng.choice(["cyc", "ucyc", "copies", "ucopies", "knn", "knnm", "path", "star", "cube", "wagner", "prism",
                    "loops", "twocol", "k4"])
    if k == "cyc":
        n = rng.choice([2, 3, 4, 5, 6, 7, 8])
        return k, cyc(list(range(n))), n
    if k == "ucyc":
        n = rng.choice([3, 4, 5, 6, 8])
        return k, und(cyc(list(range(n)))), n
    if k in ("copies", "ucopies"):
        m, c = rng.choice([(2, 2), (2, 3), (2, 4), (3, 2), (4, 2), (1, 4), (1, 6), (3, 1)])
        es = []
        for i in range(c):
            es += cyc(list(range(i * m, (i + 1) * m))) if m > 1 else [(i, P, i)]
        if rng.random() < 0.3 and m * c <= 6:
            es.append((m * c, Q, m * c + 1))
            return k, (und(es) if k == "ucopies" else es), m * c + 2
        return k, (und(es) if k == "ucopies" else es), m * c
    if k == "knn":
        m = rng.choice([2, 3, 3, 4])
        return k, knn(m), 2 * m
    if k == "knnm":
        m = rng.choice([3, 4])
        return k, knn(m, True), 2 * m
    if k == "path":
        n = rng.choice([2, 3, 4, 6, 8])
        return k, path(n), n
    if k == "star":
        n = rng.choice([3, 4, 5, 8])
        es = [(0, P, i) for i in range(1, n)]
        if rng.random() < 0.5:
            es = [(o, p, s) for s, p, o in es]
        return k, es, n
    if k == "cube":
        return k, (und(CUBE) if rng.random() < 0.6 else list(CUBE)), 8
    if k == "wagner":
        return k, (und(WAGNER) if rng.random() < 0.6 else list(WAGNER)), 8
    if k == "prism":
        return k, (und(PRISM) if rng.random() < 0.6 else list(PRISM)), 6
    if k == "k4":
        return k, [(i, P, j) for i in range(4) for j in range(4) if i != j], 4
    if k == "loops":
        n = rng.choice([2, 3, 5])
        return k, [(i, P, i) for i in range(n)] + cyc(list(range(n)), Q), n
    # two-coloured cycle: alternate predicates
    n = rng.choice([4, 6, 8])
    return k, [(i, P if i % 2 == 0 else Q, (i + 1) % n) for i in range(n)], n


def blank_only(rng):
    """random blank-only digraphs on 4-7 nodes and the shapes on which the unrepaired canonicaliser was label dependent
    (finding FC14b, fixed): cycles with self-loops, unequal unions of cycles, looped stars, cycles with in-leaves"""
    k = rng.choice(["functional", "random", "cycloops", "cycunion", "loopstars", "inleaves", "edited", "typed", "typed"])
    n = rng.choice([4, 5, 6, 7])
    if k == "typed":
        # nodes typed with two classes, a few edges between the classes over ONE predicate taken from a wide vocabulary:
        # structurally different nodes that colour refinement has to keep apart (w0 w1 w2 : U0; x y : U1; x p w1, x p w2, y p w0)
        a, b = rng.choice([(3, 2), (3, 2), (2, 2), (3, 3), (4, 2)])
        p = rng.choice(PWIDE)
        es = [(i, TYPE, ("c", U0)) for i in range(a)] + [(a + j, TYPE, ("c", U1)) for j in range(b)]
        if (a, b) == (3, 2) and rng.random() < 0.5:
            es += [(3, p, 1), (3, p, 2), (4, p, 0)]
        else:
            for j in range(b):
                for i in rng.sample(range(a), rng.choice([1, 2])):
                    es.append((a + j, p, i) if rng.random() < 0.8 else (i, p, a + j))
        return k, es, a + b
    if k == "functional":
        return k, [(i, P, rng.randrange(n)) for i in range(n)], n
    if k == "random":
        m = rng.choice([n, n + 1, n + 2, n + 3])
        return k, sorted({(rng.randrange(n), rng.choice([P, P, P, Q]), rng.randrange(n)) for _ in range(m)}), n
    if k == "cycloops":
        c = rng.choice([2, 3, 4, 4, 5, 6])
        loops = rng.choice([1, 2, 2, 3])
        while c + loops > 8:
            loops -= 1
        es = cyc(list(range(c))) + [(c + j, P, c + j) for j in range(loops)]
        if rng.random() < 0.3 and c + loops <= 6:
            es += cyc(list(range(c + loops, c + loops + 2)))
            return k, es, c + loops + 2
        return k, es, c + loops
    if k == "cycunion":
        parts, start = [], 0
        for m in rng.choice([[2, 2], [2, 3], [2, 4], [3, 4], [2, 2, 3], [3, 5], [2, 2, 4], [2, 3, 3], [2, 6], [1, 2, 2], [1, 1, 4],
                             [1, 3, 3], [4, 4], [2, 2, 2, 2]]):
            parts += cyc(list(range(start, start + m))) if m > 1 else [(start, P, start)]
            start += m
        return k, parts, start
    if k == "loopstars":
        c = rng.choice([2, 2, 3])
        leaves = rng.choice([1, 2, 2, 3])
        while c * (1 + leaves) > 8:
            leaves -= 1
        es, nn = [], 0
        for _ in range(c):
            ctr = nn
            es.append((ctr, P, ctr))
            for j in range(leaves):
                es.append((ctr, P, ctr + 1 + j) if rng.random() < 0.8 else (ctr + 1 + j, P, ctr))
            nn += 1 + leaves
        return k, es, nn
    if k == "inleaves":
        c = rng.choice([2, 2, 3])
        leaves = rng.choice([1, 2])
        es = cyc(list(range(c)))
        nn = c
        for i in range(c):
            for _ in range(leaves):
                es.append((nn, P, i))
                nn += 1
        return k, es, nn
    # a symmetric structure after a few arbitrary edits (self-loops allowed)
    _, es, n = structures(rng)
    es = list(es)
    for _ in range(rng.choice([1, 2, 3])):
        r = rng.random()
        t = (rng.randrange(n), P, rng.randrange(n))
        if r < 0.6 and t not in es:
            es.append(t)
        elif es:
            es.remove(rng.choice(es))
    return k, es, n


TWINS = [  # different structures with equal degree sequences
    (cyc(list(range(6))), cyc([0, 1, 2]) + cyc([3, 4, 5]), 6),
    (cyc(list(range(8))), cyc([0, 1, 2, 3]) + cyc([4, 5, 6, 7]), 8),
    (cyc(list(range(8))), cyc([0, 1, 2]) + cyc([3, 4, 5, 6, 7]), 8),
    (cyc([0, 1, 2, 3]) + cyc([4, 5, 6, 7]), cyc([0, 1, 2]) + cyc([3, 4, 5, 6, 7]), 8),
    (cyc(list(range(4))), cyc([0, 1]) + cyc([2, 3]), 4),
    (CUBE, WAGNER, 8),
    (PRISM, K33U, 6),
    (cyc(list(range(7))), cyc([0, 1, 2]) + cyc([3, 4, 5, 6]), 7),
]


def decorate(rng, es, n):
    """attach IRIs / literals: same attribute on every node (keeps the symmetry) or on a few nodes"""
    es = list(es)
    r = rng.random()
    if r < 0.25:
        c = rng.choice([1, 5, 6, 7, 8, 9])
        es += [(i, Q, ("c", c)) for i in range(n)]
    elif r < 0.45:
        for i in rng.sample(range(n), rng.choice([1, 2])):
            es.append((i, Q, ("c", rng.choice([1, 2, 5, 6, 7, 9]))))
    elif r < 0.55:
        es += [(("c", rng.choice([1, 2])), P, i) for i in rng.sample(range(n), rng.choice([1, n]))]
    if rng.random() < 0.15:
        es.append((("c", 1), P, ("c", rng.choice([2, 5, 6]))))  # a ground triple
    return es


def perturb(rng, es, n):
    """near miss: the result may or may not be isomorphic to the input; the oracle decides"""
    es = list(es)
    tw = [k for k, e in enumerate(es) if isinstance(e[2], tuple) and e[2][1] in SPELL_TWINS]
    if tw and rng.random() < 0.35:
        k = rng.choice(tw)  # the same spelling, another term ("x"@en / "x"@fr / "x" / <x>, 0 / "0", <a> / "http://e/a")
        es[k] = (es[k][0], es[k][1], ("c", rng.choice(SPELL_TWINS[es[k][2][1]])))
        return es
    bb = [e for e in es if isinstance(e[0], int) and isinstance(e[2], int)]
    r = rng.random()
    if r < 0.45 and len(bb) >= 2:
        for _ in range(8):  # degree preserving 2-switch
            e1, e2 = rng.sample(bb, 2)
            n1, n2 = (e1[0], e1[1], e2[2]), (e2[0], e2[1], e1[2])
            if e1[1] == e2[1] and n1 not in es and n2 not in es and n1 != n2:
                es.remove(e1)
                es.remove(e2)
                es += [n1, n2]
                return es
    if r < 0.7 and bb:
        e = rng.choice(bb)  # move one end of an edge
        for _ in range(8):
            ne = (e[0], e[1], rng.randrange(n)) if rng.random() < 0.5 else (rng.randrange(n), e[1], e[2])
            if ne not in es:
                es.remove(e)
                es.append(ne)
                return es
    if r < 0.85 and es:
        e = rng.choice(es)  # change predicate or a constant
        ne = (e[0], Q if e[1] == P else P, e[2])
        if ne not in es:
            es.remove(e)
            es.append(ne)
            return es
    ne = (rng.randrange(n), rng.choice([P, Q]), ("c", rng.choice([1, 5, 6, 9])))
    if ne not in es:
        es.append(ne)
    else:
        es.remove(ne)
    return es


def realise(rng, es, labels):
    """edges over node indexes -> triples over terms, in a random insertion order"""
    def t(x):
        return C(x[1]) if isinstance(x, tuple) else B(labels[x])
    out = []
    for s, p, o in es:
        tr = [t(s), C(p) if isinstance(p, int) else B(labels[p[1]]), t(o)]
        if tr not in out:
            out.append(tr)
    rng.shuffle(out)
    return out


def nblanks(g):
    return len({x[1] for t in g for x in t if x[0] == 1})


# ------------------------------------------------------------------ other PYTHONHASHSEEDs
# ./check pins PYTHONHASHSEED=0.  The order in which sets of blank nodes are walked was part of the repaired defect
# FC14b, so compare.isomorphic is also evaluated in worker processes started with other hash seeds
# (`python -m harness.c14 --worker`, one JSON case per line in, one JSON verdict per line out).
THOROUGH = "thorough" in sys.argv or os.environ.get("VERIF_TIER") == "thorough"
ALT_SEEDS = [3, 5] if THOROUGH else [3]
_workers: dict = {}


def _worker(seed):
    w = _workers.get(seed)
    if w is None or w.poll() is not None:
        env = dict(os.environ, PYTHONHASHSEED=str(seed), RV_REPO=REPO)
        w = subprocess.Popen([sys.executable, "-m", "harness.c14", "--worker"], cwd=VERIF, env=env, text=True,
                             stdin=subprocess.PIPE, stdout=subprocess.PIPE, stderr=subprocess.DEVNULL, bufsize=1)
        _workers[seed] = w
    return w


def _kill_workers():
    for w in _workers.values():
        try:
            w.kill()
        except Exception:  # noqa: BLE001
            pass
    _workers.clear()


atexit.register(_kill_workers)


def alt_verdict(seed, case):
    """isomorphic(g1, g2) computed under another hash seed; None = error in the worker"""
    try:
        w = _worker(seed)
        w.stdin.write(json.dumps({"g1": case["g1"], "g2": case["g2"]}) + "\n")
        w.stdin.flush()
        line = w.stdout.readline()
        return json.loads(line)["iso"] if line else None
    except (OSError, ValueError, KeyError):
        _kill_workers()
        return None


def worker_main():
    assert os.environ.get("PYTHONHASHSEED") not in (None, "0", "random")
    for line in sys.stdin:
        c = json.loads(line)
        try:
            r = bool(isomorphic(build(c["g1"]), build(c["g2"])))
        except Exception:  # noqa: BLE001
            r = None
        sys.stdout.write(json.dumps({"iso": r}) + "\n")
        sys.stdout.flush()


class C14(Suite):
    name = "iso"
    imports = "From RV Require Import Iso.Model."
    case_ty = "case"
    obs_ty = "obs"
    corr = "compare.isomorphic/to_isomorphic/to_canonical_graph/graph_diff, Graph.skolemize/de_skolemize"
    quick_n = 150
    thorough_n = 12000
    timeout_s = 20.0

    # case = {"g1": [[term, term, term] ...], "g2": [...], "fam": str, "ident": 0|1|2, "skv": {...}}
    # term = [0, const id] | [1, blank label number]
    # ident: how the two rdflib graph objects are made: 0 = Graph() each (fresh blank identifiers), 1 = two
    #   Graph(identifier=X) in two stores (g1 == g2 is True whatever the contents: Graph.__eq__ compares identifiers),
    #   2 = the graph named X of two different Datasets
    # skv: arguments of the second skolemize call (authority / basepath under /.well-known/genid/ / new_graph / bnode)
    def gen(self, rng, i):
        case = self._gen0(rng, i)
        case["ident"] = rng.choice([0, 0, 1, 1, 2])
        bl = sorted({x[1] for t in case["g1"] for x in (t[0], t[2]) if x[0] == 1})
        case["skv"] = {"authority": rng.choice([None, None, "http://ex.org", "http://ex.org/base/x", "urn:x:a"]),
                       "basepath": rng.choice([None, "/.well-known/genid/app1/", "/.well-known/genid/app1/",
                                               "/.well-known/genid/"]),
                       "new_graph": rng.random() < 0.3,
                       "bnode": rng.choice(bl) if bl and rng.random() < 0.25 else None}
        if case.get("fam") in ("leak", "bp"):
            # blank predicates (generalised RDF): Graph.skolemize leaves predicates alone, so through the external
            # branch a node that is predicate and subject/object comes back as two different nodes - out of scope
            case["skv"]["basepath"] = None
        return case

    def _gen0(self, rng, i):
        r = rng.random()
        if i % 4 == 1 and i // 4 < len(PWIDE):
            # the typed-neighbour shape once for every predicate of the wide vocabulary: which colours end with equal
            # hash sums (and are merged as a "hash collision") depends on the order of the hash values
            p = PWIDE[i // 4]
            es = [(0, TYPE, ("c", U0)), (1, TYPE, ("c", U0)), (2, TYPE, ("c", U0)), (3, TYPE, ("c", U1)), (4, TYPE, ("c", U1)),
                  (3, p, 1), (3, p, 2), (4, p, 0)]
            p1, p2 = list(range(5)), list(range(20, 25))
            rng.shuffle(p1)
            rng.shuffle(p2)
            return {"g1": realise(rng, es, p1), "g2": realise(rng, es, p2), "fam": "typed_sweep"}
        if i % 4 == 3 and i // 4 < len(TWIN_PAIRS):
            # the same small graph with one constant replaced by a DIFFERENT term of the same spelling ("x"@en / "x"@fr /
            # "x" / <x>, 0 / "0", false / "false", <http://e/a> / "http://e/a"): never isomorphic
            c, t = TWIN_PAIRS[i // 4]
            n = rng.choice([1, 2, 3])
            base = cyc(list(range(n))) if n > 1 else [(0, P, 0)]
            e1 = base + [(j, Q, ("c", c)) for j in range(n)]
            e2 = base + [(j, Q, ("c", t if j == 0 or rng.random() < 0.5 else c)) for j in range(n)]
            p1, p2 = list(range(n)), list(range(20, 20 + n))
            rng.shuffle(p1)
            rng.shuffle(p2)
            return {"g1": realise(rng, e1, p1), "g2": realise(rng, e2, p2), "fam": "spelling_twins"}
        if r < 0.012:
            return self.gen_leak(rng)
        if r < 0.05:
            return self.gen_bp(rng)
        if r < 0.13:
            return self.gen_random(rng)
        if r < 0.43:
            fam, es, n = blank_only(rng)
            e1 = decorate(rng, es, n) if rng.random() < 0.25 else list(es)
            e2 = perturb(rng, e1, n) if rng.random() < 0.3 else e1
            fam = "bo_" + fam + ("+perturbed" if e2 is not e1 else "")
            pool1 = list(range(n))
            rng.shuffle(pool1)
            pool2 = list(range(20, 20 + n)) if rng.random() < 0.5 else list(range(n))
            rng.shuffle(pool2)
            return {"g1": realise(rng, e1, pool1), "g2": realise(rng, e2, pool2), "fam": fam}
        if r < 0.55:
            e1, e2, n = rng.choice(TWINS)
            if rng.random() < 0.5:
                e1, e2 = e2, e1
            if rng.random() < 0.5:
                e1, e2 = und(list(e1)), und(list(e2))
            if rng.random() < 0.3:
                c = rng.choice([1, 5, 6, 9])
                e1 = list(e1) + [(j, Q, ("c", c)) for j in range(n)]
                e2 = list(e2) + [(j, Q, ("c", c)) for j in range(n)]
            if rng.random() < 0.25:
                e2 = e1  # the same structure after all
            fam, n2 = "twins", n
        else:
            fam, es, n = structures(rng)
            e1 = decorate(rng, es, n)
            n2 = n
            e2 = perturb(rng, e1, n) if rng.random() < 0.5 else e1
            if e2 is not e1:
                fam += "+perturbed"
        # labels: disjoint pools, the same pool permuted, or identical labelling
        lr = rng.random()
        pool1 = list(range(n))
        rng.shuffle(pool1)
        if lr < 0.45:
            pool2 = list(range(20, 20 + n2))
            rng.shuffle(pool2)
        elif lr < 0.9:
            pool2 = list(range(n2))
            rng.shuffle(pool2)
        else:
            pool2 = list(pool1)
        return {"g1": realise(rng, e1, pool1), "g2": realise(rng, e2, pool2), "fam": fam}

    def gen_random(self, rng):
        n = rng.choice([1, 2, 3, 4, 5])
        m = rng.choice([1, 2, 3, 4, 6, 8])
        es = []
        for _ in range(m):
            s = rng.randrange(n) if rng.random() < 0.8 else ("c", rng.choice([1, 2]))
            o = rng.randrange(n) if rng.random() < 0.6 else ("c", rng.choice([1, 2, 5, 6, 7, 8, 9]))
            es.append((s, rng.choice([P, Q]), o))
        e2 = perturb(rng, es, n) if rng.random() < 0.5 else es
        p1 = list(range(n))
        rng.shuffle(p1)
        p2 = list(range(n)) if rng.random() < 0.5 else list(range(10, 10 + n))
        rng.shuffle(p2)
        return {"g1": realise(rng, es, p1), "g2": realise(rng, e2, p2), "fam": "random"}

    def gen_bp(self, rng):
        """finding FC14a in general: several triples, some with a blank-node predicate (generalised RDF)"""
        n = rng.choice([2, 3, 3, 4, 5])
        es = []
        for _ in range(rng.choice([2, 3, 3, 4, 5])):
            s_ = rng.randrange(n) if rng.random() < 0.75 else ("c", rng.choice([1, 2]))
            o_ = rng.randrange(n) if rng.random() < 0.6 else ("c", rng.choice([1, 2, 5, 6]))
            p_ = ("b", rng.randrange(n)) if rng.random() < 0.4 else rng.choice([P, Q])
            es.append((s_, p_, o_))
        if not any(isinstance(e[1], tuple) for e in es):
            k = rng.randrange(len(es))
            es[k] = (es[k][0], ("b", rng.randrange(n)), es[k][2])
        e2 = list(es)
        if rng.random() < 0.3:  # a different graph
            k = rng.randrange(len(e2))
            e2[k] = (e2[k][0], e2[k][1], ("c", 9))
        p1 = list(range(n))
        rng.shuffle(p1)
        p2 = list(range(n)) if rng.random() < 0.5 else list(range(10, 10 + n))
        rng.shuffle(p2)
        if rng.random() < 0.2:
            p2 = list(p1)
        return {"g1": realise(rng, es, p1), "g2": realise(rng, e2, p2), "fam": "bp"}

    def gen_leak(self, rng):
        """finding FC14a: one triple with a blank predicate and >= 2 distinct blanks"""
        shape = rng.choice([(0, 1, 2), (0, 1, 0), (0, 1, 1), ("a", 1, 2), (0, 1, "a"), (0, 1, "l")])
        def mk(lbl):
            out = []
            for x in shape:
                out.append(C(1) if x == "a" else C(5) if x == "l" else B(lbl[x]))
            return [out]
        l1 = rng.sample(range(6), 3)
        l2 = rng.sample(range(6), 3)
        if rng.random() < 0.3:
            l2[1] = l1[1]
            if l2[0] == l2[1] or l2[2] == l2[1]:
                l2 = [l1[2], l1[1], l1[0]]
        return {"g1": mk(l1), "g2": mk(l2), "fam": "leak"}

    # ------------------------------------------------------------ implementation
    def run_impl(self, case):
        ident = case.get("ident", 0)
        if ident == 1:
            g1, g2 = build(case["g1"], Graph(identifier=SAME_ID)), build(case["g2"], Graph(identifier=SAME_ID))
        elif ident == 2:
            d1, d2 = Dataset(), Dataset()
            d2.graph(OTHER_ID).add((CONSTS[0], CONSTS[2], CONSTS[1]))  # the stores differ in more than the view
            g1, g2 = build(case["g1"], d1.graph(SAME_ID)), build(case["g2"], d2.graph(SAME_ID))
        else:
            g1, g2 = build(case["g1"]), build(case["g2"])
        in_labels = {}

        def back(t, labels):
            if isinstance(t, BNode):
                s = str.__str__(t)
                if labels is in_labels:
                    if s[:1] == "n" and s[1:].isdigit():
                        return B(int(s[1:]))
                    return B(900 + labels.setdefault(s, len(labels)))
                return B(labels[s])
            return C(CONST_ID.get(tkey(t), 998))

        def flag(f):
            try:
                return bool(f())
            except Exception:  # noqa: BLE001
                return None

        o_iso = flag(lambda: isomorphic(g1, g2))
        o_toiso = flag(lambda: to_isomorphic(g1) == to_isomorphic(g2))
        try:
            c1, c2 = set(to_canonical_graph(g1)), set(to_canonical_graph(g2))
            both, first, second = (set(x) for x in graph_diff(g1, g2))
            canon = sorted({str.__str__(x) for g in (c1, c2, both, first, second) for t in g for x in t
                            if isinstance(x, BNode)})
            cl = {s: 100 + i for i, s in enumerate(canon)}
            conv = lambda g: sorted([back(x, cl) for x in t] for t in g)  # noqa: E731
            o_caneq = c1 == c2
            graphs = [conv(c1), conv(c2), conv(both), conv(first), conv(second)]
        except Exception:  # noqa: BLE001
            o_caneq, graphs = None, [ERR_GRAPH] * 5
        try:
            sk = g1.skolemize().de_skolemize()
            o_sk = sorted([back(x, in_labels) for x in t] for t in sk)
        except Exception:  # noqa: BLE001
            o_sk = ERR_GRAPH
        try:
            v = case.get("skv") or {}
            kw = {k: v[k] for k in ("authority", "basepath") if v.get(k) is not None}
            if v.get("new_graph"):
                kw["new_graph"] = Graph()
            if v.get("bnode") is not None:
                kw["bnode"] = BNode("n%d" % v["bnode"])
            fresh = {}

            def back_in(t):
                if isinstance(t, BNode):
                    x = str.__str__(t)
                    if x[:1] == "n" and x[1:].isdigit():
                        return B(int(x[1:]))
                    return B(900 + fresh.setdefault(x, len(fresh)))  # a blank node minted by the external branch
                return C(CONST_ID.get(tkey(t), 998))

            skv = g1.skolemize(**kw).de_skolemize()
            o_skv = sorted([back_in(x) for x in t] for t in skv)
        except Exception:  # noqa: BLE001
            o_skv = ERR_GRAPH
        alts = [alt_verdict(k, case) for k in ALT_SEEDS]
        err = None in (o_iso, o_toiso, o_caneq) or None in alts
        return {"iso": bool(o_iso), "toiso": bool(o_toiso), "caneq": bool(o_caneq), "error": err,
                "alt1": bool(alts[0]), "alt2": bool(alts[-1]),
                "cg1": graphs[0] if not err else ERR_GRAPH, "cg2": graphs[1], "both": graphs[2], "first": graphs[3],
                "second": graphs[4], "sk": o_sk, "skv": o_skv}

    def on_timeout(self, case):
        _kill_workers()  # a worker may still be busy with this case
        return {"iso": False, "toiso": False, "caneq": False, "alt1": False, "alt2": False, "error": True, "timeout": True,
                "cg1": ERR_GRAPH,
                "cg2": ERR_GRAPH, "both": ERR_GRAPH, "first": ERR_GRAPH, "second": ERR_GRAPH, "sk": ERR_GRAPH,
                "skv": ERR_GRAPH}

    # ------------------------------------------------------------ Coq text
    def coq_case(self, case):
        return "{| c_g1 := " + c_graph(case["g1"]) + "; c_g2 := " + c_graph(case["g2"]) + " |}"

    def coq_obs(self, o):
        return ("{| o_iso := %s; o_toiso := %s; o_caneq := %s; o_alt1 := %s; o_alt2 := %s; o_cg1 := %s; o_cg2 := %s; "
                "o_both := %s; o_first := %s; "
                "o_second := %s; o_sk := %s; o_skv := %s |}" % (cbool(o["iso"]), cbool(o["toiso"]), cbool(o["caneq"]),
                                                  cbool(o["alt1"]), cbool(o["alt2"]), c_graph(o["cg1"]),
                                                  c_graph(o["cg2"]), c_graph(o["both"]), c_graph(o["first"]),
                                                  c_graph(o["second"]), c_graph(o["sk"]), c_graph(o["skv"])))

    def nontrivial(self, case, obs):
        return nblanks(case["g1"]) >= 2 and nblanks(case["g2"]) >= 2

    def features(self, case, obs):
        f = {"fam_" + case.get("fam", "?").split("+")[0]: 1,
             "perturbed": int("+perturbed" in case.get("fam", "")),
             "impl_says_iso": int(obs["iso"]), "impl_error_or_timeout": int(bool(obs.get("error"))),
             "blanks_%d" % nblanks(case["g1"]): 1, "triples_total": len(case["g1"]) + len(case["g2"]),
             "shared_labels": int(bool({x[1] for t in case["g1"] for x in t if x[0] == 1}
                                       & {x[1] for t in case["g2"] for x in t if x[0] == 1}))}
        return f

    def shrink(self, case):
        """at most ~30 candidates a round (each costs an rdflib run and a Coq evaluation): halves first, then single
        triples, then - for small graphs only - one triple from each graph"""
        g1, g2 = case["g1"], case["g2"]
        for k, g in (("g1", g1), ("g2", g2)):
            if len(g) >= 4:
                h = len(g) // 2
                yield dict(case, **{k: g[:h]})
                yield dict(case, **{k: g[h:]})
        if len(g1) >= 4 and len(g2) >= 4:
            yield dict(case, g1=g1[:len(g1) // 2], g2=g2[:len(g2) // 2])
        n = 0
        for k, g in (("g1", g1), ("g2", g2)):
            for i in range(len(g)):
                if n < 24:
                    n += 1
                    yield dict(case, **{k: g[:i] + g[i + 1:]})
        if len(g1) * len(g2) <= 9:
            for i in range(len(g1)):
                for j in range(len(g2)):
                    yield dict(case, g1=g1[:i] + g1[i + 1:], g2=g2[:j] + g2[j + 1:])

    def sweep(self):
        """all pairs of graphs with <= 2 triples over 2 blank labels, one predicate, one constant"""
        terms = [B(0), B(1), C(1)]
        triples = [[s, C(P), o] for s in terms for o in terms if not (s[0] == 0 and o[0] == 0)]
        graphs = [[t] for t in triples] + [[a, b] for a, b in itertools.combinations(triples, 2)]
        for a in graphs:
            for b in graphs:
                yield {"g1": a, "g2": b, "fam": "sweep"}


# ---------------------------------------------------------------------- skolem hypotheses
ID_ALPHABET = "ab1Z-_.:%~@!$&'()*+,=[]\\^`{|}\u00e9\u4e2d"
IRI_POOL = [
    "http://e/a", "urn:x:y", "http://e/x/.well-known/genid/rdflib/y", "http://e/.well-known/genidx/a",
    "http://e/.well-known/geni", "https://rdflib.github.io/.well-known/other/a", "http://e/a#frag", "http://e/a?q=1",
    "http://e/.well-known/genid", "mailto:a@b", "http://e/.well-known/Genid/rdflib/a",
]


_BIG = {}


def big_external_roundtrip(n=5000):
    """a chain of n blank nodes, every inner node both object and subject, skolemised under /.well-known/genid/ (the
    external branch of de_skolemize, one memoised BNode per IRI) and de-skolemised: still one chain of n nodes?
    Evaluated once per process (the memo is module-level state, so it also runs the memo past any size bound)."""
    if "ok" not in _BIG:
        g = Graph()
        p = CONSTS[2]
        for i in range(n - 1):
            g.add((BNode("k%d" % i), p, BNode("k%d" % (i + 1))))
        try:
            r = g.skolemize(basepath="/.well-known/genid/").de_skolemize()
            nxt, has_in = {}, set()
            ok = len(r) == n - 1
            for s_, _, o_ in r:
                ok = ok and isinstance(s_, BNode) and isinstance(o_, BNode) and s_ not in nxt and o_ not in has_in
                nxt[s_] = o_
                has_in.add(o_)
            starts = [x for x in nxt if x not in has_in]
            ok = ok and len(starts) == 1
            if ok:
                cur, seen = starts[0], 1
                while cur in nxt and seen <= n:
                    cur, seen = nxt[cur], seen + 1
                ok = seen == n
        except Exception:  # noqa: BLE001
            ok = False
        _BIG["ok"] = bool(ok)
    return _BIG["ok"]


class C14Skolem(Suite):
    """replays the hypotheses of C14_skolem_roundtrip on the real functions"""
    name = "skolem"
    imports = "From RV Require Import Iso.SkolemCheck."
    case_ty = "skcase"
    obs_ty = "skobs"
    model = "sk_model_obs"
    oeq = "sk_obs_eqb"
    spec = "sk_spec_ok"
    corr = "BNode.skolemize, URIRef.de_skolemize, RDFLibGenid._is_rdflib_skolem, Genid._is_external_skolem, Graph.skolemize/de_skolemize"
    quick_n = 60
    thorough_n = 6000
    timeout_s = 10.0

    def gen(self, rng, i):
        n = rng.choice([1, 2, 3, 4])
        ids = []
        while len(ids) < n:
            r = rng.random()
            if r < 0.15:
                x = "N" + "".join(rng.choice("0123456789abcdef") for _ in range(rng.choice([4, 32])))
            elif r < 0.25:
                x = rng.choice(["cb0", "n1", "genid", ".well-known", "...", ".a", "a.", "rdflib", "..a", ""])
            else:
                x = "".join(rng.choice(ID_ALPHABET) for _ in range(rng.choice([1, 1, 2, 3, 5])))
            if x in (".", "..") or x in ids:
                continue
            ids.append(x)
        iris = rng.sample(IRI_POOL, rng.choice([0, 1, 2, 3]))
        return {"ids": ids, "iris": iris}

    def run_impl(self, case):
        from urllib.parse import urlparse

        from rdflib.term import Genid, RDFLibGenid
        ids_obs = []
        for i in case["ids"]:
            u = BNode(i).skolemize()
            pr = urlparse(str.__str__(u))
            isrd = bool(RDFLibGenid._is_rdflib_skolem(u))
            back = str.__str__(RDFLibGenid(u).de_skolemize()) if isrd else "\x00"
            ids_obs.append([str.__str__(u), pr.path, pr.params == "" and pr.query == "" and pr.fragment == "", isrd, back])
        iris_obs = [[bool(RDFLibGenid._is_rdflib_skolem(URIRef(u))), bool(Genid._is_external_skolem(URIRef(u)))]
                    for u in case["iris"]]
        g = Graph()
        bs = [BNode(i) for i in case["ids"]]
        us = [URIRef(u) for u in case["iris"]]
        for k, b in enumerate(bs):
            g.add((b, CONSTS[2], bs[(k + 1) % len(bs)]))
            g.add((b, CONSTS[3], Literal("")))
            for u in us:
                g.add((b, CONSTS[3], u))
                g.add((u, CONSTS[2], b))
        for u in us:
            g.add((u, CONSTS[2], Literal(0)))
        try:
            back = g.skolemize().de_skolemize()
            key = lambda gr: sorted(tuple(tkey(x) for x in t) for t in gr)  # noqa: E731
            rnd = key(back) == key(g)
        except Exception:  # noqa: BLE001
            rnd = False
        return {"ids": ids_obs, "iris": iris_obs, "round": rnd, "big": big_external_roundtrip()}

    def on_timeout(self, case):
        return {"ids": [], "iris": [], "round": False, "big": False}

    def coq_case(self, case):
        return "{| k_ids := " + clist(cstr(i) for i in case["ids"]) + "; k_iris := " + clist(cstr(u) for u in case["iris"]) + " |}"

    def coq_obs(self, o):
        ids = clist("{| io_join := %s; io_path := %s; io_clean := %s; io_isrd := %s; io_back := %s |}"
                    % (cstr(a), cstr(b), cbool(c), cbool(d), cstr(e)) for a, b, c, d, e in o["ids"])
        iris = clist(ctuple(cbool(a), cbool(b)) for a, b in o["iris"])
        return "{| ko_ids := %s; ko_iris := %s; ko_round := %s; ko_big := %s |}" % (
            ids, iris, cbool(o["round"]), cbool(o["big"]))

    def nontrivial(self, case, obs):
        return len(case["ids"]) >= 1

    def features(self, case, obs):
        return {"ids_total": len(case["ids"]), "iris_total": len(case["iris"]),
                "non_ascii_id": int(any(ord(ch) > 127 for i in case["ids"] for ch in i)),
                "empty_id": int("" in case["ids"])}

    def shrink(self, case):
        for k in ("ids", "iris"):
            for i in range(len(case[k])):
                yield dict(case, **{k: case[k][:i] + case[k][i + 1:]})


# ---------------------------------------------------------------------- histories on live objects
class C14History(Suite):
    """objs[i] = to_isomorphic(g_i); in-place add/remove (mostly size-preserving re-wirings) interleaved with
    == / != comparisons, each judged by iso_dec on the contents at that moment"""
    name = "history"
    imports = "From RV Require Import Iso.Model Iso.History."
    case_ty = "hcase"
    obs_ty = "hobs"
    model = "h_model_obs"
    oeq = "hobs_eqb"
    spec = "h_spec_ok"
    corr = "compare.to_isomorphic, IsomorphicGraph.__eq__/__ne__/internal_hash, Graph.add/remove on an IsomorphicGraph"
    quick_n = 80
    thorough_n = 4000
    timeout_s = 30.0

    # case = {"graphs": [graph...], "ops": [["add", i, triple] | ["rem", i, triple] | ["cmp", i, j]], "fam": str}
    def gen(self, rng, i):
        r = rng.random()
        if r < 0.2:
            e1, e2, n = rng.choice(TWINS)
            e1, e2 = list(e1), list(e2)
            if rng.random() < 0.5:
                e1, e2 = e2, e1
            fam = "twins"
        elif r < 0.45:
            n = rng.choice([4, 5, 6, 6, 7, 8, 8])
            e1 = cyc(list(range(n)))
            k = rng.randrange(1, n)  # cut into a (k)-cycle and an (n-k)-cycle; a 1-cycle is a self-loop
            e2 = (cyc(list(range(k))) if k > 1 else [(0, P, 0)]) + (cyc(list(range(k, n))) if n - k > 1 else [(n - 1, P, n - 1)])
            fam = "cycle"
        elif r < 0.7:
            fam, e1, n = blank_only(rng)
            e1 = list(e1)
            e2 = perturb(rng, e1, n) if rng.random() < 0.6 else e1
            fam = "bo_" + fam
        else:
            fam, e1, n = structures(rng)
            e1 = decorate(rng, e1, n)
            e2 = perturb(rng, e1, n)
        pools = []
        for k in range(3):
            pool = list(range(10 * k, 10 * k + n)) if rng.random() < 0.6 else list(range(n))
            rng.shuffle(pool)
            pools.append(pool)
        graphs = [realise(rng, e1, pools[0]), realise(rng, e1, pools[1]), realise(rng, e2, pools[2])]
        cur = [[list(map(list, t)) for t in g] for g in graphs]
        ops = []

        def cmps():
            for j in rng.sample([1, 2], rng.choice([1, 2, 2])):
                ops.append(["cmp", 0, j] if rng.random() < 0.8 else ["cmp", j, 0])

        def rewire(k):
            g = cur[k]
            bb = [t for t in g if t[0][0] == 1 and t[2][0] == 1]
            for _ in range(12):
                if len(bb) < 2:
                    break
                t1, t2 = rng.sample(bb, 2)
                if fam == "cycle" and k == 0 and rng.random() < 0.5:
                    # the targeted cut of a cycle into two cycles
                    nxt = {t[0][1]: t for t in bb}
                    t2 = nxt.get(t1[2][1], t2)
                    t2 = nxt.get(t2[2][1], t2)
                n1, n2 = [t1[0], t1[1], t2[2]], [t2[0], t2[1], t1[2]]
                if t1 != t2 and t1[1] == t2[1] and n1 not in g and n2 not in g and n1 != n2:
                    for t in (t1, t2):
                        g.remove(t)
                        ops.append(["rem", k, t])
                    for t in (n1, n2):
                        g.append(t)
                        ops.append(["add", k, t])
                    return True
            return False

        cmps()
        undo_from = len(ops)
        for _ in range(rng.choice([1, 1, 2, 3])):
            k = 0 if rng.random() < 0.75 else rng.choice([1, 2])
            r2 = rng.random()
            if r2 < 0.7:
                rewire(k)
            elif r2 < 0.85 and cur[k]:
                t = rng.choice(cur[k])
                cur[k].remove(t)
                ops.append(["rem", k, t])
            else:  # an edge between blank nodes (self-loops included) or an attribute
                t = [B(rng.choice(pools[k])), C(rng.choice([P, P, Q])), rng.choice([B(rng.choice(pools[k])), B(rng.choice(pools[k])), C(1), C(5)])]
                if t not in cur[k]:
                    cur[k].append(t)
                ops.append(["add", k, t])  # possibly a re-add of a present triple
            cmps()
        if rng.random() < 0.4:
            # undo every edit in reverse order: back to the initial contents, compare again
            for o in reversed(ops[undo_from:]):
                if o[0] == "add":
                    ops.append(["rem", o[1], o[2]])
                elif o[0] == "rem":
                    ops.append(["add", o[1], o[2]])
            cmps()
        return {"graphs": graphs, "ops": ops, "fam": fam}

    def run_impl(self, case):
        objs = [to_isomorphic(build(g)) for g in case["graphs"]]
        out = []
        for o in case["ops"]:
            try:
                if o[0] == "add":
                    objs[o[1]].add(tuple(to_term(x) for x in o[2]))
                elif o[0] == "rem":
                    objs[o[1]].remove(tuple(to_term(x) for x in o[2]))
                else:
                    out.append([bool(objs[o[1]] == objs[o[2]]), bool(objs[o[1]] != objs[o[2]])])
            except Exception:  # noqa: BLE001
                if o[0] == "cmp":
                    out.append([False, False])
        return out

    def on_timeout(self, case):
        return [[False, False]]

    def coq_case(self, case):
        ops = []
        for o in case["ops"]:
            if o[0] == "add":
                ops.append(f"HAdd {cN(o[1])} {ctuple(*(c_term(x) for x in o[2]))}")
            elif o[0] == "rem":
                ops.append(f"HRem {cN(o[1])} {ctuple(*(c_term(x) for x in o[2]))}")
            else:
                ops.append(f"HCmp {cN(o[1])} {cN(o[2])}")
        return "{| h_graphs := " + clist(c_graph(g) for g in case["graphs"]) + "; h_ops := " + clist(ops) + " |}"

    def coq_obs(self, o):
        return clist(ctuple(cbool(a), cbool(b)) for a, b in o)

    def nontrivial(self, case, obs):
        kinds = [o[0] for o in case["ops"]]
        return "cmp" in kinds and ("add" in kinds or "rem" in kinds)

    def features(self, case, obs):
        ops = case["ops"]
        sizepres = 0
        for k in range(len(ops) - 3):
            if [o[0] for o in ops[k:k + 4]] == ["rem", "rem", "add", "add"]:
                sizepres += 1
        flips = sum(1 for a, b in zip(obs, obs[1:]) if a != b)
        return {"fam_" + case.get("fam", "?").split("+")[0]: 1, "comparisons": sum(1 for o in ops if o[0] == "cmp"),
                "edits": sum(1 for o in ops if o[0] != "cmp"), "size_preserving_rewirings": sizepres,
                "verdict_changes": flips, "impl_eq_true": sum(1 for a, _ in obs if a)}

    def shrink(self, case):
        ops = case["ops"]
        for i in range(len(ops)):
            yield dict(case, ops=ops[:i] + ops[i + 1:])
        for k, g in enumerate(case["graphs"]):
            for i in range(len(g)):
                gs = list(case["graphs"])
                gs[k] = g[:i] + g[i + 1:]
                yield dict(case, graphs=gs)


# ---------------------------------------------------------------------- the canonicaliser model
class C14Canon(Suite):
    """coq/Iso/Canon.v (model of _TripleCanonicalizer over an abstract hash) against the real class: the partition
    _refine reaches from _initial_color (order-free), and the model's own final verdicts"""
    name = "canon"
    imports = "From RV Require Import Iso.Model Iso.CanonRun."
    case_ty = "case"
    obs_ty = "cobs"
    model = "canon_model"
    oeq = "canon_obs_eqb"
    spec = "canon_spec_ok"
    corr = ("compare._TripleCanonicalizer._initial_color/_refine/_traces/_experimental_path/_create_generator/"
            "_is_automorphism/canonical_triples/to_hash, Color.distinguish/hash_color/key, isomorphic, IsomorphicGraph.__eq__")
    quick_n = 40
    thorough_n = 1500
    timeout_s = 20.0

    def gen(self, rng, i):
        iso_suite = SUITES[0]
        limit = 8 if THOROUGH else 6
        for _ in range(40):
            c = iso_suite._gen0(rng, i)
            if max(nblanks(c["g1"]), nblanks(c["g2"])) <= limit and len(c["g1"]) + len(c["g2"]) <= (60 if THOROUGH else 30):
                break
        return {"g1": c["g1"], "g2": c["g2"], "fam": c["fam"]}

    def run_impl(self, case):
        from rdflib.compare import _TripleCanonicalizer

        def tid(t):
            if isinstance(t, BNode):
                s = str.__str__(t)
                return B(int(s[1:])) if s[:1] == "n" and s[1:].isdigit() else B(999)
            return C(CONST_ID.get(tkey(t), 998))

        def part(g):
            c = _TripleCanonicalizer(g)
            col = c._initial_color()
            col = c._refine(col, col[:])
            return sorted(sorted(tid(n) for n in x.nodes) for x in col)

        g1, g2 = build(case["g1"]), build(case["g2"])
        try:
            return {"p1": part(g1), "p2": part(g2), "iso": bool(isomorphic(g1, g2)),
                    "isoeq": bool(to_isomorphic(g1) == to_isomorphic(g2)), "fail": False}
        except Exception:  # noqa: BLE001
            return {"p1": [], "p2": [], "iso": False, "isoeq": False, "fail": True}

    def on_timeout(self, case):
        return {"p1": [], "p2": [], "iso": False, "isoeq": False, "fail": True}

    def coq_case(self, case):
        return "{| c_g1 := " + c_graph(case["g1"]) + "; c_g2 := " + c_graph(case["g2"]) + " |}"

    def coq_obs(self, o):
        part = lambda p: clist(clist(c_term(t) for t in cl) for cl in p)  # noqa: E731
        return "{| q_part1 := %s; q_part2 := %s; q_iso := %s; q_isoeq := %s; q_fail := %s |}" % (
            part(o["p1"]), part(o["p2"]), cbool(o["iso"]), cbool(o["isoeq"]), cbool(o["fail"]))

    def nontrivial(self, case, obs):
        return nblanks(case["g1"]) >= 2

    def features(self, case, obs):
        nd = lambda p: int(any(len(c) > 1 for c in p))  # noqa: E731
        return {"fam_" + case.get("fam", "?").split("+")[0]: 1, "refine_not_discrete_g1": nd(obs["p1"]),
                "impl_says_iso": int(obs["iso"]), "classes_g1": len(obs["p1"])}

    def shrink(self, case):
        return itertools.islice(SUITES[0].shrink(case), 30)


SUITES = [C14(), C14Skolem(), C14History(), C14Canon()]

if __name__ == "__main__" and "--worker" in sys.argv:
    worker_main()
