"""T1 for C07: tables of rdflib/term.py the term model depends on, rendered as Coq definitions
(coq/Gen/Tables_term.v).  Class codes: 0 BNode, 1 Variable, 2 URIRef, 3 Literal."""
from __future__ import annotations


def _s(x):
    return "[" + "; ".join(f"{ord(c)}%N" for c in str.__str__(x)) + "]"


def render(rdflib) -> str:
    T = rdflib.term
    classes = [T.BNode, T.Variable, T.URIRef, T.Literal]
    rows = []
    for k, v in T._ORDERING.items():
        if k in classes:
            rows.append(f"({classes.index(k)}%N, {int(v)}%N)")
        else:  # a class the model does not know: keep it visible
            rows.append(f"({100 + len(rows)}%N, {int(v)}%N)")
    default = T._ORDERING.default_factory() if T._ORDERING.default_factory else 0
    out = []
    out.append("(* rdflib.term._ORDERING (a defaultdict) *)")
    out.append("Definition ordering_table : list (N * N) := [" + "; ".join(rows) + "].")
    out.append(f"Definition ordering_default : N := {int(default)}%N.")
    out.append("(* rdflib.term._invalid_uri_chars *)")
    out.append(f"Definition invalid_uri_chars : list N := {_s(T._invalid_uri_chars)}.")
    out.append(f"Definition xsd_string : list N := {_s(T._XSD_STRING)}.")
    out.append(f"Definition xsd_integer : list N := {_s(T._XSD_INTEGER)}.")
    out.append(f"Definition xsd_decimal : list N := {_s(T._XSD_DECIMAL)}.")
    out.append(f"Definition xsd_boolean : list N := {_s(T._XSD_BOOLEAN)}.")
    out.append(f"Definition xsd_duration : list N := {_s(T._XSD_DURATION)}.")
    out.append(f"Definition xsd_yearmonthduration : list N := {_s(T._XSD_YEARMONTHDURATION)}.")
    out.append("(* rdflib.term._NUMERIC_LITERAL_TYPES *)")
    out.append("Definition numeric_types : list (list N) := [" + ";\n  ".join(_s(x) for x in T._NUMERIC_LITERAL_TYPES) + "].")
    out.append("(* rdflib.term._NUMERIC_INF_NAN_LITERAL_TYPES *)")
    out.append("Definition infnan_types : list (list N) := [" + ";\n  ".join(_s(x) for x in T._NUMERIC_INF_NAN_LITERAL_TYPES) + "].")
    out.append("(* keys of rdflib.term.XSDToPython other than None: the recognised datatype IRIs *)")
    out.append("Definition recognised_types : list (list N) := [" + ";\n  ".join(_s(x) for x in T.XSDToPython if x is not None) + "].")
    # the numeric datatypes whose value is a Python int, with the range outside which the literal is ill-typed
    # (found by probing the well-formedness checker of the datatype)
    rows = []
    cands = sorted({0, 1, -1} | {s * (2 ** k) + d for k in (7, 8, 15, 16, 31, 32, 63, 64) for s in (1, -1) for d in (-1, 0, 1)})
    for dt in T._NUMERIC_LITERAL_TYPES:
        if T.XSDToPython.get(dt) is not int:
            continue
        chk = T._check_well_formed_types.get(dt, T._well_formed_by_value)

        def ok(v, chk=chk):
            return bool(chk(str(v), v))
        good = [c for c in cands if ok(c)]
        lo = None if ok(-10 ** 40) else min(good)
        hi = None if ok(10 ** 40) else max(good)
        # the accepted set must be exactly the interval (otherwise the table does not describe the checker)
        assert all(ok(c) == ((lo is None or c >= lo) and (hi is None or c <= hi)) for c in cands), dt
        fmt = lambda v: "None" if v is None else f"(Some ({v})%Z)"
        rows.append(f"({_s(dt)}, ({fmt(lo)}, {fmt(hi)}))")
    out.append("(* members of _NUMERIC_LITERAL_TYPES whose XSDToPython converter is int, with the bounds of their well-formedness checker *)")
    out.append("Definition int_value_types : list (list N * (option Z * option Z)) := [" + ";\n  ".join(rows) + "].")
    out.append(f"Definition dawg_collation : bool := {'true' if rdflib.DAWG_LITERAL_COLLATION else 'false'}.")
    out.append(f"Definition normalize_literals : bool := {'true' if rdflib.NORMALIZE_LITERALS else 'false'}.")
    return "\n".join(out) + "\n"
