"""T1 for C07: tables of rdflib/term.py the term model depends on, rendered as Coq definitions
(coq/Gen/Tables_term.v).  Class codes: 0 BNode, 1 Variable, 2 URIRef, 3 Literal."""
from __future__ import annotations


def _s(x):
    return "[" + "; ".join(f"{ord(c)}%N" for c in str.__str__(x)) + "]"


def render(rdflib) -> str:
    T = rdflib.term
    classes = [T.BNode, T.Variable, T.URIRef, T.Literal]
    rows = []
    for k, v in T._ORDERING.items():
        if k in classes:
            rows.append(f"({classes.index(k)}%N, {int(v)}%N)")
        else:  # a class the model does not know: keep it visible
            rows.append(f"({100 + len(rows)}%N, {int(v)}%N)")
    default = T._ORDERING.default_factory() if T._ORDERING.default_factory else 0
    out = []
    out.append("(* rdflib.term._ORDERING (a defaultdict) *)")
    out.append("Definition ordering_table : list (N * N) := [" + "; ".join(rows) + "].")
    out.append(f"Definition ordering_default : N := {int(default)}%N.")
    out.append("(* rdflib.term._invalid_uri_chars *)")
    out.append(f"Definition invalid_uri_chars : list N := {_s(T._invalid_uri_chars)}.")
    out.append(f"Definition xsd_string : list N := {_s(T._XSD_STRING)}.")
    out.append(f"Definition xsd_integer : list N := {_s(T._XSD_INTEGER)}.")
    out.append(f"Definition xsd_decimal : list N := {_s(T._XSD_DECIMAL)}.")
    out.append(f"Definition xsd_boolean : list N := {_s(T._XSD_BOOLEAN)}.")
    out.append(f"Definition xsd_duration : list N := {_s(T._XSD_DURATION)}.")
    out.append(f"Definition xsd_yearmonthduration : list N := {_s(T._XSD_YEARMONTHDURATION)}.")
    out.append("(* rdflib.term._NUMERIC_LITERAL_TYPES *)")
    out.append("Definition numeric_types : list (list N) := [" + ";\n  ".join(_s(x) for x in T._NUMERIC_LITERAL_TYPES) + "].")
    out.append("(* rdflib.term._NUMERIC_INF_NAN_LITERAL_TYPES *)")
    out.append("Definition infnan_types : list (list N) := [" + ";\n  ".join(_s(x) for x in T._NUMERIC_INF_NAN_LITERAL_TYPES) + "].")
    out.append("(* keys of rdflib.term.XSDToPython other than None: the recognised datatype IRIs *)")
    out.append("Definition recognised_types : list (list N) := [" + ";\n  ".join(_s(x) for x in T.XSDToPython if x is not None) + "].")
    out.append(f"Definition dawg_collation : bool := {'true' if rdflib.DAWG_LITERAL_COLLATION else 'false'}.")
    out.append(f"Definition normalize_literals : bool := {'true' if rdflib.NORMALIZE_LITERALS else 'false'}.")
    return "\n".join(out) + "\n"
