"""T1 for C08: the numeric type promotion tables of rdflib/plugins/sparql/datatypes.py rendered as Coq
definitions (coq/Gen/Tables_promo.v).  Datatype codes: 0 xsd:integer, 1 xsd:decimal, 2 xsd:float,
3 xsd:double, 10.. the integer subtypes in a fixed order, 100.. anything else (kept visible)."""
from __future__ import annotations

SUB = ["nonPositiveInteger", "negativeInteger", "long", "int", "short", "byte", "nonNegativeInteger",
       "positiveInteger", "unsignedLong", "unsignedInt", "unsignedShort", "unsignedByte"]
XSDNS = "http://www.w3.org/2001/XMLSchema#"


def code_of(uri, extra):
    s = str.__str__(uri)
    base = {XSDNS + "integer": 0, XSDNS + "decimal": 1, XSDNS + "float": 2, XSDNS + "double": 3}
    if s in base:
        return base[s]
    for i, n in enumerate(SUB):
        if s == XSDNS + n:
            return 10 + i
    if s not in extra:
        extra[s] = 100 + len(extra)
    return extra[s]


def render(rdflib) -> str:
    from rdflib.plugins.sparql import datatypes as D

    extra = {}
    rows = []
    for t1, row in D._typePromotionMap.items():
        inner = "; ".join(f"({code_of(t2, extra)}%N, {code_of(r, extra)}%N)" for t2, r in row.items())
        rows.append(f"({code_of(t1, extra)}%N, [{inner}])")
    sup = "; ".join(f"({code_of(a, extra)}%N, {code_of(b, extra)}%N)" for a, b in D._super_types.items())
    out = ["(* rdflib.plugins.sparql.datatypes._typePromotionMap: t1 -> (t2 -> promoted type) *)",
           "Definition promo_table : list (N * list (N * N)) := [" + ";\n  ".join(rows) + "].",
           "(* rdflib.plugins.sparql.datatypes._super_types: subtype -> supertype *)",
           "Definition super_types : list (N * N) := [" + sup + "].",
           "(* codes of the twelve derived integer types *)",
           "Definition integer_subtypes : list N := [" + "; ".join(f"{10 + i}%N" for i in range(len(SUB))) + "]."]
    return "\n".join(out) + "\n"
