"""Shared machinery of the correspondence checks.

A *suite* ties one Coq model entry point to the implementation: it generates
cases, runs rdflib (imported from RV_REPO, default /repo) on them, and writes
Coq files in which the model, the verified specification checker and the
known-finding trigger predicates are evaluated by vm_compute on the very same
cases (coq/Base/Check.v).  Nothing here is a proof; it is the tie between the
hand-written model and the current source, and the search for a failing input.
"""
from __future__ import annotations

import json
import os
import random
import re
import signal
import subprocess
import sys
import time
from concurrent.futures import ThreadPoolExecutor

VERIF = os.path.dirname(os.path.dirname(os.path.abspath(__file__)))
REPO = os.environ.get("RV_REPO", "/repo")
COQDIR = os.path.join(VERIF, "coq")
BUILD = os.path.join(VERIF, "build")
SHARD = 400  # cases per generated Coq file


def import_rdflib():
    """Import rdflib from the tree under test, never from site-packages."""
    if REPO not in sys.path:
        sys.path.insert(0, REPO)
    import rdflib  # noqa

    here = os.path.realpath(os.path.dirname(rdflib.__file__))
    want = os.path.realpath(os.path.join(REPO, "rdflib"))
    if here != want:
        raise RuntimeError(f"rdflib imported from {here}, expected {want}")
    return rdflib


# ---------------------------------------------------------------- Coq literals
def cN(i: int) -> str:
    return f"{int(i)}%N"


def cZ(i: int) -> str:
    return f"({int(i)})%Z"


def cnat(i: int) -> str:
    return f"{int(i)}%nat"


def cbool(b) -> str:
    return "true" if b else "false"


def clist(items) -> str:
    items = list(items)
    if not items:
        return "[]"
    return "[" + "; ".join(items) + "]"


def copt(x, f=lambda v: v) -> str:
    return "None" if x is None else f"(Some {f(x)})"


def ctuple(*items) -> str:
    return "(" + ", ".join(items) + ")"


def cstr(s: str) -> str:
    """Python str -> list N of code points."""
    return clist(cN(ord(ch)) for ch in s)


# ---------------------------------------------------------------- time limits
class CaseTimeout(Exception):
    pass


def _alarm(signum, frame):
    raise CaseTimeout()


def with_timeout(seconds, fn, *a):
    old = signal.signal(signal.SIGALRM, _alarm)
    signal.setitimer(signal.ITIMER_REAL, seconds)
    try:
        return fn(*a)
    finally:
        signal.setitimer(signal.ITIMER_REAL, 0)
        signal.signal(signal.SIGALRM, old)


# ---------------------------------------------------------------- suites
class Suite:
    """One model entry point.  Subclasses fill in the class attributes and methods."""

    name = "suite"
    imports = ""  # Coq Require lines
    case_ty = "case"
    obs_ty = "obs"
    model = "model_obs"
    oeq = "obs_eqb"
    spec = "spec_ok"
    kf = "no_kf"  # Coq term of type case -> N: 0 = no trigger, n = trigger number n
    kf_ids: dict = {}  # trigger number -> id of the finding in known_findings.json
    corr = ""  # python function(s) this suite corresponds to (named in replay files)
    timeout_s = 10.0
    quick_n = 500
    thorough_n = 20000

    def gen(self, rng: random.Random, i: int):  # -> case (JSON-able)
        raise NotImplementedError

    def run_impl(self, case):  # -> obs (JSON-able)
        raise NotImplementedError

    def coq_case(self, case) -> str:
        raise NotImplementedError

    def coq_obs(self, obs) -> str:
        raise NotImplementedError

    def nontrivial(self, case, obs) -> bool:
        return True

    def shrink(self, case):
        """yield smaller variants of a case"""
        return []

    def features(self, case, obs) -> dict:
        """counters for the input distribution written into the evidence"""
        return {}

    def sweep(self):
        """optional exhaustive small-scope enumeration (thorough tier / failing-input search)"""
        return []


def _write_shard(suite: Suite, path: str, pairs):
    with open(path, "w") as f:
        f.write("From Coq Require Import List NArith ZArith Bool.\nImport ListNotations.\n")
        f.write("From RV Require Import Base.Check.\n")
        f.write(suite.imports + "\n")
        f.write("Set Printing Width 1000000.\n")
        f.write(f"Definition cases : list (({suite.case_ty}) * ({suite.obs_ty})) := [\n")
        f.write(";\n".join(f"({suite.coq_case(c)}, {suite.coq_obs(o)})" for c, o in pairs))
        f.write("\n].\n")
        f.write(
            f"Eval vm_compute in (check_all ({suite.model}) ({suite.oeq}) ({suite.spec}) ({suite.kf}) cases).\n"
        )


_RES = re.compile(r"\(\s*(\d+)(?:%N)?\s*,\s*(\d+)(?:%N)?\s*\)")
_CNT = re.compile(r",\s*(\d+)%N\)\s*:\s*list", re.S)


def _coqc(path: str, timeout=600):
    p = subprocess.run(
        ["coqc", "-Q", COQDIR, "RV", path],
        capture_output=True,
        text=True,
        timeout=timeout,
        cwd=os.path.dirname(path),
    )
    return p.returncode, p.stdout, p.stderr


def eval_pairs(suite: Suite, pairs, tag: str, jobs=16):
    """Evaluate model/spec/kf in Coq on (case, impl_obs) pairs.
    Returns (flags: {index: code}, kf_hits:int)."""
    d = os.path.join(BUILD, "cases", tag)
    os.makedirs(d, exist_ok=True)
    for fn in os.listdir(d):
        if fn.startswith(suite.name + "_"):
            os.unlink(os.path.join(d, fn))
    shards = []
    shard = int(getattr(suite, "shard", SHARD))  # a suite with large observations may ask for smaller files
    for k in range(0, len(pairs), shard):
        path = os.path.join(d, f"{suite.name}_{k // shard}.v")
        _write_shard(suite, path, pairs[k : k + shard])
        shards.append((k, path))
    flags, hits = {}, 0

    class _Infra(Exception):
        """coqc did not complete (killed, out of memory, timed out): worth one retry on its own"""

    def one(kp, retry=False):
        k, path = kp
        try:
            rc, out, err = _coqc(path)
        except subprocess.TimeoutExpired:
            if not retry:
                raise _Infra(kp)
            raise RuntimeError(f"coqc timed out on {path} (model or checker evaluation did not finish)")
        if rc != 0:
            if not retry and not err.strip():
                raise _Infra(kp)  # no message: the process was killed (e.g. memory pressure), not a Coq error
            raise RuntimeError(f"coqc failed on {path}:\n{err[-2000:]}")
        flat = " ".join(out.split())
        m = re.search(r"=\s*\((.*),\s*(\d+)(?:%N)?\s*\)\s*:\s*list", flat)
        if not m:
            raise RuntimeError(f"cannot read coqc output for {path}: {flat[:500]}")
        res = [(int(a), int(b)) for a, b in _RES.findall(m.group(1))]
        return k, res, int(m.group(2))

    def safe(kp):
        try:
            return one(kp)
        except _Infra:
            return kp

    again = []
    with ThreadPoolExecutor(max_workers=jobs) as ex:
        for r in ex.map(safe, shards):
            if len(r) == 2:
                again.append(r)
                continue
            k, res, n = r
            hits += n
            for i, code in res:
                flags[k + i] = code
    for kp in again:  # one more attempt, alone and sequentially; a second failure is reported
        k, res, n = one(kp, retry=True)
        hits += n
        for i, code in res:
            flags[k + i] = code
    # leave only sources behind; compiled case files are of no use
    for _, path in shards:
        for ext in (".vo", ".vok", ".vos", ".glob"):
            try:
                os.unlink(path[:-2] + ext)
            except OSError:
                pass
        aux = os.path.join(os.path.dirname(path), "." + os.path.basename(path)[:-2] + ".aux")
        try:
            os.unlink(aux)
        except OSError:
            pass
    return flags, hits


def model_output(suite: Suite, case, tag: str) -> str:
    """Raw Coq text of the model's observation for one case (for replay files)."""
    d = os.path.join(BUILD, "cases", tag)
    os.makedirs(d, exist_ok=True)
    path = os.path.join(d, f"{suite.name}_show.v")
    with open(path, "w") as f:
        f.write("From Coq Require Import List NArith ZArith Bool.\nImport ListNotations.\n")
        f.write(suite.imports + "\n")
        f.write(f"Eval vm_compute in (({suite.model}) ({suite.coq_case(case)})).\n")
    rc, out, err = _coqc(path, timeout=120)
    for ext in (".vo", ".vok", ".vos", ".glob"):
        try:
            os.unlink(path[:-2] + ext)
        except OSError:
            pass
    return " ".join(out.split()) if rc == 0 else "coqc error: " + err[-500:]


def run_impl_safe(suite: Suite, case):
    try:
        return with_timeout(suite.timeout_s, suite.run_impl, case)
    except CaseTimeout:
        return suite.on_timeout(case) if hasattr(suite, "on_timeout") else {"timeout": True}


class Outcome:
    def __init__(self):
        self.evaluations = 0
        self.distinct = set()
        self.samples = []
        self.features = {}
        self.kf_hits = {}
        self.known = []  # (kf_id, suite, case)
        self.violations = []  # dict
        self.corr_breaks = []  # dict
        self.model_breaks = []
        self.traces = 0
        self.exhaustive = False


def _bump(d, k, n=1):
    d[k] = d.get(k, 0) + n


def run_suite(suite: Suite, cases, tag: str, out: Outcome, known_ids, label="gen"):
    """Run implementation + Coq evaluation on cases; classify; return list of failing (case, obs, code)."""
    pairs = []
    for c in cases:
        o = run_impl_safe(suite, c)
        pairs.append((c, o))
        out.evaluations += 1
        key = json.dumps([suite.name, c], sort_keys=True, default=str)
        if suite.nontrivial(c, o):
            out.distinct.add(hash(key))
        for k, v in suite.features(c, o).items():
            _bump(out.features, f"{suite.name}.{k}", v)
    if not pairs:
        return []
    flags, hits = eval_pairs(suite, pairs, tag)
    out.traces += len(pairs)
    if hits:
        _bump(out.kf_hits, suite.name, hits)
    if len(out.samples) < 6:
        for c, o in pairs[:2]:
            out.samples.append({"suite": suite.name, "case": c, "impl_observation": o})
    bad = []
    for i, code in sorted(flags.items()):
        c, o = pairs[i]
        rec = {"suite": suite.name, "case": c, "impl_observation": o, "code": code, "source": label}
        if code & 8 and not code & 4:
            out.model_breaks.append(rec)
        if code & 2:
            kid = suite.kf_ids.get(code >> 4)
            if code & 4 and not code & 1 and kid in known_ids:
                out.known.append((kid, suite.name, c))
            else:
                out.violations.append(rec)
                bad.append(rec)
        elif code & 1:
            out.corr_breaks.append(rec)
    return bad


def shrink_case(suite: Suite, rec, tag: str, known_ids, rounds=12):
    """Greedy delta-debugging on the implementation against the spec checker."""
    cur = rec
    for _ in range(rounds):
        cands = list(suite.shrink(cur["case"]))[:200]
        if not cands:
            break
        pairs = [(c, run_impl_safe(suite, c)) for c in cands]
        flags, _ = eval_pairs(suite, pairs, tag + "_shrink")
        nxt = None
        for i in sorted(flags):
            code = flags[i]
            if code & 2 and not (code & 4 and not code & 1 and suite.kf_ids.get(code >> 4) in known_ids):
                nxt = {"suite": suite.name, "case": pairs[i][0], "impl_observation": pairs[i][1],
                       "code": code, "source": "shrunk"}
                break
        if nxt is None:
            break
        cur = nxt
    return cur
