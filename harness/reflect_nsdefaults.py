"""T1 for C17: the stock prefix tables NamespaceManager.__init__ binds (rdflib/namespace/__init__.py),
in the order it binds them, rendered as Coq definitions (coq/Gen/Tables_nsdefaults.v)."""
from __future__ import annotations


def _s(x):
    return "[" + "; ".join(f"{ord(c)}%N" for c in str(x)) + "]"


def _tab(d):
    return "[" + ";\n  ".join(f"({_s(p)}, {_s(n)})" for p, n in d.items()) + "]"


def render(rdflib) -> str:
    ns = rdflib.namespace
    core = ns._NAMESPACE_PREFIXES_CORE
    lib = ns._NAMESPACE_PREFIXES_RDFLIB
    out = ["(* _NAMESPACE_PREFIXES_CORE: bind_namespaces=\"core\" *)",
           "Definition stock_core : list (list N * list N) :=\n  " + _tab(core) + ".",
           "(* bind_namespaces=\"rdflib\" (the default): _NAMESPACE_PREFIXES_RDFLIB, then the core ones *)",
           "Definition stock_rdflib : list (list N * list N) :=\n  " + _tab(lib) + " ++ stock_core."]
    return "\n".join(out) + "\n"
