"""C10 - SPARQL Update: correspondence between coq/Update/Model.v and
rdflib/plugins/sparql/update.py (+ evalutils._fillTemplate), driven through
Graph.update / ConjunctiveGraph.update / Dataset.update over a Memory store,
with rdflib.plugins.sparql.SPARQL_DEFAULT_GRAPH_UNION on and off.

The WHERE clause of DELETE/INSERT..WHERE and DELETE WHERE enters the model as
its solution list: run_impl evaluates the pattern as SELECT * on the state
just before the operation (a separate copy of the store on which the preceding
operations of the request have been executed) and stores the rows in the case
(`case["omegas"]`), next to the templates."""
from __future__ import annotations

import itertools
import re
import warnings

from .core import Suite, cN, cbool, clist, copt, ctuple
from .terms import GRAPH_POOL, TERM_POOL, rdflib, tkey

warnings.filterwarnings("ignore", category=DeprecationWarning)
import rdflib.plugins.sparql as SP  # noqa: E402
from rdflib import BNode, ConjunctiveGraph, Dataset, Graph, Literal, URIRef  # noqa: E402
from rdflib.graph import DATASET_DEFAULT_GRAPH_ID  # noqa: E402
from rdflib.plugins.stores.memory import Memory  # noqa: E402

TRUSTED = [
    "Coq 8.16.1 kernel and vm_compute",
    "harness/c10.py: rendering of requests, numbering of terms/graph names, reading the final store through "
    "ConjunctiveGraph(store).quads and store.contexts()",
    "rdflib's SPARQL parser/translateUpdate (request text -> algebra; the WHERE algebra of ModifyW operations is read off "
    "translateUpdate's output node by node)",
    "for operations whose solution list is an input (Modify / ModifyS: OPTIONAL, UNION, FILTER, sub-select; DeleteWhere): "
    "rdflib's SELECT engine evaluates the WHERE pattern correctly on a given store (property C04's subject). CHECKED, no "
    "longer assumed: that the list handed to the model is the pattern's value on the state just before the operation - while "
    "the real request runs, the inner store is copied when evalModify / evalDeleteWhere is entered and the pattern is "
    "evaluated again on that copy; a difference poisons the observation. Still assumed: that evalModify evaluates that very "
    "pattern over that very dataset (for the fragment BGP/Join/GRAPH this is modelled and proved instead: ModifyW, "
    "DeleteWhereW, where nothing of the engine is trusted)",
    "coq/Sparql (property C04): its model of evaluate.py and its theorems C04_pushdown, bu_typed are reused, not re-proved",
    "the request-level tie theorem covers a model-computed WHERE at every position of a request for label-free templates; "
    "with blank-node labels under a computed WHERE the tie is the single-step theorem plus this conformance run",
    "rdflib.plugins.stores.memory.Memory add/remove/remove_graph/contexts (properties C01/C02)",
]
ASSUMPTIONS = [
    "rdflib.plugins.sparql.SPARQL_LOAD_GRAPHS is False (USING copies a known graph instead of fetching its IRI)",
    "store is Memory (graph_aware); front ends are exactly Graph, ConjunctiveGraph, Dataset(default_union=False)",
    "blank nodes are not written in INSERT DATA / DELETE DATA (rdflib keeps their labels, outside the model)",
    "ModifyW (WHERE evaluated by the model): any pattern of the fragment under any WITH / USING / USING NAMED combination; "
    "a named graph without triples contributes no solution (groups are non-empty), so model and specification enumerate "
    "the graphs that hold quads; WITH without USING keeps every named graph visible to GRAPH",
    "Modify with a given solution list: WHERE under WITH alone does not use GRAPH; under USING / USING NAMED the solution list is "
    "computed on the dataset SPARQL 1.1 Update 3.1.3 prescribes (default graph = merge of the USING graphs, empty without "
    "USING; named graphs = the USING NAMED graphs) and the pattern is free of GRAPH or GRAPH <one of the USING NAMED graphs>",
    "request texts use absolute IRIs or (case field spell) one PREFIX/BASE prologue per operation with prefixes re-declared "
    "and BASE changed between operations; the abstract request and the model always have absolute IRIs",
    "the request text spells a graph's template/data triples as one GRAPH group or (case field split) as two interleaved "
    "GRAPH groups; the model has one block per graph",
    "a graph absent from the store is the empty graph (no failure demanded for missing graphs)",
]
RULE = (
    "1-3 operations over 1-3 graphs (graph ids 1,2,5 addressable, 3 blank-node named), 3 subjects x 2 predicates x 5 objects; "
    "templates are drawn from variables s,p,o,z,g so that one solution's insertion is another's deletion (swap on 2-cycles); "
    "INSERT templates with blank nodes get, half of the time, a WHERE whose solution SEQUENCE repeats a solution (nested or "
    "bare sub-select projecting a variable away, overlapping UNION); "
    "55 % of the DELETE/INSERT operations have their WHERE clause (BGP, joins, GRAPH <iri>, GRAPH ?g) evaluated by the "
    "model (ModifyW), the others get the solution list of a SELECT; CREATE [SILENT] in 8 % of the management operations; "
    "WITH x {none, USING, USING + USING NAMED, USING NAMED only}; 35 % of the cases spell graphs as repeated, interleaved "
    "GRAPH groups (INSERT/DELETE DATA, DELETE WHERE, both templates); "
    "a case is non-trivial when the request changes the store or raises"
)

DEFAULT_CG = URIRef("urn:x-verif:cg-default")
LITS = [5, 6, 7, 9, 10, 11, 14]
BNODES = [8, 13]
GBASE = 100
FRESHG = 900
VARS = {1: "s", 2: "p", 3: "o", 4: "z", 5: "g"}
VAR_ID = {v: k for k, v in VARS.items()}

TERM_ID = {tkey(t): i + 1 for i, t in enumerate(TERM_POOL)}
GRAPH_ID = {tkey(t): i + 1 for i, t in enumerate(GRAPH_POOL)}


def term(i):
    return TERM_POOL[i - 1]


def gname(c, default):
    return default if c == 0 else GRAPH_POOL[c - 1]


def gid(ident, default):
    k = tkey(ident)
    if k == tkey(default):
        return 0
    return GRAPH_ID.get(k, FRESHG)


def tid(t, extra):
    k = tkey(t)
    if k in TERM_ID:
        return TERM_ID[k]
    if k in GRAPH_ID:
        return GBASE + GRAPH_ID[k]
    if k not in extra:
        extra[k] = 2000 + len(extra)
    return extra[k]


# WHERE patterns: (text, uses GRAPH)
WHERES = [
    ("?s ?p ?o", False),
    ("?s <http://e/p> ?o", False),
    ("?s ?p ?o . ?o ?p ?z", False),
    ("?s ?p ?o OPTIONAL { ?o <http://e/q> ?z }", False),
    ("GRAPH ?g { ?s ?p ?o }", True),
    ("GRAPH <urn:g:1> { ?s ?p ?o }", True),
    ("{ ?s <http://e/p> ?o } UNION { GRAPH ?g { ?s <http://e/q> ?o } }", True),
    ("?s ?p ?o FILTER(isIRI(?o))", False),
    ("GRAPH <urn:g:2> { ?s ?p ?o }", True),
    ("GRAPH <urn:g:5> { ?s ?p ?o }", True),
    ("?s ?p ?o . GRAPH ?g { ?o ?p ?z }", True),
    ("GRAPH ?g { ?s <http://e/p> ?o } . ?o ?p ?z", True),
    ("GRAPH <urn:g:1> { ?s ?p ?o } . GRAPH ?g { ?o ?p ?s }", True),
    # solution sequences with repeated solutions (one template instantiation, one fresh node, per occurrence)
    ("{ SELECT ?s WHERE { ?s ?p ?o } }", False),
    ("{ ?s <http://e/p> ?o } UNION { ?s ?p ?o }", False),
    # the WHERE clause is one sub-select (u.where is the sub-select itself, no Join(BGP [], ...) on top)
    ("SELECT ?s WHERE { ?s ?p ?o }", False),
]
BARE_WHERES = [k for k, (t, _) in enumerate(WHERES) if t.startswith("SELECT")]
DUP_WHERES = [k for k, (t, _) in enumerate(WHERES) if t.startswith("{ SELECT") or (" UNION { ?s ?p ?o }" in t)]
WHERE_OF_GRAPH = {1: 5, 2: 8, 5: 9}  # graph id -> index of the pattern GRAPH <that graph> { ?s ?p ?o }


# ---------------------------------------------------------------- rendering
# How the IRIs of the operation being rendered are spelled: None = absolute <...>, else a dict made by
# prologue_of().  The abstract request (and what the model gets) always has absolute IRIs; only the text varies.
_SP = None
E_NS = "http://e/"
G_NS = "urn:g:"


def prologue_of(spell, k):
    """prologue of the k-th operation under spelling scheme `spell` (an int): consecutive operations
    re-declare the two prefixes v: and w: with swapped namespaces and change BASE, so that resolving an
    operation under another operation's declarations gives different IRIs"""
    m = (spell + k) % 4
    if m == 0:
        return {"text": "PREFIX v: <%s> PREFIX w: <%s> " % (E_NS, G_NS), "e": "v:", "g": "w:"}
    if m == 1:
        return {"text": "PREFIX v: <%s> PREFIX w: <%s> " % (G_NS, E_NS), "e": "w:", "g": "v:"}
    if m == 2:
        return {"text": "BASE <%s> PREFIX v: <urn:x:> PREFIX w: <%s> " % (E_NS, G_NS), "e": None, "g": "w:"}
    return {"text": "BASE <http://f/> PREFIX w: <urn:y:> PREFIX v: <%s> " % G_NS, "e": "<" + E_NS, "g": "v:"}


def r_iri(iri):
    iri = str(iri)
    if _SP is not None:
        if iri.startswith(E_NS):
            local = iri[len(E_NS):]
            if _SP["e"] is None:
                return "<%s>" % local              # relative to BASE <http://e/>
            if _SP["e"].startswith("<"):
                return "<%s>" % iri                # absolute while another BASE is in force
            return _SP["e"] + local
        if iri.startswith(G_NS):
            return _SP["g"] + iri[len(G_NS):]
    return "<%s>" % iri


def r_where(text):
    return re.sub(r"<((?:http://e/|urn:g:)[^>]*)>", lambda m: r_iri(m.group(1)), text)


def r_graph(c):
    return r_iri(GRAPH_POOL[c - 1])


def r_term(i):
    t = term(i)
    return r_iri(t) if isinstance(t, URIRef) else t.n3()


def r_pos(p):
    if p[0] == "c":
        return r_term(p[1])
    if p[0] == "v":
        return "?" + VARS[p[1]]
    return "_:l%d" % p[1]


def r_tpats(ts):
    return " ".join("%s %s %s ." % tuple(r_pos(x) for x in tp) for tp in ts)


def r_gterm(g):
    return r_graph(g[1]) if g[0] == "c" else "?" + VARS[g[1]]


def r_groups(blocks, split):
    """blocks: [(graph text, [triple text..])..].  split=False: one GRAPH group per graph.  split=True: every
    graph with two or more triples is spelled as two GRAPH groups, the second one after the groups of the
    other graphs (translateQuads collects the groups of one graph under one key, first occurrence first)."""
    if not split:
        return "".join(" GRAPH %s { %s }" % (g, " ".join(ts)) for g, ts in blocks)
    out = ""
    for g, ts in blocks:
        out += " GRAPH %s { %s }" % (g, " ".join(ts[: max(1, len(ts) // 2)]))
    for g, ts in blocks:
        if len(ts) > 1:
            out += " GRAPH %s { %s }" % (g, " ".join(ts[max(1, len(ts) // 2):]))
    return out


def r_tmpl(tm, split=False):
    return r_tpats(tm["t"]) + r_groups(
        [(r_gterm(g), ["%s %s %s ." % tuple(r_pos(x) for x in tp) for tp in ts]) for g, ts in tm["q"]], split)


def r_data(ts, qs, split=False):
    out = " ".join("%s %s %s ." % tuple(r_term(x) for x in t) for t in ts)
    return out + r_groups(
        [(r_graph(c), ["%s %s %s ." % tuple(r_term(x) for x in t) for t in bts]) for c, bts in qs], split)


def r_gspec(g):
    return {"default": "DEFAULT", "named": "NAMED", "all": "ALL"}.get(g) or "GRAPH %s" % r_graph(g)


def r_gd(g):
    return "DEFAULT" if g == "default" else r_graph(g)


def r_op(op, split=False):
    k = op[0]
    if k == "insdata":
        return "INSERT DATA { %s }" % r_data(op[1], op[2], split)
    if k == "deldata":
        return "DELETE DATA { %s }" % r_data(op[1], op[2], split)
    if k in ("delwhere", "delwherew"):
        return "DELETE WHERE { %s }" % r_tmpl(op[1], split)
    if k in ("modify", "modifyw", "modifys"):
        _, w, ud, un, d, i, wk = op
        s = ""
        if w is not None:
            s += "WITH %s " % r_graph(w)
        if d is not None:
            s += "DELETE { %s } " % r_tmpl(d, split)
        if i is not None:
            s += "INSERT { %s } " % r_tmpl(i, split)
        for c in ud:
            s += "USING %s " % r_graph(c)
        for c in un:
            s += "USING NAMED %s " % r_graph(c)
        return s + "WHERE { %s }" % r_where(WHERES[wk][0])
    sil = "SILENT " if op[1] else ""
    if k == "create":
        return "CREATE %sGRAPH %s" % (sil, r_graph(op[2]))
    if k in ("clear", "drop"):
        return "%s %s%s" % (k.upper(), sil, r_gspec(op[2]))
    return "%s %s%s TO %s" % (k.upper(), sil, r_gd(op[2]), r_gd(op[3]))


def r_request(ops, split=False, spell=None):
    """the request text; spell = None: absolute IRIs, no prologue; spell = n: every operation carries its own
    prologue (prologue_of(n, k)) and spells its IRIs through it"""
    global _SP
    out = []
    try:
        for k, o in enumerate(ops):
            _SP = None if spell is None else prologue_of(spell, k)
            out.append(("" if _SP is None else _SP["text"]) + r_op(o, split))
    finally:
        _SP = None
    return " ;\n".join(out)


# ---------------------------------------------------------------- Coq text
def c_triple(t):
    return ctuple(*(cN(x) for x in t))


def c_quad(q):
    return ctuple(c_triple(q[:3]), cN(q[3]))


def c_pos(p):
    return {"c": "PConst", "v": "PVar", "b": "PBnode"}[p[0]] + " " + cN(p[1])


def c_tpat(tp):
    return ctuple(*(c_pos(x) for x in tp))


def c_gterm(g):
    return ("TGConst " if g[0] == "c" else "TGVar ") + cN(g[1])


def c_tmpl(tm):
    return "{| t_triples := %s; t_quads := %s |}" % (
        clist(c_tpat(x) for x in tm["t"]),
        clist(ctuple(c_gterm(g), clist(c_tpat(x) for x in ts)) for g, ts in tm["q"]),
    )


def c_blocks(qs):
    return clist(ctuple(cN(c), clist(c_triple(t) for t in ts)) for c, ts in qs)


def c_omega(om):
    return clist(clist(ctuple(cN(v), cN(t)) for v, t in mu) for mu in om)


def c_gspec(g):
    return {"default": "GDefault", "named": "GNamed", "all": "GAll"}.get(g) or "(GIri %s)" % cN(g)


def c_gd(g):
    return "DDefault" if g == "default" else "(DIri %s)" % cN(g)


def c_op(op, om):
    k = op[0]
    if k == "insdata":
        return "InsertData %s %s" % (clist(c_triple(t) for t in op[1]), c_blocks(op[2]))
    if k == "deldata":
        return "DeleteData %s %s" % (clist(c_triple(t) for t in op[1]), c_blocks(op[2]))
    if k == "delwherew":
        return "DeleteWhereW %s" % c_tmpl(op[1])
    if k == "delwhere":
        return "DeleteWhere %s %s" % (c_tmpl(op[1]), c_omega(om))
    if k == "modifyw":
        _, w, ud, un, d, i, wk = op
        return "ModifyW %s %s %s %s %s %s" % (copt(w, cN), clist(cN(c) for c in ud), clist(cN(c) for c in un),
                                             copt(d, c_tmpl), copt(i, c_tmpl), where_alg(wk))
    if k in ("modify", "modifys"):  # "modifys" (older corpus cases): WHERE is one bare sub-select; same model operation
        _, w, ud, un, d, i, wk = op
        return "Modify %s %s %s %s %s %s" % (copt(w, cN), cbool(ud), cbool(un), copt(d, c_tmpl), copt(i, c_tmpl), c_omega(om))
    if k == "create":
        return "Create %s %s" % (cbool(op[1]), cN(op[2]))
    con = {"clear": "Clear", "drop": "Drop", "add": "Add", "move": "Move", "copy": "Copy"}[k]
    if k in ("clear", "drop"):
        return "%s %s %s" % (con, cbool(op[1]), c_gspec(op[2]))
    return "%s %s %s %s" % (con, cbool(op[1]), c_gd(op[2]), c_gd(op[3]))


# ---- WHERE clauses evaluated by the model: rdflib's translated algebra (u.where) as a term of C04's [alg]
_ALG = {}


class NotInFragment(Exception):
    pass


def _c_tv(x):
    from rdflib import Variable
    if isinstance(x, Variable):
        return "(Sparql.Algebra.Vr %s)" % cN(VAR_ID[str(x)])
    return "(Sparql.Algebra.Tm %s)" % cN(tid(x, {}))


def _c_alg(n):
    from collections import OrderedDict
    nm = n.name
    if nm == "BGP":
        return "(Sparql.Algebra.BGP %s)" % clist(ctuple(*(_c_tv(x) for x in t)) for t in n["triples"])
    if nm == "Join":
        return "(Sparql.Algebra.Join %s %s %s)" % (cbool(bool(OrderedDict.get(n, "lazy", None))), _c_alg(n["p1"]), _c_alg(n["p2"]))
    if nm == "Graph":
        return "(Sparql.Algebra.Graph %s %s)" % (_c_tv(n["term"]), _c_alg(n["p"]))
    raise NotInFragment(nm)


def where_alg(wk):
    """Coq text of translateUpdate's algebra for WHERE pattern wk; NotInFragment unless BGP / Join / Graph only"""
    if wk not in _ALG:
        from rdflib.plugins.sparql.algebra import translateUpdate
        from rdflib.plugins.sparql.parser import parseUpdate
        u = translateUpdate(parseUpdate("INSERT { ?s ?p ?o } WHERE { %s }" % WHERES[wk][0])).algebra[0]
        try:
            _ALG[wk] = _c_alg(u.where)
        except NotInFragment:
            _ALG[wk] = None
    if _ALG[wk] is None:
        raise NotInFragment(wk)
    return _ALG[wk]


def in_fragment(wk):
    try:
        where_alg(wk)
        return True
    except NotInFragment:
        return False


def c_fe(fe):
    return {"cg": "FCG", "ds": "FDS"}.get(fe) if isinstance(fe, str) else "(FGraph %s)" % cN(fe[1])


# ---------------------------------------------------------------- generation helpers
SUBJ = [1, 2, 12, 8]
PRED = [3, 4]
OBJ = [1, 2, 12, 5, 10, 8]
CONST_S = [1, 2, 12, 10]        # 10 is a literal: illegal as subject
CONST_P = [3, 4]
CONST_O = [1, 2, 12, 5, 6, 10]
ADDRESSABLE = [1, 2, 5]


def gen_tpat(rng, allow_bnode, legal_only=False):
    r = rng.random()
    if r < 0.30:
        tp = [["v", 1], ["v", 2], ["v", 3]]
    elif r < 0.55:
        tp = [["v", 3], ["v", 2], ["v", 1]]
    else:
        def pos(consts, vs):
            x = rng.random()
            if x < 0.55:
                return ["v", rng.choice(vs)]
            if x < 0.70 and allow_bnode:
                return ["b", rng.choice([0, 1])]
            return ["c", rng.choice(consts)]
        tp = [pos(CONST_S[:3] if legal_only else CONST_S, [1, 3, 4]), None, pos(CONST_O, [1, 3, 4, 5] if not legal_only else [1, 3, 4])]
        x = rng.random()
        tp[1] = ["v", 2] if x < 0.4 else (["v", 3] if x < 0.5 and not legal_only else ["c", rng.choice(CONST_P)])
    if legal_only:
        tp = [t if t[0] != "b" else ["v", 1] for t in tp]
    return tp


def gen_tmpl(rng, allow_bnode, allow_quads, legal_only=False, fat=False):
    tm = {"t": [gen_tpat(rng, allow_bnode, legal_only) for _ in range(rng.choice([0, 1, 1, 1, 2]))], "q": []}
    if allow_quads and rng.random() < 0.45:
        names = []
        for _ in range(rng.choice([1, 1, 2])):
            g = ["v", 5] if rng.random() < 0.3 else ["c", rng.choice(ADDRESSABLE)]
            if g in names:
                continue
            names.append(g)
            tm["q"].append([g, [gen_tpat(rng, allow_bnode, legal_only) for _ in range(rng.choice([2, 2, 3] if fat else [1, 1, 2]))]])
    return tm


def tmpl_has_bnode(tm):
    if tm is None:
        return False
    return any(p[0] == "b" for ts in [tm["t"]] + [b[1] for b in tm["q"]] for tp in ts for p in tp)


def gen_data(rng, allow_quads, fat=False):
    def tr():
        return [rng.choice([1, 2, 12]), rng.choice(PRED), rng.choice([1, 2, 12, 5, 6, 10])]
    ts = [tr() for _ in range(rng.choice([0, 1, 1, 2]))]
    qs = []
    if allow_quads and rng.random() < 0.5:
        for c in rng.sample(ADDRESSABLE, rng.choice([1, 1, 2])):
            qs.append([c, [tr() for _ in range(rng.choice([2, 3] if fat else [1, 2]))]])
    return ts, qs


class C10(Suite):
    name = "update"
    imports = "From RV Require Import Update.Model."
    case_ty = "case"
    obs_ty = "obs"
    kf = "kf"
    kf_ids = {}
    corr = ("update.evalUpdate/evalInsertData/evalDeleteData/evalDeleteWhere/evalModify/evalClear/evalDrop/evalAdd/"
            "evalMove/evalCopy/_graphAll/_graphOrDefault, evalutils._fillTemplate")
    quick_n = 900
    thorough_n = 24000
    timeout_s = 20.0

    # case = {"fe": "cg"|"ds"|["g",k], "union": bool, "quads": [[s,p,o,c]..], "empty": [c..], "ops": [...],
    #         "omegas": [[[var,term]..]..] per op (filled in by run_impl)}

    def gen(self, rng, i):
        r = rng.random()
        fe = "cg" if r < 0.4 else ("ds" if r < 0.8 else ["g", rng.choice([1, 2])])
        # both settings of SPARQL_DEFAULT_GRAPH_UNION (on is the default): since the repair of F10a/F10b
        # it only changes what WHERE reads outside GRAPH
        union = rng.random() < 0.5
        # spell graphs with two or more template/data triples as two separate GRAPH groups, interleaved
        split = rng.random() < 0.35
        # spell IRIs through per-operation PREFIX/BASE declarations (None: absolute IRIs, no prologue)
        spell = rng.randrange(4) if rng.random() < 0.5 else None
        cids = [0] + rng.sample([1, 2, 5, 3], rng.choice([0, 1, 2, 2, 3]))
        subs = rng.sample(SUBJ, rng.choice([2, 2, 3]))
        pool = []
        for _ in range(rng.choice([2, 3, 4, 6])):
            s = rng.choice(subs)
            o = rng.choice(subs) if rng.random() < 0.7 else rng.choice(OBJ)
            t = [s, rng.choice(PRED if rng.random() < 0.3 else PRED[:1]), o]
            pool.append(t)
            if rng.random() < 0.5 and o in SUBJ:
                pool.append([o, t[1], s])  # 2-cycle
        quads = []
        for t in pool:
            for c in cids:
                if rng.random() < (0.6 if len(cids) == 1 else 0.4):
                    if t + [c] not in quads:
                        quads.append(t + [c])
        empty = [c for c in cids if c != 0 and rng.random() < 0.2]
        plain = not isinstance(fe, str)
        ops = []
        seen_bnode = False
        for _ in range(rng.choice([1, 1, 1, 2, 2, 3])):
            x = rng.random()
            allow_q = (not plain) or rng.random() < 0.1
            if x < 0.45 and not seen_bnode:
                # no GRAPH templates through a plain Graph: the partial effect before the failure
                # depends on the (unspecified) order in which the engine enumerates the solutions
                ops.append(self.gen_modify(rng, plain, allow_q and not plain, split))
                ins = ops[-1][5]
                # new template blank nodes must not be picked up by a later WHERE: their names cannot
                # cross the boundary
                seen_bnode = tmpl_has_bnode(ins)
            elif x < 0.55 and not seen_bnode:
                tm = gen_tmpl(rng, False, allow_q, legal_only=True, fat=split)
                # the model computes the solutions itself (DeleteWhereW) or gets them from a SELECT
                ops.append(["delwherew" if rng.random() < 0.6 else "delwhere", tm])
            elif x < 0.65:
                ops.append(["insdata"] + list(gen_data(rng, allow_q, split)))
            elif x < 0.73:
                if rng.random() < 0.5 and quads:
                    q = rng.choice(quads)
                    if q[0] in (8, 13) or q[2] in (8, 13):
                        ops.append(["deldata"] + list(gen_data(rng, allow_q, split)))
                    elif q[3] in ADDRESSABLE and allow_q:
                        ops.append(["deldata", [], [[q[3], [q[:3]]]]])
                    else:
                        ops.append(["deldata", [q[:3]], []])
                else:
                    ops.append(["deldata"] + list(gen_data(rng, allow_q, split)))
            else:
                def gsp():
                    y = rng.random()
                    if plain and rng.random() < 0.85:
                        return "default"
                    return "default" if y < 0.25 else ("named" if y < 0.4 else ("all" if y < 0.5 else rng.choice([1, 2, 5])))

                def gdd():
                    if plain and rng.random() < 0.85:
                        return "default"
                    return "default" if rng.random() < 0.3 else rng.choice([1, 2, 5])
                kind = rng.choice(["clear", "drop", "add", "move", "copy", "move", "copy"])
                sil = rng.random() < 0.25
                if rng.random() < 0.08:
                    # CREATE [SILENT]: rdflib always fails ("Create not implemented!"); SILENT makes it a no-op
                    ops.append(["create", rng.random() < 0.7, rng.choice([1, 2, 5])])
                    continue
                if kind in ("clear", "drop"):
                    ops.append([kind, sil, gsp()])
                else:
                    ops.append([kind, sil, gdd(), gdd()])
        return {"fe": fe, "union": union, "quads": quads, "empty": empty, "ops": ops, "split": split, "spell": spell}

    def gen_modify(self, rng, plain, allow_q, fat=False):
        w = None
        ud, un = [], []
        if allow_q and not plain:
            x = rng.random()
            if x < 0.30:
                w = rng.choice(ADDRESSABLE)
            if 0.15 < x < 0.45:
                y = rng.random()
                if y < 0.75:
                    ud = rng.sample(ADDRESSABLE, rng.choice([1, 1, 2]))
                if y > 0.45:
                    # USING NAMED together with USING (0.45..0.75) or alone (> 0.75): the WHERE dataset has
                    # exactly these named graphs and, without USING, an empty default graph
                    un = rng.sample(ADDRESSABLE, rng.choice([1, 1, 2]))
        elif plain and rng.random() < 0.05:
            w = rng.choice(ADDRESSABLE)
        if un and (not ud or rng.random() < 0.5):
            # a pattern on which rdflib's WHERE dataset (all named graphs stay visible, F10i) and the
            # prescribed one agree: GRAPH <a graph listed in USING NAMED>
            wk = WHERE_OF_GRAPH[rng.choice(un)]
        elif w is not None or ud or plain:
            wk = rng.choice([k for k, (_, g) in enumerate(WHERES) if not g and k not in BARE_WHERES])
        else:
            wk = rng.choice([k for k in range(len(WHERES)) if k not in BARE_WHERES])
        x = rng.random()
        d = gen_tmpl(rng, False, allow_q, fat=fat) if x < 0.75 else None
        i = gen_tmpl(rng, True, allow_q, fat=fat) if x > 0.2 else None
        if d is not None and i is not None and rng.random() < 0.5:
            # the swap: what one solution inserts another deletes
            d["t"] = [[["v", 1], ["v", 2], ["v", 3]]]
            i["t"] = [[["v", 3], ["v", 2], ["v", 1]]] + i["t"][:1]
        kind = "modify"
        if tmpl_has_bnode(i) and rng.random() < 0.5:
            # a solution SEQUENCE with repeated solutions: every occurrence instantiates the template, with its own
            # fresh nodes (sub-select that projects the distinguishing variable away; UNION of overlapping branches)
            wk = rng.choice(DUP_WHERES + BARE_WHERES)
            return [kind, w, ud, un, d, i, wk]
        if rng.random() < 0.55:
            # the model evaluates the WHERE clause itself (operation ModifyW): any pattern of the fragment
            # BGP / Join / GRAPH under any WITH / USING / USING NAMED combination, also where rdflib's
            # dataset is not the prescribed one (F10i: model = rdflib, the specification differs)
            cands = [k for k in range(len(WHERES)) if in_fragment(k) and not (plain and WHERES[k][1])]
            wk = rng.choice(cands)
            kind = "modifyw"
        return [kind, w, ud, un, d, i, wk]

    # ------------------------------------------------------------ implementation
    def _fresh(self, case, union):
        SP.SPARQL_LOAD_GRAPHS = False
        SP.SPARQL_DEFAULT_GRAPH_UNION = bool(union)
        store = Memory()
        fe = case["fe"]
        if fe == "cg":
            default = DEFAULT_CG
            front = ConjunctiveGraph(store=store, identifier=DEFAULT_CG)
        else:
            default = DATASET_DEFAULT_GRAPH_ID
            front = Dataset(store=store)
            if fe != "ds":
                front = Graph(store=store, identifier=gname(fe[1], default))
        for q in case["quads"]:
            Graph(store=store, identifier=gname(q[3], default)).add(tuple(term(x) for x in q[:3]))
        for c in case["empty"]:
            store.add_graph(Graph(store=store, identifier=gname(c, default)))
        return store, front, default

    def _omega(self, case, op, store, front, default):
        def prescribed():
            # no WITH/USING: the store's own dataset.  With the switch off its default graph is the real default
            # graph whatever the front end: evaluated on an independent copy (a Dataset with default_union False,
            # switch off) so that the solution list does not depend on how QueryContext picks ctx.graph.  With the
            # switch on the front end's own reading is taken (ConjunctiveGraph: union; Dataset(default_union=False): its real default graph).
            if case["union"] or not isinstance(case["fe"], str):
                return front
            copy = Dataset()
            for s_, p_, o_, g_ in ConjunctiveGraph(store=store, identifier=default).quads((None, None, None)):
                if tkey(g_.identifier) == tkey(default):
                    copy.add((s_, p_, o_))
                else:
                    copy.add((s_, p_, o_, g_.identifier))
            return copy

        if op[0] == "delwhere":
            text = r_tmpl(op[1])
            target = prescribed()
        else:
            _, w, ud, un, d, i, wk = op
            text = WHERES[wk][0]
            target = front if (ud or un or w is not None) else prescribed()
            if ud or un:
                # the dataset SPARQL 1.1 Update 3.1.3 prescribes: default graph = merge of the USING graphs
                # (empty when only USING NAMED is given), named graphs = the USING NAMED graphs
                target = Dataset()
                for c in ud:
                    for t in Graph(store=store, identifier=gname(c, default)):
                        target.add(t)
                for c in un:
                    name = gname(c, default)
                    for t in Graph(store=store, identifier=name):
                        target.add(t + (name,))
                SP.SPARQL_DEFAULT_GRAPH_UNION = False
            elif w is not None:
                target = Graph(store=store, identifier=gname(w, default))
        rows = []
        extra = {}
        try:
            bindings = target.query("SELECT * WHERE { %s }" % text).bindings
        finally:
            SP.SPARQL_DEFAULT_GRAPH_UNION = bool(case["union"])
        for b in bindings:
            mu = []
            for var, v in b.items():
                if v is not None and str(var) in VAR_ID:
                    mu.append([VAR_ID[str(var)], tid(v, extra)])
            rows.append(sorted(mu))
        return rows  # in the engine's order: the partial effect before a failure depends on it

    def run_impl(self, case):
        union = case["union"]
        ops = case["ops"]
        split = bool(case.get("split"))
        spell = case.get("spell")
        omegas = [[] for _ in ops]
        case["omegas"] = omegas
        try:
            for k, op in enumerate(ops):
                if op[0] in ("delwhere", "modify", "modifys"):
                    store, front, default = self._fresh(case, union)
                    try:
                        if k:
                            front.update(r_request(ops[:k], split, spell))
                    except Exception:  # noqa: BLE001
                        break  # the request stops here; later operations never run
                    try:
                        omegas[k] = self._omega(case, op, store, front, default)
                    except Exception:  # noqa: BLE001
                        omegas[k] = []
            store, front, default = self._fresh(case, union)
            raised = False
            mismatch = self._watch_solution_lists(case, store, default)
            try:
                front.update(r_request(ops, split, spell))
            except Exception:  # noqa: BLE001
                raised = True
            finally:
                self._unwatch()
            extra = {}
            quads = []
            for s, p, o, g in ConjunctiveGraph(store=store, identifier=default).quads((None, None, None)):
                quads.append([tid(s, extra), tid(p, extra), tid(o, extra), gid(g.identifier, default)])
            # number the new blank nodes in an order that does not depend on their labels
            order = {}
            for q in sorted(quads, key=lambda q: [x if x < 2000 else 2000 for x in q]):
                for x in q[:3]:
                    if x >= 2000 and x not in order:
                        order[x] = 2000 + len(order)
            quads = sorted([order.get(x, x) for x in q[:3]] + [q[3]] for q in quads)
            quads = [list(q) for q in sorted(set(tuple(q) for q in quads))]
            known = sorted({gid(c.identifier, default) for c in store.contexts()} - {0})
            if mismatch:
                # the solution list handed to the model is not what the WHERE pattern yields on the store as it
                # was just before that operation: poison the observation so that the case is reported
                quads = [[996, 996, 996, 996]] + quads
            return {"quads": quads, "known": known, "raised": raised}
        finally:
            SP.SPARQL_DEFAULT_GRAPH_UNION = True
            SP.SPARQL_LOAD_GRAPHS = True

    # ---- tie of the GIVEN solution lists (Modify / DeleteWhere) to the state before the operation: while the
    # real request runs, every top-level evaluator call is counted; when evalModify / evalDeleteWhere is entered for
    # an operation whose solution list is an input of the model, the inner store is copied as it is at that moment
    # and the WHERE pattern is evaluated on the copy; the result must be the list computed beforehand (on a store
    # on which the prefix of the request had been replayed)
    _EVALS = ("evalLoad", "evalClear", "evalDrop", "evalCreate", "evalAdd", "evalMove", "evalCopy",
              "evalInsertData", "evalDeleteData", "evalDeleteWhere", "evalModify")

    def _watch_solution_lists(self, case, store, default):
        import rdflib.plugins.sparql.update as UPD
        mismatch = []
        state = {"k": -1, "depth": 0}
        self._saved = {n: getattr(UPD, n) for n in self._EVALS}
        suite = self

        def wrap(name, fn):
            def inner(ctx, u):
                top = state["depth"] == 0
                if top:
                    state["k"] += 1
                    k = state["k"]
                    op = case["ops"][k] if k < len(case["ops"]) else None
                    if op is not None and op[0] in ("modify", "modifys", "delwhere") and name in ("evalModify", "evalDeleteWhere"):
                        try:
                            st2 = Memory()
                            for s_, p_, o_, g_ in ConjunctiveGraph(store=store, identifier=default).quads((None, None, None)):
                                Graph(store=st2, identifier=g_.identifier).add((s_, p_, o_))
                            fe = case["fe"]
                            if fe == "cg":
                                front2 = ConjunctiveGraph(store=st2, identifier=DEFAULT_CG)
                            elif fe == "ds":
                                front2 = Dataset(store=st2)
                            else:
                                front2 = Graph(store=st2, identifier=gname(fe[1], default))
                            now = suite._omega(case, op, st2, front2, default)
                            if sorted(now) != sorted(case["omegas"][k]):
                                mismatch.append(k)
                        except Exception:  # noqa: BLE001
                            if case["omegas"][k]:
                                mismatch.append(k)
                state["depth"] += 1
                try:
                    return fn(ctx, u)
                finally:
                    state["depth"] -= 1
            return inner

        for n, fn in self._saved.items():
            setattr(UPD, n, wrap(n, fn))
        return mismatch

    def _unwatch(self):
        import rdflib.plugins.sparql.update as UPD
        for n, fn in getattr(self, "_saved", {}).items():
            setattr(UPD, n, fn)
        self._saved = {}

    @staticmethod
    def _in_scope(case):
        """mirror of Model.in_scope, for the evidence only: is the request judged by the specification, or (plain
        Graph with an operation that needs named graphs; CREATE without SILENT) by model = implementation alone?"""
        def needs_dataset(o):
            k = o[0]
            if k in ("insdata", "deldata"):
                return bool(o[2])
            if k in ("delwhere", "delwherew"):
                return bool(o[1]["q"])
            if k in ("modify", "modifyw", "modifys"):
                return (o[1] is not None or bool(o[2]) or bool(o[3]) or any(t is not None and t["q"] for t in (o[4], o[5]))
                        or (k == "modifyw" and WHERES[o[6]][1]))
            if k in ("clear", "drop"):
                return o[2] != "default"
            if k == "create":
                return True
            return not (o[2] == "default" and o[3] == "default")
        ops = case["ops"]
        if any(o[0] == "create" and not o[1] for o in ops):
            return False
        return isinstance(case["fe"], str) or not any(needs_dataset(o) for o in ops)

    def on_timeout(self, case):
        case.setdefault("omegas", [[] for _ in case["ops"]])
        return {"quads": [[997, 997, 997, 997]], "known": [], "raised": True}

    # ------------------------------------------------------------ Coq text
    def coq_case(self, case):
        omegas = case.get("omegas") or [[] for _ in case["ops"]]
        known = sorted({q[3] for q in case["quads"]} | set(case["empty"]))
        env = "{| e_fe := %s; e_union := %s; e_lits := %s; e_bnodes := %s |}" % (
            c_fe(case["fe"]), cbool(case["union"]), clist(cN(x) for x in LITS),
            clist(cN(x) for x in BNODES + [GBASE + 3, GBASE + 4]))
        return "{| c_env := %s; c_quads := %s; c_known := %s; c_ops := %s |}" % (
            env, clist(c_quad(q) for q in case["quads"]), clist(cN(c) for c in known),
            clist(c_op(o, om) for o, om in zip(case["ops"], omegas)))

    def coq_obs(self, obs):
        return ctuple(clist(c_quad(q) for q in obs["quads"]), clist(cN(c) for c in obs["known"]), cbool(obs["raised"]))

    def nontrivial(self, case, obs):
        return obs["raised"] or sorted(obs["quads"]) != sorted(case["quads"])

    def features(self, case, obs):
        fe = case["fe"] if isinstance(case["fe"], str) else "graph"
        f = {"fe_" + fe: 1, "union_" + ("on" if case["union"] else "off"): 1, "ops_total": len(case["ops"]),
             "raised": int(obs["raised"]), "changed": int(sorted(obs["quads"]) != sorted(case["quads"])),
             "fresh_bnodes": int(any(x >= 2000 for q in obs["quads"] for x in q[:3])),
             "split_graph_groups": int(bool(case.get("split"))),
             "judged_by_specification": int(self._in_scope(case)),
             "out_of_scope_model_equals_impl_only": int(not self._in_scope(case)),
             "spelled_with_prologues": int(case.get("spell") is not None),
             "prologue_changes_within_request": int(case.get("spell") is not None and len(case["ops"]) > 1)}
        for k, o in enumerate(case["ops"]):
            f["op_" + o[0]] = f.get("op_" + o[0], 0) + 1
            if o[0] == "modifyw":
                f["modify_where_in_model"] = f.get("modify_where_in_model", 0) + 1
                if o[2] or o[3]:
                    f["modify_where_in_model_using"] = f.get("modify_where_in_model_using", 0) + 1
            if o[0] in ("modify", "modifys"):
                om = (case.get("omegas") or [[]] * (k + 1))[k]
                f["modify_solutions_%s" % ("0" if not om else ("1" if len(om) == 1 else "many"))] = \
                    f.get("modify_solutions_%s" % ("0" if not om else ("1" if len(om) == 1 else "many")), 0) + 1
                if o[1] is not None:
                    f["modify_with"] = f.get("modify_with", 0) + 1
                if o[2]:
                    f["modify_using"] = f.get("modify_using", 0) + 1
                if o[3] and not o[2]:
                    f["modify_using_named_only"] = f.get("modify_using_named_only", 0) + 1
                if o[3] and not o[2] and o[1] is not None:
                    f["modify_with_and_using_named_only"] = f.get("modify_with_and_using_named_only", 0) + 1
                if o[4] is not None and o[5] is not None:
                    f["modify_delete_and_insert"] = f.get("modify_delete_and_insert", 0) + 1
                if any(t is not None and t["q"] for t in (o[4], o[5])):
                    f["modify_graph_template"] = f.get("modify_graph_template", 0) + 1
        return f

    def shrink(self, case):
        ops = case["ops"]
        base = {k: v for k, v in case.items() if k != "omegas"}
        for i in range(len(ops)):
            if len(ops) > 1:
                yield dict(base, ops=ops[:i] + ops[i + 1:])
        for i in range(len(case["quads"])):
            yield dict(base, quads=case["quads"][:i] + case["quads"][i + 1:])
        for i in range(len(case["empty"])):
            yield dict(base, empty=case["empty"][:i] + case["empty"][i + 1:])
        for i, op in enumerate(ops):
            if op[0] in ("modify", "modifyw", "modifys"):
                for j in (4, 5):
                    tm = op[j]
                    if tm is None:
                        continue
                    if op[9 - j] is not None:
                        yield dict(base, ops=ops[:i] + [op[:j] + [None] + op[j + 1:]] + ops[i + 1:])
                    for n in range(len(tm["t"])):
                        tm2 = {"t": tm["t"][:n] + tm["t"][n + 1:], "q": tm["q"]}
                        yield dict(base, ops=ops[:i] + [op[:j] + [tm2] + op[j + 1:]] + ops[i + 1:])
                    for n in range(len(tm["q"])):
                        tm2 = {"t": tm["t"], "q": tm["q"][:n] + tm["q"][n + 1:]}
                        yield dict(base, ops=ops[:i] + [op[:j] + [tm2] + op[j + 1:]] + ops[i + 1:])
                if op[1] is not None:
                    yield dict(base, ops=ops[:i] + [[op[0], None] + op[2:]] + ops[i + 1:])
                if (op[2] or op[3]) and (op[0] == "modifyw" or not WHERES[op[6]][1]):  # stay inside the generator's domain
                    yield dict(base, ops=ops[:i] + [op[:2] + [[], []] + op[4:]] + ops[i + 1:])

    def sweep(self):
        """every graph-management operation x front end x switch over two small datasets, and the swap
        request over every subset of a 2-cycle + loop in two graphs"""
        inits = [
            ([[1, 3, 2, 0], [1, 3, 1, 1], [2, 3, 1, 1], [1, 3, 12, 2]], []),
            ([[1, 3, 2, 1]], [2]),
        ]
        gs = ["default", "named", "all", 1, 2, 5]
        ds = ["default", 1, 2, 5]
        mops = [[k, False, g] for k in ("clear", "drop") for g in gs]
        mops += [[k, sil, a, b] for k in ("add", "move", "copy") for a in ds for b in ds for sil in (False,)]
        for fe in ("cg", "ds", ["g", 1]):
            for union in (False, True):
                for quads, empty in inits:
                    for op in mops:
                        yield {"fe": fe, "union": union, "quads": quads, "empty": empty, "ops": [op]}
        swap = ["modify", None, [], [], {"t": [[["v", 1], ["v", 2], ["v", 3]]], "q": []},
                {"t": [[["v", 3], ["v", 2], ["v", 1]]], "q": []}, 0]
        base = [[1, 3, 2], [2, 3, 1], [1, 3, 1], [2, 3, 12]]
        for fe in ("cg", "ds", ["g", 1]):
            for n in range(1, len(base) + 1):
                for sub in itertools.combinations(base, n):
                    for c in (0, 1):
                        quads = [t + [c] for t in sub] + [[12, 3, 1, 2]]
                        for w in (None, 1):
                            if w is not None and fe not in ("cg", "ds"):
                                continue
                            op = list(swap)
                            op[1] = w
                            yield {"fe": fe, "union": False, "quads": quads, "empty": [], "ops": [op]}


SUITES = [C10()]
